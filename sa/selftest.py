#!/venv/bin/python
"""setup_cmd: nothing to build; exercises the engine on small fixtures so a broken engine
is noticed before any check runs."""
import ast, os, sys
sys.path.insert(0, os.path.dirname(os.path.dirname(os.path.abspath(__file__))))
from sa import core, flow

def walker_fixture():
    src = '''
def f(self, x):
    self._m.append(x)
    if x:
        self._mutated()
        return 1
    for i in x:
        if i:
            break
    else:
        self._mutated()
    try:
        g()
    except ValueError:
        return 2
    self._mutated()
'''
    fn = ast.parse(src).body[0]
    def tr(node, st):
        for n in ast.walk(node) if not isinstance(node, (ast.Return,)) else []:
            if isinstance(n, ast.Call) and isinstance(n.func, ast.Attribute):
                if n.func.attr == 'append':
                    st = 'dirty'
                elif n.func.attr == '_mutated':
                    st = 'clean'
        return [st]
    w = flow.PathWalker(tr)
    exits = w.run(fn, 'clean')
    kinds = sorted((k, s) for k, s, _ in exits)
    assert ('return', 'clean') in kinds and ('return', 'dirty') in kinds and ('fall', 'clean') in kinds, kinds
    assert ('fall', 'dirty') not in kinds, kinds

def resolver_fixture():
    r = core.Repo()
    assert len(r.modules) > 500 and len(r.classes) > 700, (len(r.modules), len(r.classes))
    m = r.module('cirq-core/cirq/transformers/eject_z.py')
    assert r.resolve(m, 'cirq.Circuit').qual == 'cirq.circuits.circuit.Circuit'
    x = r.cls('cirq.ops.common_gates.XPowGate')
    assert [c.name for c in r.mro(x)][:3] == ['XPowGate', 'EigenGate', 'Gate']

def general_fixture():
    """every general rule must fire on its positive example and stay silent on the twin (the rules have no violation on the real tree)"""
    from sa import report
    from sa.props import general
    bad = '''
def make(a, opt=None):
    return (a, opt)

def pick(kind, a, opt=None):
    if kind:
        return make(a, opt=opt)
    return make(a)

def wrap(a, opt=None):
    return make(a)

def label(qubits, rates, data, table, key):
    qs = set(qubits)
    out = dict(zip(qs, rates))
    for i, q in enumerate(sorted(qubits)):
        out[q] = data[:, i]
    return out, table.get(key) or table.get(str(key))

class Box:
    def __init__(self, items, opts):
        opts['seen'] = True
        self._items = items
        self._total = None

    def total(self):
        if self._total is None:
            self._total = sum(self._items)
        return self._total

    def replace(self, items):
        self._items = items

def configure(job, labels: dict | None = None):
    labels['job'] = job
    return labels

def twice(xs):
    g = (x * x for x in xs)
    return list(g), list(g)

def best(cands):
    if len(cands) <= 1:
        pass
    return cands[0]

def owners(groups):
    back = {}
    for i, group in enumerate(groups):
        for x in group:
            back[x] = i
    return back

def positions(op, mask):
    for q in op.qubits:
        mask[q.x] = 1
    return mask

def zz_lookup(table, key) -> list | None:
    return table.get(key)

def first_use(table, key):
    if zz_lookup(table, key) is None:
        return 0
    return 1

def second_use(table, key):
    if zz_lookup(table, key):
        return 1
    return 0

def clear_all(moments, qubits: Iterable[int]):
    for m in moments:
        m.discard_all(qubits)

def pad(windows, rows, q, g, g_inv):
    for s, e in windows:
        first = rows[s].get(q)
        last = rows[e].get(q)
        rows[s][q] = (first, g)
        rows[e][q] = (g_inv, last)

def placeholders(op):
    mask = op.gate.invert_mask or (False,) * len(op.qubits)
    return [(q, b) for q, b in zip(op.qubits, mask)]

def frozen_args(args):
    if all(isinstance(a, Hashable) for a in args.values()):
        return frozenset(args.items())
    return tuple(args.items())

def split_back(all_batches, progs):
    total = sum(len(b) for b in all_batches)
    step = total // max(len(progs), 1)
    out = []
    for batch, ps in zip(all_batches, progs):
        for j in range(len(ps)):
            out.append(batch[j * step:(j + 1) * step])
    return out
'''
    good = '''
def make(a, opt=None):
    return (a, opt)

def pick(kind, a, opt=None):
    if kind:
        return make(a, opt=opt)
    return make(a, opt)

def wrap(a, opt=None):
    return make(a, opt=opt)

def label(qubits, rates, data, table, key):
    qs = list(qubits)
    out = dict(zip(qs, rates))
    for i, q in enumerate(qubits):
        out[q] = data[:, i]
    v = table.get(key)
    return out, table.get(str(key)) if v is None else v

class Box:
    def __init__(self, items, opts):
        opts = dict(opts)
        opts['seen'] = True
        self._items = items
        self._total = None

    def total(self):
        if self._total is None:
            self._total = sum(self._items)
        return self._total

    def replace(self, items):
        self._items = items
        self._total = None

def configure(job, labels: dict | None = None):
    labels = dict(labels or {})
    labels['job'] = job
    return labels

def twice(xs):
    g = [x * x for x in xs]
    return list(g), list(g)

def best(cands):
    if len(cands) == 0:
        return None
    return cands[0]

def owners(groups):
    back = {}
    for i, group in enumerate(groups):
        for x in group:
            back.setdefault(x, []).append(i)
    return back

def positions(op, mask):
    for q in op.qubits:
        if q.x < 0:
            raise ValueError(q)
        mask[q.x] = 1
    return mask

def zz_lookup(table, key) -> list | None:
    return table.get(key)

def first_use(table, key):
    if zz_lookup(table, key) is None:
        return 0
    return 1

def second_use(table, key):
    if zz_lookup(table, key) is not None:
        return 1
    return 0

def clear_all(moments, qubits: Iterable[int]):
    qubits = frozenset(qubits)
    for m in moments:
        m.discard_all(qubits)

def pad(windows, rows, q, g, g_inv):
    for s, e in windows:
        first = rows[s].get(q)
        rows[s][q] = (first, g)
        last = rows[e].get(q)
        rows[e][q] = (g_inv, last)

def placeholders(op):
    mask = op.gate.invert_mask or ()
    mask += (False,) * (len(op.qubits) - len(mask))
    return [(q, b) for q, b in zip(op.qubits, mask)], [q for q, b in zip(op.qubits, op.gate.invert_mask) if b]

def frozen_args(args):
    try:
        return frozenset(args.items())
    except TypeError:
        return tuple(args.items())

def split_back(all_batches, progs):
    out = []
    for batch, ps in zip(all_batches, progs):
        step = len(batch) // len(ps)
        for j in range(len(ps)):
            out.append(batch[j * step:(j + 1) * step])
    return out
'''
    rel = 'cirq-core/cirq/work/zz_fixture.py'
    base = core.Repo()
    for src, want in ((bad, {'z_fwd': 1, 'z_drop': 1, 'z_pair': 2, 'z_get': 1, 'z_ctor': 1, 'z_opt': 1, 'z_gen': 1, 'z_memo': 1, 'z_first': 1, 'z_inv': 1, 'z_coord': 1, 'z_none': 1, 'z_loop': 1, 'z_stale': 1, 'z_mask': 1, 'z_hash': 1, 'z_stride': 1}), (good, {})):
        r = core.Repo(overlay={rel: src}, base=base)
        ctx = report.Ctx('C18', 'quick', r)
        general.apply(ctx, 'C18')
        got = {}
        for v in ctx.violations:
            if 'zz_fixture' in v['key']:
                got[v['rule'].split('.')[1]] = got.get(v['rule'].split('.')[1], 0) + 1
        assert got == want, (got, want)

walker_fixture()
resolver_fixture()
general_fixture()
print('sa selftest ok')
