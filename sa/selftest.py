#!/venv/bin/python
"""setup_cmd: nothing to build; exercises the engine on small fixtures so a broken engine
is noticed before any check runs."""
import ast, os, sys
sys.path.insert(0, os.path.dirname(os.path.dirname(os.path.abspath(__file__))))
from sa import core, flow

def walker_fixture():
    src = '''
def f(self, x):
    self._m.append(x)
    if x:
        self._mutated()
        return 1
    for i in x:
        if i:
            break
    else:
        self._mutated()
    try:
        g()
    except ValueError:
        return 2
    self._mutated()
'''
    fn = ast.parse(src).body[0]
    def tr(node, st):
        for n in ast.walk(node) if not isinstance(node, (ast.Return,)) else []:
            if isinstance(n, ast.Call) and isinstance(n.func, ast.Attribute):
                if n.func.attr == 'append':
                    st = 'dirty'
                elif n.func.attr == '_mutated':
                    st = 'clean'
        return [st]
    w = flow.PathWalker(tr)
    exits = w.run(fn, 'clean')
    kinds = sorted((k, s) for k, s, _ in exits)
    assert ('return', 'clean') in kinds and ('return', 'dirty') in kinds and ('fall', 'clean') in kinds, kinds
    assert ('fall', 'dirty') not in kinds, kinds

def resolver_fixture():
    r = core.Repo()
    assert len(r.modules) > 500 and len(r.classes) > 700, (len(r.modules), len(r.classes))
    m = r.module('cirq-core/cirq/transformers/eject_z.py')
    assert r.resolve(m, 'cirq.Circuit').qual == 'cirq.circuits.circuit.Circuit'
    x = r.cls('cirq.ops.common_gates.XPowGate')
    assert [c.name for c in r.mro(x)][:3] == ['XPowGate', 'EigenGate', 'Gate']

walker_fixture()
resolver_fixture()
print('sa selftest ok')
