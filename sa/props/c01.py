"""C01 - unitary simulation equals the ordered product of operation matrices.

Decided: each gate's result is committed as the new state (buffer discipline of the state-vector
representation, exchange-before-rebind, refusal reported); the kernels of the table-defined gates
equal their matrices (C04.b re-run here); the prefix shared by all sweep points contains nothing a
resolver changes; an initial-state array is never adopted in place.  Not decided: numerical equality
of whole simulations, axis arithmetic, product-state split/merge, dtype tolerance.
"""
from . import simrules, shared, c04


def run(ctx):
    ctx.decided += [
        'C01.a buffer-commit discipline of _BufferedStateVector (write -> commit, returned tensor committed, exchange before rebind, input array copied)',
        'C01.b sweep prefix excludes parameterized operations',
        'C01.k in-place kernels of the table-defined gates == their matrices (shared with C04.b)',
        'C01.c copies handed to each repetition/sweep point (shared with C02.c)',
    ]
    ctx.not_decided += ['numerical equality of simulation results with the matrix product', 'axis/permutation arithmetic in linalg', 'product state factor/kron', 'dtype tolerance']
    simrules.buffer_commit_rule(ctx, 'C01.a', ['cirq.sim.state_vector_simulation_state._BufferedStateVector'])
    shared.sweep_prefix_rule(ctx, 'C01.b')
    simrules.replay_isolation_rule(ctx, 'C01.c')
    simrules.swap_shortcut_rule(ctx, 'C01.d')
    simrules.controlled_special_case_rule(ctx, 'C01.e')
    simrules.classical_basis_index_rule(ctx, 'C01.f')
    simrules.merged_state_rule(ctx, 'C01.g')
    simrules.integer_digit_rule(ctx, 'C01.h')
    simrules.factoring_rule(ctx, 'C01.i')
    simrules.named_initial_state_rule(ctx, 'C01.l')
    ctx.decided.append('C01.l a ProductState initial state is written in the qubit order of the simulation before it becomes a bare vector')
    shared.qudit_blind_dispatch_rule(ctx, 'C01.j', ['cirq-core/cirq/sim/'], floor=2)
    ctx.decided.append('C01.j simulator code that recognises X/Z power gates by class looks at their dimension (qudit X is not a bit flip)')
    ctx.decided.append('C01.i the linalg factoring helpers behind the product-state container split product tensors along any ordered choice of axes and refuse entangled ones')
    ctx.decided.append('C01.h an integer initial state is split into per-qudit digits with integer arithmetic only')
    ctx.decided.append('C01.g every merged product state is built from the zero-qubit factor that carries the global phase')
    ctx.decided.append('C01.f every basis[k] in the classical simulator is indexed by a position its qubits map to')
    ctx.decided.append('C01.e code that special-cases controlled gates (the classical simulator, the controlled() shortcuts, nested-control flattening) consults control_values')
    ctx.decided.append('C01.d the product-state SWAP relabelling shortcut is taken only for gates that are exactly SWAP (guard interpreted on probe exponents / shifts)')
    sub = type(ctx)(ctx.prop, ctx.tier, ctx.repo)
    c04.run(sub)
    ctx.rule('C01.k', sub.rules['C04.b']['text'], floor=10, style='FDX')
    for o in sub.obligations:
        if o['rule'] == 'C04.b':
            ctx.ob('C01.k', o['key'], o['ok'], o['msg'], o['file'], o['line'])
