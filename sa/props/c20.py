"""C20 - asynchronous job orchestration resolves every job exactly once.

Decided (ordering / pairing skeleton every schedule relies on): subscribe-before-send with a
fresh id; response demultiplexer pops before completing and completes only unfinished
futures; every failure arm of the stream loop wakes the request iterator; the retry table
and the helper requests; the collector's spawn guards, counter pairing and single delivery.
Not decided: anything that needs the interleavings themselves.
"""
from __future__ import annotations

import ast

from ..core import AnalysisError, call_name, dotted, is_self_attr, kwarg
from ..flow import dominating_atoms, block_of, enclosing_loops, stmts_in_order
from .. import chains

SM = 'cirq-google/cirq_google/engine/stream_manager.py'
COL = 'cirq-core/cirq/work/collector.py'


def _calls(node, pred):
    return [c for c in ast.walk(node) if isinstance(c, ast.Call) and pred(c)]


def _order(fn, nodes):
    """Source-order positions (line, col) - the functions analysed here are straight-line inside their loop bodies."""
    return [(n.lineno, n.col_offset) for n in nodes]


def _canonical_roles(fn):
    """A copy of _manage_execution in which the locals are renamed by the role they play (what they are bound to), so that the
    rules below do not depend on what the source happens to call them:
      response_future  <- the value of subscribe(...)
      response         <- the value of `await response_future`
      current_request  <- the argument of the awaited queue.put(...)
      create_program_and_job_request <- what current_request is first bound to before the retry loop"""
    import copy
    fn2 = copy.deepcopy(fn)
    roles = {}
    for st in ast.walk(fn2):
        if isinstance(st, ast.Assign) and len(st.targets) == 1 and isinstance(st.targets[0], ast.Name):
            v = st.value
            if isinstance(v, ast.Call) and call_name(v) == 'subscribe':
                roles[st.targets[0].id] = 'response_future'
    for st in ast.walk(fn2):
        if isinstance(st, ast.Assign) and len(st.targets) == 1 and isinstance(st.targets[0], ast.Name) and isinstance(st.value, ast.Await) \
                and isinstance(st.value.value, ast.Name) and roles.get(st.value.value.id) == 'response_future':
            roles[st.targets[0].id] = 'response'
        if isinstance(st, ast.Await) and isinstance(st.value, ast.Call) and call_name(st.value) == 'put' and st.value.args and isinstance(st.value.args[0], ast.Name):
            roles[st.value.args[0].id] = 'current_request'
    cur = [k for k, v in roles.items() if v == 'current_request']
    if cur:
        for st in fn2.body:
            if isinstance(st, ast.Assign) and len(st.targets) == 1 and isinstance(st.targets[0], ast.Name) and st.targets[0].id == cur[0] and isinstance(st.value, ast.Name):
                roles[st.value.id] = 'create_program_and_job_request'
    for n in ast.walk(fn2):
        if isinstance(n, ast.Name) and n.id in roles:
            n.id = roles[n.id]
    return fn2


def run(ctx):
    repo = ctx.repo
    ctx.decided += [
        'C20.a execution loop: fresh message id -> subscribe -> send -> await, in that order in every iteration; retry/cancel/response arms',
        'C20.b demultiplexer: publish pops then completes unfinished futures only; publish_exception completes all then clears; duplicate ids rejected; ids never reused',
        'C20.c stream loop: every except arm enqueues the None sentinel; non-cancel arm publishes the exception',
        'C20.d retry table (error code x current request kind -> next request) and the helper requests copy the right resource names',
        'C20.e collector: spawn guarded by budget and concurrency; counters paired around spawn/await; exactly one of add/error per job unless an error is already recorded',
    ]
    ctx.not_decided += ['schedule-universal delivery (needs the interleavings)', 'timeouts / backoff', 'gRPC behaviour']
    from . import shared
    shared.or_default_rule(ctx, 'C20.g', ['cirq-core/cirq/work/', 'cirq-google/cirq_google/engine/'], floor=1)
    ctx.decided.append('C20.g budgets / limits are never defaulted with `x or <non-zero number>`: an explicit 0 (sample budget used up) stays 0')
    m = repo.module(SM)
    sm = repo.cls('cirq_google.engine.stream_manager.StreamManager')
    dm = repo.cls('cirq_google.engine.stream_manager.ResponseDemux')
    parents = m.parents()

    # ------------------------------------------------------------------ C20.a
    ctx.rule('C20.a', '_manage_execution: inside the retry loop the message id is regenerated, the future is subscribed before the request '
             'is put on the queue, and the put precedes awaiting the future; non-retryable errors re-raise; retry rebinds the request; '
             'cancellation cancels the future, cancels the remote job and re-raises; result/job return, error consults the retry table', floor=10, style='MPT')
    fn = repo.method(sm.qual, '_manage_execution')
    from .. import normalize
    fn = _canonical_roles(normalize.canonical(fn, sm.methods, {k: v for k, v in m.defs.items() if isinstance(v, ast.FunctionDef)},
                                             keep=('_generate_message_id', '_get_retry_request_or_raise', '_to_create_job_request', '_to_get_result_request', '_is_retryable_error')))
    loops = [n for n in ast.walk(fn) if isinstance(n, ast.While)]
    if not loops:
        raise AnalysisError('_manage_execution: retry loop vanished')
    loop = loops[0]
    tries = [n for n in loop.body if isinstance(n, ast.Try)]
    if not tries:
        raise AnalysisError('_manage_execution: try block vanished')
    tr = tries[0]
    body = tr.body
    def find_stmt(pred):
        for i, st in enumerate(body):
            if pred(st):
                return i
        return None
    i_id = find_stmt(lambda st: isinstance(st, ast.Assign) and 'message_id' in ast.unparse(st.targets[0]) and '_generate_message_id' in ast.unparse(st.value))
    i_sub = find_stmt(lambda st: 'subscribe(' in ast.unparse(st))
    i_put = find_stmt(lambda st: 'request_queue.put(' in ast.unparse(st) and isinstance(getattr(st, 'value', None), ast.Await))
    i_await = find_stmt(lambda st: isinstance(st, ast.Assign) and isinstance(st.value, ast.Await) and 'put(' not in ast.unparse(st.value))
    key = f'{sm.qual}._manage_execution'
    ctx.ob('C20.a', key + ':fresh-id-per-iteration', i_id is not None, '' if i_id is not None else 'message id is not regenerated inside the retry loop: a retry reuses an id', m.rel, tr.lineno)
    ok = None not in (i_id, i_sub) and i_id < i_sub
    ctx.ob('C20.a', key + ':id-before-subscribe', ok, '' if ok else 'subscribe happens before the fresh id is assigned', m.rel, tr.lineno)
    ok = None not in (i_sub, i_put) and i_sub < i_put
    ctx.ob('C20.a', key + ':subscribe-before-send', ok, '' if ok else 'the request is sent before its response future is subscribed: a fast response is lost', m.rel, tr.lineno)
    ok = None not in (i_put, i_await) and i_put < i_await
    ctx.ob('C20.a', key + ':send-before-await', ok, '' if ok else 'the future is awaited before the request is sent', m.rel, tr.lineno)
    if i_sub is not None and i_id is not None:
        sub_arg = ast.unparse(_calls(body[i_sub], lambda c: call_name(c) == 'subscribe')[0].args[0])
        id_tgt = ast.unparse(body[i_id].targets[0])
        ctx.ob('C20.a', key + ':subscribe-same-id', sub_arg == id_tgt, '' if sub_arg == id_tgt else f'subscribes `{sub_arg}` but the request carries `{id_tgt}`', m.rel, body[i_sub].lineno)
    if i_put is not None:
        put_arg = ast.unparse(_calls(body[i_put], lambda c: call_name(c) == 'put')[0].args[0])
        ctx.ob('C20.a', key + ':sends-current', put_arg == 'current_request', '' if put_arg == 'current_request' else f'sends `{put_arg}` instead of current_request', m.rel, body[i_put].lineno)
    for h in tr.handlers:
        t = ast.unparse(h.type) if h.type is not None else ''
        if 'GoogleAPICallError' in t:
            src = ' '.join(ast.unparse(s) for s in h.body)
            g = [s for s in h.body if isinstance(s, ast.If) and '_is_retryable_error' in ast.unparse(s.test)]
            ok = bool(g) and any(isinstance(x, ast.Raise) for x in g[0].body) and isinstance(g[0].test, ast.UnaryOp)
            ctx.ob('C20.a', key + ':broken-stream:non-retryable-raises', ok, '' if ok else 'non-retryable stream errors are not re-raised to the caller', m.rel, h.lineno)
            rebind = [s for s in h.body if isinstance(s, ast.Assign) and ast.unparse(s.targets[0]) == 'current_request']
            ok = bool(rebind) and '_to_get_result_request' in ast.unparse(rebind[0].value) and any(isinstance(s, ast.Continue) for s in h.body)
            ctx.ob('C20.a', key + ':broken-stream:retry-with-get-result', ok,
                   '' if ok else 'after a retryable stream break the loop does not retry with a get-result request (re-creating would run the job twice)', m.rel, h.lineno)
        if 'CancelledError' in t:
            src = ' '.join(ast.unparse(s) for s in h.body)
            ok = 'response_future.cancel()' in src and '_cancel(job.name)' in src and any(isinstance(s, ast.Raise) and s.exc is None for s in h.body)
            ctx.ob('C20.a', key + ':cancel-arm', ok, '' if ok else 'cancellation does not (cancel the future, cancel the remote job, re-raise)', m.rel, h.lineno)
            # ... and the remote cancel is sent on *every* path through the arm, whatever state the local future is in
            from ..flow import PathWalker

            def _sends_cancel(node):
                return any(isinstance(c, ast.Call) and call_name(c) == '_cancel' for c in ast.walk(node)) if isinstance(node, ast.stmt) else False
            def _branch(test, taken, st):
                # `if response_future is not None:` - with no future there is no request in flight and nothing to cancel remotely
                if isinstance(test, ast.Compare) and len(test.ops) == 1 and isinstance(test.comparators[0], ast.Constant) and test.comparators[0].value is None \
                        and isinstance(test.left, ast.Name):
                    if (isinstance(test.ops[0], ast.IsNot) and not taken) or (isinstance(test.ops[0], ast.Is) and taken):
                        return [True]
                return [st]
            w = PathWalker(lambda node, st: [True] if (st or _sends_cancel(node)) else [st], _branch)
            w.exits = []
            out, brk, cont = w.block(h.body, {False})
            ends = set(out) | set(brk) | set(cont) | {e[1] for e in w.exits}
            ok = bool(ends) and all(ends)
            ctx.ob('C20.a', key + ':cancel-arm:rpc-on-every-path', ok, '' if ok else 'some path through the cancellation arm leaves without sending the cancel RPC (the call is conditional): '
                   'when the local future is already done but the job is not, the submitter sees CancelledError while the remote job keeps running', m.rel, h.lineno)
    # response switch
    chain = [n for n in loop.body if isinstance(n, ast.If) and "'result' in response" in ast.unparse(n.test)]
    if not chain:
        raise AnalysisError('_manage_execution: response switch vanished')
    br = chains.if_chain(chain[0])
    got = {}
    for test, b in br:
        t = ast.unparse(test) if test is not None else 'else'
        got[t] = b
    ok = any(isinstance(s, ast.Return) and ast.unparse(s.value) == 'response.result' for s in got.get("'result' in response", []))
    ctx.ob('C20.a', key + ':response:result', ok, '' if ok else 'a result response does not return response.result', m.rel, chain[0].lineno)
    ok = any(isinstance(s, ast.Return) and ast.unparse(s.value) == 'response.job' for s in got.get("'job' in response", []))
    ctx.ob('C20.a', key + ':response:job', ok, '' if ok else 'a job response does not return response.job', m.rel, chain[0].lineno)
    eb = got.get("'error' in response", [])
    ok = any(isinstance(s, ast.Assign) and ast.unparse(s.targets[0]) == 'current_request' and '_get_retry_request_or_raise' in ast.unparse(s.value) for s in eb) \
        and any(isinstance(s, ast.Continue) for s in eb)
    ctx.ob('C20.a', key + ':response:error', ok, '' if ok else 'an error response does not rebind current_request from the retry table and loop', m.rel, chain[0].lineno)
    ok = any(isinstance(s, ast.Raise) for s in got.get('else', []))
    ctx.ob('C20.a', key + ':response:unknown-raises', ok, '' if ok else 'unknown response kinds do not raise', m.rel, chain[0].lineno)
    # call-site binding of helper requests to retry-table parameters
    rc = _calls(fn, lambda c: call_name(c) == '_get_retry_request_or_raise')
    rt = m.defs.get('_get_retry_request_or_raise')
    if not rc or rt is None:
        raise AnalysisError('_get_retry_request_or_raise vanished')
    params = [a.arg for a in rt.args.args]
    bound = dict(zip(params, rc[0].args))
    for k in rc[0].keywords:
        bound[k.arg] = k.value
    want = {'error': 'response.error', 'current_request': 'current_request', 'create_program_and_job_request': 'create_program_and_job_request',
            'create_job_request': '_to_create_job_request(create_program_and_job_request)',
            'get_result_request': '_to_get_result_request(create_program_and_job_request)'}
    for p, w in want.items():
        g = ast.unparse(bound[p]) if p in bound else None
        ctx.ob('C20.a', key + f':retry-call:{p}', g == w, '' if g == w else f'retry table parameter `{p}` is bound to `{g}` (expected `{w}`)', m.rel, rc[0].lineno)

    # ------------------------------------------------------------------ C20.b
    ctx.rule('C20.b', 'ResponseDemux: publish removes the subscriber (pop) before completing it and completes only futures that are not done; '
             'publish_exception completes every unfinished future then clears; subscribe raises on a duplicate id before storing; '
             '_generate_message_id increments on every call and _reset never touches the counter', floor=8, style='MPT')
    pub = repo.method(dm.qual, 'publish')
    pops = _calls(pub, lambda c: call_name(c) == 'pop' and '_subscribers' in ast.unparse(c.func))
    sets = _calls(pub, lambda c: call_name(c) == 'set_result')
    ok = bool(pops) and bool(sets) and pops[0].lineno < sets[0].lineno and 'message_id' in ast.unparse(pops[0].args[0])
    ctx.ob('C20.b', f'{dm.qual}.publish:pop-before-complete', ok, '' if ok else 'publish does not remove the subscriber (by response.message_id) before completing it: a second response with the same id is delivered again', m.rel, pub.lineno)
    if sets:
        atoms = [ast.unparse(a) + ('' if pol else ':neg') for a, pol in dominating_atoms(parents, sets[0], pub)]
        ok = any(a.endswith('.done():neg') for a in atoms)
        ctx.ob('C20.b', f'{dm.qual}.publish:not-done-guard', ok, '' if ok else 'publish completes a future without checking it is not already done (cancelled futures raise InvalidStateError)', m.rel, sets[0].lineno)
        ok = ast.unparse(sets[0].args[0]) == 'response'
        ctx.ob('C20.b', f'{dm.qual}.publish:delivers-response', ok, '' if ok else 'publish does not deliver the response itself', m.rel, sets[0].lineno)
    pe = repo.method(dm.qual, 'publish_exception')
    se = _calls(pe, lambda c: call_name(c) == 'set_exception')
    cl = _calls(pe, lambda c: call_name(c) == 'clear' and '_subscribers' in ast.unparse(c.func))
    ok = bool(se) and bool(cl) and se[0].lineno < cl[0].lineno and not enclosing_loops(parents, cl[0], pe)
    ctx.ob('C20.b', f'{dm.qual}.publish_exception:complete-all-then-clear', ok, '' if ok else 'publish_exception does not complete every outstanding future and then clear the table', m.rel, pe.lineno)
    if se:
        atoms = [ast.unparse(a) + ('' if pol else ':neg') for a, pol in dominating_atoms(parents, se[0], pe)]
        ok = any(a.endswith('.done():neg') for a in atoms) and any('_subscribers' in ast.unparse(l.iter) for l in enclosing_loops(parents, se[0], pe))
        ctx.ob('C20.b', f'{dm.qual}.publish_exception:all-unfinished', ok, '' if ok else 'publish_exception does not visit all subscribers / skips the not-done test', m.rel, se[0].lineno)
    sub = repo.method(dm.qual, 'subscribe')
    raises = [n for n in ast.walk(sub) if isinstance(n, ast.Raise)]
    stores = [n for n in ast.walk(sub) if isinstance(n, ast.Subscript) and isinstance(n.ctx, ast.Store) and '_subscribers' in ast.unparse(n.value)]
    ok = bool(raises) and bool(stores) and raises[0].lineno < stores[0].lineno and \
        any('in self._subscribers' in ast.unparse(a) and pol for a, pol in dominating_atoms(parents, raises[0], sub))
    ctx.ob('C20.b', f'{dm.qual}.subscribe:duplicate-rejected', ok, '' if ok else 'subscribe does not reject a duplicate message id before storing the future', m.rel, sub.lineno)
    gen = repo.method(sm.qual, '_generate_message_id')
    inc = [n for n in gen.body if isinstance(n, ast.AugAssign) and is_self_attr(n.target, '_next_available_message_id') and isinstance(n.op, ast.Add)]
    ret = [n for n in gen.body if isinstance(n, ast.Return)]
    ok = bool(inc) and bool(ret)
    if ok:
        # returned id is computed before the increment
        defs = [n for n in gen.body if isinstance(n, ast.Assign) and '_next_available_message_id' in ast.unparse(n.value)]
        ok = bool(defs) and defs[0].lineno < inc[0].lineno and ast.unparse(ret[0].value) == ast.unparse(defs[0].targets[0])
    ctx.ob('C20.b', f'{sm.qual}._generate_message_id:increments', ok, '' if ok else '_generate_message_id does not hand out the current counter and then increment it unconditionally', m.rel, gen.lineno)
    rs = repo.method(sm.qual, '_reset')
    touched = any(is_self_attr(n, '_next_available_message_id') and isinstance(n.ctx, ast.Store) for n in ast.walk(rs))
    ctx.ob('C20.b', f'{sm.qual}._reset:keeps-counter', not touched, '' if not touched else '_reset rewinds the message-id counter: ids are reused across stream restarts', m.rel, rs.lineno)

    # ------------------------------------------------------------------ C20.c
    ctx.rule('C20.c', '_manage_stream: the normal end of the response loop is turned into a break (raise / publish by hand); every except arm puts the None sentinel on the request queue (so the request iterator of the broken '
             'stream terminates); the CancelledError arm breaks; the general arm publishes the exception to all waiters and loops', floor=4, style='MPT')
    ms = repo.method(sm.qual, '_manage_stream')
    tries = [n for n in ast.walk(ms) if isinstance(n, ast.Try)]
    if not tries or len(tries[0].handlers) < 2:
        raise AnalysisError('_manage_stream: handlers vanished')
    for h in tries[0].handlers:
        t = ast.unparse(h.type) if h.type is not None else 'bare'
        src = ' '.join(ast.unparse(s) for s in h.body)
        ok = any(isinstance(c, ast.Call) and call_name(c) == 'put' and len(c.args) == 1 and isinstance(c.args[0], ast.Constant) and c.args[0].value is None
                 for s_ in h.body for c in ast.walk(s_))
        ctx.ob('C20.c', f'{sm.qual}._manage_stream:{t}:sentinel', ok, '' if ok else f'except {t} arm does not enqueue the None sentinel: the old request iterator keeps consuming requests meant for the new stream', m.rel, h.lineno)
        if 'CancelledError' in t:
            ok = any(isinstance(s, ast.Break) for s in h.body)
            ctx.ob('C20.c', f'{sm.qual}._manage_stream:{t}:breaks', ok, '' if ok else 'cancellation does not stop the stream loop', m.rel, h.lineno)
        else:
            ok = any(isinstance(c, ast.Call) and call_name(c) == 'publish_exception' and len(c.args) == 1 and isinstance(c.args[0], ast.Name) and c.args[0].id == h.name
                     for s_ in h.body for c in ast.walk(s_)) and not any(isinstance(s, (ast.Break, ast.Return, ast.Raise)) for s in h.body)
            ctx.ob('C20.c', f'{sm.qual}._manage_stream:{t}:publishes-and-loops', ok, '' if ok else 'a broken stream is not reported to every waiting execution (or the loop stops)', m.rel, h.lineno)
    pubcalls = _calls(tries[0], lambda c: call_name(c) == 'publish')
    # publish(<the loop variable of the enclosing `async for` over the stream>)
    ok = False
    if pubcalls and pubcalls[0].args and isinstance(pubcalls[0].args[0], ast.Name):
        for l in enclosing_loops(parents, pubcalls[0], ms):
            if isinstance(l, ast.AsyncFor) and isinstance(l.target, ast.Name) and l.target.id == pubcalls[0].args[0].id:
                ok = True
    ctx.ob('C20.c', f'{sm.qual}._manage_stream:publishes-each-response', ok, '' if ok else 'responses are not all forwarded to the demultiplexer', m.rel, ms.lineno)

    # the response loop may also simply end (the server closes the stream without an error): that is a broken stream too
    body = tries[0].body
    afors = [i for i, s_ in enumerate(body) if isinstance(s_, ast.AsyncFor)]
    ok = False
    if afors:
        rest = body[afors[-1] + 1:]
        # what follows the loop inside the try either raises into the arms above, or does by hand what they do
        raises = any(isinstance(s_, ast.Raise) for s_ in rest)
        by_hand = any(isinstance(c, ast.Call) and call_name(c) == 'publish_exception' for s_ in rest for c in ast.walk(s_)) and \
            any(isinstance(c, ast.Call) and call_name(c) == 'put' and len(c.args) == 1 and isinstance(c.args[0], ast.Constant) and c.args[0].value is None for s_ in rest for c in ast.walk(s_))
        ok = raises or by_hand
    ctx.ob('C20.c', f'{sm.qual}._manage_stream:end-of-stream-is-a-break', ok, '' if ok else
           'when the response loop ends without an exception (the server closed the stream) the coroutine just opens a new stream: no sentinel, no notification - the executions whose '
           'requests were in flight wait for ever for a response that cannot come', m.rel, ms.lineno)

    # ------------------------------------------------------------------ C20.d
    ctx.rule('C20.d', 'retry table: (error code, kind of current request) -> next request equals the table that makes the job run once; '
             'helper requests copy parent/program.name/job.name from the original create request', floor=10, style='TBL')
    # decided by interpreting the function on every (error code, kind of the current request) pair: requests are tokens, a request "contains" its kind,
    # Code.X is the token X - so the table is read off the behaviour, whatever ladder / early-return / lookup form the source uses
    from .. import fdx
    KINDS = ('create_quantum_program_and_job', 'create_quantum_job', 'get_quantum_result')
    REF = {('PROGRAM_DOES_NOT_EXIST', 'create_quantum_job'): 'create_program_and_job_request',
           ('PROGRAM_ALREADY_EXISTS', 'create_quantum_program_and_job'): 'get_result_request',
           ('JOB_DOES_NOT_EXIST', 'get_quantum_result'): 'create_job_request',
           ('JOB_ALREADY_EXISTS', 'create_quantum_program_and_job'): 'get_result_request',
           ('JOB_ALREADY_EXISTS', 'create_quantum_job'): 'get_result_request'}
    codes = sorted({x.attr for x in ast.walk(m.tree) if isinstance(x, ast.Attribute) and isinstance(x.value, ast.Name) and x.value.id == 'Code'} | {c for c, _ in REF} | {'SOME_OTHER_CODE'})
    params = [a.arg for a in rt.args.args]
    if len(params) != 5:
        raise AnalysisError(f'_get_retry_request_or_raise: expected 5 parameters (error, current request, three candidate requests), found {params}')

    def attr_hook(node, it):
        if isinstance(node.value, ast.Name) and node.value.id == 'Code':
            return node.attr
        return NotImplemented

    def call_hook(call, it):
        if call_name(call) == 'StreamError':
            return ('StreamError',)
        return NotImplemented
    n_raise = 0
    for code in codes:
        for kind in KINDS:
            env = {params[0]: {'code': code, 'message': 'msg'}, params[1]: frozenset([kind]),
                   params[2]: 'create_program_and_job_request', params[3]: 'create_job_request', params[4]: 'get_result_request'}
            try:
                got = fdx.Interp(env, call_hook=call_hook, attr_hook=attr_hook).call(rt)
            except fdx.Raised:
                got = 'raise'
                n_raise += 1
            except fdx.Unsupported as ex:
                raise AnalysisError(f'cannot interpret _get_retry_request_or_raise: {ex}')
            want = REF.get((code, kind), 'raise')
            if (code, kind) in REF:
                ctx.ob('C20.d', f'retry-table:{code}:{kind}', got == want, '' if got == want else
                       f'for {code} in reply to a {kind} request the next request is `{got}` (the job runs exactly once only with `{want}`)', m.rel, rt.lineno)
            elif got != 'raise':
                ctx.ob('C20.d', f'retry-table:no-extra-cases:{code}:{kind}', False, f'{code} in reply to a {kind} request is retried with `{got}`: a non-retryable reply must surface as StreamError', m.rel, rt.lineno)
    ctx.ob('C20.d', 'retry-table:no-extra-cases', True, '', m.rel, rt.lineno)
    ctx.ob('C20.d', 'retry-table:falls-through-to-raise', n_raise > 0, '' if n_raise else 'unhandled stream errors do not surface as StreamError', m.rel, rt.lineno)
    HELP = {
        '_to_create_job_request': {('QuantumRunStreamRequest', 'parent'): 'create_program_and_job_request.parent',
                                   ('CreateQuantumJobRequest', 'parent'): 'create_program_and_job_request.create_quantum_program_and_job.quantum_program.name',
                                   ('CreateQuantumJobRequest', 'quantum_job'): 'create_program_and_job_request.create_quantum_program_and_job.quantum_job'},
        '_to_get_result_request': {('QuantumRunStreamRequest', 'parent'): 'create_program_and_job_request.parent',
                                   ('GetQuantumResultRequest', 'parent'): 'create_program_and_job_request.create_quantum_program_and_job.quantum_job.name'},
    }
    for hn, table in HELP.items():
        h = m.defs.get(hn)
        if h is None:
            raise AnalysisError(f'{hn} vanished')
        env = {}
        for st in h.body:
            if isinstance(st, ast.Assign) and isinstance(st.targets[0], ast.Name):
                env[st.targets[0].id] = ast.unparse(st.value)
        def expand(e):
            s = ast.unparse(e)
            parts = s.split('.')
            if parts[0] in env:
                s = '.'.join([env[parts[0]]] + parts[1:])
            return s
        for c in ast.walk(h):
            if isinstance(c, ast.Call):
                cn = call_name(c)
                for k in c.keywords:
                    if (cn, k.arg) in table:
                        g = expand(k.value)
                        w = table[(cn, k.arg)]
                        ctx.ob('C20.d', f'{hn}:{cn}.{k.arg}', g == w, '' if g == w else f'{cn}.{k.arg} is taken from `{g}` (Engine resource naming requires `{w}`)', m.rel, k.value.lineno)
        oneof = {'_to_create_job_request': 'create_quantum_job', '_to_get_result_request': 'get_quantum_result'}[hn]
        ok = any(isinstance(c, ast.Call) and call_name(c) == 'QuantumRunStreamRequest' and any(k.arg == oneof for k in c.keywords) for c in ast.walk(h))
        ctx.ob('C20.d', f'{hn}:request-kind', ok, '' if ok else f'{hn} does not build a `{oneof}` request', m.rel, h.lineno)

    # ------------------------------------------------------------------ C20.e
    ctx.rule('C20.e', 'Collector.collect_async: spawning a job is dominated by `remaining_samples > 0` and `running_jobs < concurrency`; '
             'the budget is charged and running_jobs incremented before the spawn; running_jobs is decremented after awaiting one result '
             'and before on_job_result; the halt test is on running_jobs; run_job delivers add/error only when no error is recorded', floor=9, style='MPT')
    cm = repo.module(COL)
    col = repo.cls('cirq.work.collector.Collector')
    ca = repo.method(col.qual, 'collect_async')
    cp = cm.parents()
    spawns = _calls(ca, lambda c: call_name(c) == 'spawn')
    if not spawns:
        raise AnalysisError('collect_async: scope.spawn vanished')
    sp = spawns[0]
    ck = f'{col.qual}.collect_async'
    # names are taken from the code, not assumed: budget = local initialised from max_total_samples;
    # running = the counter compared with the `concurrency` parameter; queue = the list the spawned job is popped from
    budget = None
    for n in ast.walk(ca):
        if isinstance(n, ast.Assign) and isinstance(n.targets[0], ast.Name) and 'max_total_samples' in {x.id for x in ast.walk(n.value) if isinstance(x, ast.Name)}:
            budget = n.targets[0].id
    datoms = dominating_atoms(cp, sp, ca)
    running = None
    ok_conc = False
    ok_budget = False
    for a_, pol in datoms:
        if isinstance(a_, ast.Compare) and len(a_.ops) == 1 and isinstance(a_.left, ast.Name):
            r_ = a_.comparators[0]
            if isinstance(r_, ast.Name) and r_.id == 'concurrency' and ((isinstance(a_.ops[0], ast.Lt) and pol) or (isinstance(a_.ops[0], ast.GtE) and not pol)):
                running = a_.left.id
                ok_conc = True
            if a_.left.id == budget and isinstance(r_, ast.Constant) and r_.value == 0 and ((isinstance(a_.ops[0], ast.Gt) and pol) or (isinstance(a_.ops[0], ast.LtE) and not pol)):
                ok_budget = True
    shown = [ast.unparse(a_) if pol else 'not(' + ast.unparse(a_) + ')' for a_, pol in datoms]
    if budget is None:
        raise AnalysisError('collect_async: sample budget variable not found')
    ctx.ob('C20.e', ck + ':spawn-guard:budget', ok_budget, '' if ok_budget else f'a job can be started although the sample budget `{budget}` is used up (spawn is only guarded by {shown})', cm.rel, sp.lineno)
    ctx.ob('C20.e', ck + ':spawn-guard:concurrency', ok_conc, '' if ok_conc else f'a job can be started beyond the requested concurrency (spawn is only guarded by {shown})', cm.rel, sp.lineno)
    if running is None:
        cands = [n.target.id for n in ast.walk(ca) if isinstance(n, ast.AugAssign) and isinstance(n.target, ast.Name) and isinstance(n.op, ast.Add)
                 and isinstance(n.value, ast.Constant) and n.value.value == 1]
        running = cands[0] if cands else 'running_jobs'
    b = block_of(cp, sp)
    before = b[2][:b[3]]
    jobvar = ast.unparse(sp.args[1]) if len(sp.args) > 1 else None
    charged = [s for s in before if isinstance(s, ast.AugAssign) and isinstance(s.op, ast.Sub) and isinstance(s.target, ast.Name) and s.target.id == budget]
    ok = bool(charged) and jobvar is not None and ast.unparse(charged[0].value) == f'{jobvar}.repetitions'
    ctx.ob('C20.e', ck + ':charge-before-spawn', ok, '' if ok else 'the sample budget is not charged with the repetitions of the job being spawned before it is spawned', cm.rel, sp.lineno)
    incs = [s for s in before if isinstance(s, ast.AugAssign) and isinstance(s.op, ast.Add) and isinstance(s.target, ast.Name) and s.target.id == running
            and isinstance(s.value, ast.Constant) and s.value.value == 1]
    ctx.ob('C20.e', ck + ':count-before-spawn', len(incs) == 1, '' if len(incs) == 1 else f'`{running}` is not incremented exactly once before the job is spawned', cm.rel, sp.lineno)
    popped = [s for s in before if isinstance(s, ast.Assign) and isinstance(s.value, ast.Call) and call_name(s.value) == 'pop' and ast.unparse(s.targets[0]) == jobvar]
    ctx.ob('C20.e', ck + ':spawns-the-popped-job', bool(popped), '' if popped else 'the job that is spawned is not the one taken from the queue', cm.rel, sp.lineno)
    queue = ast.unparse(popped[0].value.func.value) if popped else None
    aw = [n for n in ast.walk(ca) if isinstance(n, ast.Await) and '__anext__' in ast.unparse(n)]
    dec = [n for n in ast.walk(ca) if isinstance(n, ast.AugAssign) and isinstance(n.op, ast.Sub) and isinstance(n.target, ast.Name) and n.target.id == running]
    ojr = _calls(ca, lambda c: call_name(c) == 'on_job_result')
    ok = bool(aw) and len(dec) == 1 and bool(ojr) and aw[0].lineno < dec[0].lineno < ojr[0].lineno and isinstance(dec[0].value, ast.Constant) and dec[0].value.value == 1
    ctx.ob('C20.e', ck + ':decrement-after-result', ok, '' if ok else f'`{running}` is not decremented exactly once between receiving a result and on_job_result', cm.rel, ca.lineno)
    halts = [n for n in ast.walk(ca) if isinstance(n, ast.If) and any(isinstance(s, ast.Break) for s in n.body) and
             isinstance(n.test, ast.UnaryOp) and isinstance(n.test.op, ast.Not) and isinstance(n.test.operand, ast.Name) and n.test.operand.id == running]
    ok = bool(halts) and bool(aw) and halts[0].lineno < aw[0].lineno and spawns[0].lineno < halts[0].lineno
    ctx.ob('C20.e', ck + ':halt-when-idle', ok, '' if ok else 'the loop does not halt exactly when no job is running (after trying to fill the pool, before waiting)', cm.rel, ca.lineno)
    nj = _calls(ca, lambda c: call_name(c) == 'next_job')
    ok = bool(nj) and queue is not None and any(ast.unparse(a_) == queue and not pol for a_, pol in dominating_atoms(cp, nj[0], ca))
    ctx.ob('C20.e', ck + ':asks-when-queue-empty', ok, '' if ok else 'next_job is not asked exactly when the local queue is empty', cm.rel, ca.lineno)
    # the job runner is whatever function the spawn hands to the scope (by role, not by name)
    runner = sp.args[0].id if sp.args and isinstance(sp.args[0], ast.Name) else None
    rj = [n for n in ast.walk(ca) if isinstance(n, (ast.AsyncFunctionDef, ast.FunctionDef)) and n.name == runner]
    if not rj:
        raise AnalysisError('collect_async: the function handed to scope.spawn is not a local function of collect_async')
    nl = [x for n in ast.walk(rj[0]) if isinstance(n, ast.Nonlocal) for x in n.names]
    flag = nl[0] if nl else 'job_error'
    for nm in ('add', 'error'):
        cs = _calls(rj[0], lambda c: call_name(c) == nm and isinstance(c.func, ast.Attribute))
        ok = bool(cs) and all(any(ast.unparse(a) == flag and not pol for a, pol in dominating_atoms(cp, c, rj[0])) for c in cs)
        ctx.ob('C20.e', ck + f':run_job:{nm}-only-if-no-error', ok,
               '' if ok else f'results.{nm} can be called after an error was already recorded: the collector sees a second completion / raises "already done"', cm.rel, rj[0].lineno)
    errs = _calls(rj[0], lambda c: call_name(c) == 'error' and isinstance(c.func, ast.Attribute))
    if errs:
        bl = block_of(cp, errs[0])
        ok = any(isinstance(s, ast.Assign) and ast.unparse(s.targets[0]) == flag for s in bl[2])
        ctx.ob('C20.e', ck + ':run_job:records-error', ok, '' if ok else 'the first error is delivered but not recorded: later completions are delivered too', cm.rel, errs[0].lineno)
    _limiter_rule(ctx, repo)


def _limiter_rule(ctx, repo):
    ctx.decided.append('C20.f ProcessorSampler holds its concurrency-limiter slot until the job result has arrived: every await of a job result in _run_sweep_async / '
                       'run_batch_async lies inside `async with self._concurrent_job_limiter`')
    ctx.rule('C20.f', 'concurrency limit: in ProcessorSampler every `await <job>.results_async()` (and the await that creates the job) is lexically inside the '
             '`async with self._concurrent_job_limiter` block, so no more than max_concurrent_jobs jobs are in flight', floor=2, style='MPT')
    ps = repo.cls('cirq_google.engine.processor_sampler.ProcessorSampler')
    parents = ps.mod.parents()
    n_aw = 0
    for mn, fn in ps.methods.items():
        if not isinstance(fn, ast.AsyncFunctionDef):
            continue
        for aw in [n for n in ast.walk(fn) if isinstance(n, ast.Await) and isinstance(n.value, ast.Call)
                   and call_name(n.value) in ('results_async', 'run_sweep_async') and not (isinstance(n.value.func, ast.Attribute) and isinstance(n.value.func.value, ast.Name)
                                                                                              and n.value.func.value.id == 'self')]:
            n_aw += 1
            inside = False
            cur = aw
            while cur in parents and cur is not fn:
                cur = parents[cur]
                if isinstance(cur, ast.AsyncWith) and any('limiter' in ast.unparse(i.context_expr) for i in cur.items):
                    inside = True
            ctx.ob('C20.f', f'{ps.qual}.{mn}:{call_name(aw.value)}:inside-limiter', inside,
                   '' if inside else f'`{ast.unparse(aw)[:60]}` runs after the limiter slot has been released: the slot only covers job creation, so more than '
                   'max_concurrent_jobs jobs are in flight at once', ps.mod.rel, aw.lineno)
    if n_aw == 0:
        raise AnalysisError('ProcessorSampler: no awaited job creation / result found')
