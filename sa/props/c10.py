"""C10 - parameter resolution and sweeps commute with everything else.

Decided: every parameter-carrying field of every class is seen by all three parameter
protocols; identity-return short-cuts of resolution are flag-guarded; sweep classes
enumerate/equal/serialise over the same fields; the sweep prefix excludes parameterized
operations.  Not decided: numeric value_of paths, sweep arithmetic, flattening.
"""
from __future__ import annotations

import ast

from ..core import AnalysisError, call_name, walk_local, dotted
from .. import fields as F
from .. import coh
from . import shared

TRIPLE = ('_is_parameterized_', '_parameter_names_', '_resolve_parameters_')

# (class qual) -> reason : classes that legitimately define only part of the triple
TRIPLE_EXEMPT = {
    'cirq.study.resolver.ParamResolver':
        'the resolver itself: resolving a resolver composes assignments; it is never asked for names',
}
# field aliases that the property-alias map cannot see (one line of reason each)
FIELD_ALIAS = {
    ('cirq.ops.phased_iswap_gate.PhasedISwapPowGate', '_iswap'): '_exponent',
    # _iswap = ISwapPowGate(exponent=exponent, global_shift=...) built in __init__ from the
    # same constructor parameter that EigenGate.__init__ stores in _exponent
}


def _norm(ci, s):
    return {FIELD_ALIAS.get((ci.qual, f), f) for f in s} - {'__class__'}


def run(ctx):
    repo = ctx.repo
    from . import c16 as _c16
    _c16._operand_order(ctx, repo, 'C10.h')
    ctx.decided += [
        'C10.a every class taking part in the parameter protocols defines all three of '
        '_is_parameterized_/_parameter_names_/_resolve_parameters_ and they read the same '
        'parameter-carrying fields',
        'C10.b _resolve_parameters_ rebuilds pass every stored constructor parameter',
        'C10.c identity-return short-cuts of Moment/AbstractCircuit resolution are guarded by a change flag',
        'C10.d sweep classes: enumeration, equality, hash and JSON cover the same fields',
        'C01.b the sweep prefix simulated once excludes parameterized operations',
        'C10.f resolver composition lets the inner resolver\'s bindings win; C10.g flattened symbols always pass the collision check',
    ]
    ctx.not_decided += ['value_of fast paths vs sympy', 'sweep length/index/slice arithmetic',
                        'flatten_expressions', 'numerical equality of anything']

    # ------------------------------------------------------------------ C10.a
    ctx.rule('C10.a', 'parameter triple: all three protocol methods present; fields read by '
             '_is_parameterized_ == fields read by _parameter_names_ and subset of fields read by '
             '_resolve_parameters_ (alias-normalised, helpers/properties/super() followed)', floor=35, style='COH')
    for ci in sorted(repo.classes.values(), key=lambda c: c.qual):
        own = [t for t in TRIPLE if t in ci.methods]
        if not own:
            continue
        if '.testing.' in ci.qual or ci.name.startswith('Supports') or ci.qual.startswith('cirq.protocols.'):
            continue
        if ci.qual in TRIPLE_EXEMPT:
            continue
        res = {}
        for t in TRIPLE:
            m = repo.find_method(ci, t)
            res[t] = (m[0], m[1], _norm(ci, F.self_reads(repo, ci, m[1], depth=3))) if m else None
        line = ci.methods[own[0]].lineno
        key = f'{ci.qual}'
        missing = [t for t in TRIPLE if res[t] is None]
        if missing:
            ctx.ob('C10.a', key + ':missing:' + ','.join(missing), False,
                   f'class defines {own} but has no {missing} (own or inherited): symbols in its '
                   'fields are invisible to that protocol', ci.mod.rel, line, construct=key)
            continue
        a, b, c = (res[t][2] for t in TRIPLE)
        ok = a == b and a <= c
        msg = ''
        if a != b:
            msg = f'_is_parameterized_ reads {sorted(a)} but _parameter_names_ reads {sorted(b)}'
        elif not a <= c:
            msg = f'_resolve_parameters_ does not read parameter field(s) {sorted(a - c)}'
        ctx.ob('C10.a', key + (':fields' if not ok else ''), ok, msg, ci.mod.rel, line, construct=key)

    holder_triple_rule(ctx, 'C10.i')
    sweep_rewrite_length_rule(ctx, 'C10.j')
    shared.numeric_predicate_on_symbols_rule(ctx, 'C10.l', ['cirq-core/cirq/transformers/'], floor=2)
    _c16._sweep_subclass_shadowing(ctx, repo, rid='C10.k', prefixes=('cirq-core/cirq/study/', 'cirq-core/cirq/transformers/', 'cirq-core/cirq/sim/', 'cirq-core/cirq/work/'), floor=1)
    ctx.decided.append('C10.i classes whose constructor accepts symbolic-capable values implement the parameter protocols')

    # ------------------------------------------------------------------ C10.a2
    ctx.decided.append('C10.a2 every parameter-carrying field actually flows into a call that receives the resolver (reading a field only to copy it unchanged does not resolve it)')
    ctx.rule('C10.a2', 'applied resolver: every field read by _is_parameterized_ / _parameter_names_ reaches, in _resolve_parameters_ (through locals, loops, helpers and super()), '
             'a call whose receiver or arguments derive from the `resolver` parameter', floor=30, style='TNT')
    A2_EXEMPT = {
        'cirq.circuits.circuit_operation.CircuitOperation':
            '_is_parameterized_ looks at the mapped circuit, which reads every map; the resolved fields are checked by C12.e',
    }
    from ..flow import name_deps

    def resolved_fields(ci0, owner, fn, depth=0, seen=None):
        seen = seen if seen is not None else set()
        if fn in seen or depth > 3:
            return set()
        seen.add(fn)
        params = [a.arg for a in fn.args.args[1:]]
        rname = next((p_ for p_ in params if 'resolver' in p_ or p_ in ('param_values', 'params')), params[0] if params else None)

        def src(n):
            if isinstance(n, ast.Attribute) and isinstance(n.value, ast.Name) and n.value.id == 'self':
                return {F.norm_field(repo, ci0, n.attr)}
            if isinstance(n, ast.Call) and isinstance(n.func, ast.Attribute) and isinstance(n.func.value, ast.Name) and n.func.value.id == 'self':
                m = repo.find_method(ci0, n.func.attr)
                if m is not None:
                    return set(F.self_reads(repo, ci0, m[1], depth=2))
            if isinstance(n, (ast.For, ast.comprehension)) and isinstance(n.iter, ast.Name) and n.iter.id == 'self':
                return None
            return None
        dep = name_deps(fn, {'self': {'<self>'}}, source_of=src)
        # aliases of the resolver: the parameter itself and names bound to it directly or through ParamResolver(...) / cast(...)
        aliases = {rname} if rname else set()

        def direct(e):
            if isinstance(e, ast.Name):
                return e.id in aliases
            if isinstance(e, ast.Call) and call_name(e) in ('ParamResolver', 'cast') and e.args:
                return direct(e.args[-1])
            if isinstance(e, ast.Attribute):
                return direct(e.value)
            return False
        grew = True
        while grew:
            grew = False
            for st in ast.walk(fn):
                if isinstance(st, ast.Assign) and len(st.targets) == 1 and isinstance(st.targets[0], ast.Name) and st.targets[0].id not in aliases and direct(st.value):
                    aliases.add(st.targets[0].id)
                    grew = True

        def labels(e):
            out = set()
            for x in ast.walk(e):
                if isinstance(x, ast.Name) and x.id in dep and x.id != 'self':
                    out |= dep[x.id]
                if isinstance(x, ast.Name) and x.id == 'self' and not isinstance(getattr(x, 'ctx', None), ast.Store):
                    pass
                s_ = src(x)
                if s_:
                    out |= s_
            return out

        def is_r(e):
            return direct(e)
        out = set()
        for c in ast.walk(fn):
            if not isinstance(c, ast.Call):
                continue
            args = list(c.args) + [k.value for k in c.keywords]
            recv_r = isinstance(c.func, ast.Attribute) and is_r(c.func.value)
            if recv_r or any(is_r(a) for a in args):
                for a in args:
                    if not is_r(a):
                        out |= labels(a)
                        # a bare loop variable over `self` stands for the object's own sequence
                        for x in ast.walk(a):
                            if isinstance(x, ast.Name) and '<self>' in dep.get(x.id, ()):
                                out.add('<self>')
            if isinstance(c.func, ast.Attribute) and isinstance(c.func.value, ast.Name) and c.func.value.id == 'self':
                m = repo.find_method(ci0, c.func.attr)
                if m is not None and any(is_r(a) for a in args):
                    out |= resolved_fields(ci0, m[0], m[1], depth + 1, seen)
            elif isinstance(c.func, ast.Attribute) and isinstance(c.func.value, ast.Call) and call_name(c.func.value) == 'super':
                for b in repo.mro(owner)[1:]:
                    if c.func.attr in b.methods:
                        out |= resolved_fields(ci0, b, b.methods[c.func.attr], depth + 1, seen)
                        break
        return out
    for ci in sorted(repo.classes.values(), key=lambda c: c.qual):
        own = [t for t in TRIPLE if t in ci.methods]
        if not own or '.testing.' in ci.qual or ci.name.startswith('Supports') or ci.qual.startswith('cirq.protocols.') or ci.qual in TRIPLE_EXEMPT:
            continue
        ms = {t: repo.find_method(ci, t) for t in TRIPLE}
        if not all(ms.values()):
            continue
        key = ci.qual
        if ci.qual in A2_EXEMPT:
            ctx.ob('C10.a2', key, True, 'listed: ' + A2_EXEMPT[ci.qual], ci.mod.rel, ms[TRIPLE[2]][1].lineno)
            continue
        a = _norm(ci, F.self_reads(repo, ci, ms[TRIPLE[1]][1], depth=3))
        c = _norm(ci, resolved_fields(ci, ms[TRIPLE[2]][0], ms[TRIPLE[2]][1]))
        miss = sorted(a - c)
        ctx.ob('C10.a2', key + (':unresolved-fields' if miss else ''), not miss,
               '' if not miss else f'_parameter_names_ reports symbols of {miss}, but _resolve_parameters_ never hands {miss} to the resolver: those symbols survive resolution',
               ci.mod.rel, ms[TRIPLE[2]][1].lineno, construct=key)

    # ------------------------------------------------------------------ C10.b
    shared.rebuild_rule(ctx, 'C10.b', only_methods={'_resolve_parameters_'}, floor=20)

    # ------------------------------------------------------------------ C10.c
    ctx.rule('C10.c', 'resolution short-cut: `return self` only under a flag that is set whenever a '
             'resolved child differs; Moment additionally when a child stopped being parameterized', floor=2, style='RG')
    for cq in ('cirq.circuits.moment.Moment', 'cirq.circuits.circuit.AbstractCircuit'):
        ci = repo.cls(cq)
        fn = repo.method(cq, '_resolve_parameters_')
        rets_self = [n for n in ast.walk(fn) if isinstance(n, ast.Return) and isinstance(n.value, ast.Name) and n.value.id == 'self']
        key = f'{cq}._resolve_parameters_'
        if not rets_self:
            ctx.ob('C10.c', key, True, 'no identity short-cut', ci.mod.rel, fn.lineno)
            continue
        parents = ci.mod.parents()
        from ..flow import dominating_atoms
        for rs in rets_self:
            atoms = dominating_atoms(parents, rs, fn)
            flags = [a.id for a, pol in atoms if isinstance(a, ast.Name)]
            ok = bool(flags)
            msg = '' if ok else '`return self` is not guarded by a change flag'
            if ok:
                flag = flags[0]
                # every loop that calls resolve_parameters must be able to set the flag
                sets = [n for n in ast.walk(fn) if isinstance(n, (ast.Assign,)) and any(isinstance(t, ast.Name) and t.id == flag for t in n.targets)]
                resolves = [c for c in ast.walk(fn) if isinstance(c, ast.Call) and call_name(c) == 'resolve_parameters']
                loops = [l for l in ast.walk(fn) if isinstance(l, ast.For)]
                for l in loops:
                    has_res = any(c in list(ast.walk(l)) for c in resolves)
                    has_set = any(s in list(ast.walk(l)) for s in sets)
                    if has_res and not has_set:
                        ok = False
                        msg = f'loop at line {l.lineno} resolves children but never sets `{flag}`'
                if cq.endswith('Moment'):
                    src = ' '.join(ast.unparse(s) for s in sets)
                    if 'is_parameterized' not in src:
                        ok = False
                        msg = 'flag ignores the case "child stopped being parameterized but compares equal"'
                    if '!=' not in src and 'is not' not in src:
                        ok = False
                        msg = 'flag does not compare resolved child with original'
            ctx.ob('C10.c', key, ok, msg, ci.mod.rel, rs.lineno)

    # ------------------------------------------------------------------ C10.d
    ctx.rule('C10.d', 'each concrete Sweep: every constructor-backed field except metadata is read by '
             'keys/__len__/param_tuples; fields read by enumeration are compared by equality/hash; '
             'JSON keys cover the equality fields', floor=7, style='COH')
    sweep = repo.cls('cirq.study.sweeps.Sweep')
    for ci in sorted(repo.subclasses(sweep), key=lambda c: c.qual):
        if any(isinstance(d, ast.Attribute) and d.attr == 'abstractmethod' or dotted(d) == 'abc.abstractmethod'
               for m in ci.methods.values() for d in m.decorator_list):
            continue
        info = coh.init_info(repo, ci)
        p2f = F.init_param_to_field(repo, ci)
        stored = set().union(*p2f.values()) if p2f else set()
        enum = set()
        for mn in ('keys', '__len__', 'param_tuples', '_values'):
            m = repo.find_method(ci, mn)
            if m:
                enum |= F.self_reads(repo, ci, m[1], depth=2)
        eq = repo.find_method(ci, '__eq__')
        eqf = F.self_reads(repo, ci, eq[1], depth=2) if eq else set()
        h = repo.find_method(ci, '__hash__')
        hf = F.self_reads(repo, ci, h[1], depth=2) if h else None
        enum_f = enum & stored
        key = ci.qual
        line = ci.node.lineno
        unread = stored - enum - {'metadata'}
        ctx.ob('C10.d', key + ':stored-read', not unread, f'stored but never enumerated: {sorted(unread)}' if unread else '', ci.mod.rel, line)
        if eq and eq[0] is not sweep and '<self>' not in eqf:
            miss = enum_f - eqf - {'__class__'}
            ctx.ob('C10.d', key + ':eq', not miss, f'enumeration depends on {sorted(miss)} but equality ignores it' if miss else '', ci.mod.rel, line)
        if hf is not None and eq and '<self>' not in eqf and '<self>' not in hf:
            extra = (hf & stored) - eqf
            ctx.ob('C10.d', key + ':hash', not extra, f'hash reads {sorted(extra)} that equality ignores' if extra else '', ci.mod.rel, line)
        try:
            jk = coh.json_keys(repo, ci)
        except coh.Opaque as e:
            ctx.unres('C10.d', key, str(e), ci.mod.rel, line)
            jk = None
        if jk:
            miss = {f for f in enum_f if f not in jk['all'] and f.lstrip('_') not in jk['all']}
            ctx.ob('C10.d', key + ':json', not miss, f'JSON omits enumerated field(s) {sorted(miss)}' if miss else '', ci.mod.rel, line)

    # ------------------------------------------------------------------ C10.f
    ctx.rule('C10.f', 'resolver composition: in ParamResolver._resolve_parameters_ the identity entries for the outer resolver\'s symbols are '
             'laid down before this resolver\'s own bindings are written over them (inner bindings win), and the result is then resolved by '
             'the outer resolver', floor=1, style='MPT')
    pr = repo.cls('cirq.study.resolver.ParamResolver')
    fn = repo.method(pr.qual, '_resolve_parameters_')
    writes = []   # (line, kind) kind in {'identity', 'self', 'outer'}
    for n in ast.walk(fn):
        comp = None
        if isinstance(n, (ast.Assign, ast.AnnAssign)) and isinstance(getattr(n, 'value', None), ast.DictComp):
            comp = n.value
        elif isinstance(n, ast.Call) and call_name(n) == 'update' and n.args and isinstance(n.args[0], ast.DictComp):
            comp = n.args[0]
        if comp is None:
            continue
        it = ast.unparse(comp.generators[0].iter)
        val = ast.unparse(comp.value)
        key = ast.unparse(comp.key)
        if val == key and it == 'resolver':
            writes.append((n.lineno, 'identity'))
        elif 'self.value_of' in val:
            writes.append((n.lineno, 'self'))
        elif 'resolver.value_of' in val:
            writes.append((n.lineno, 'outer'))
    order = [k for _, k in sorted(writes)]
    ok = order[:3] == ['identity', 'self', 'outer']
    ctx.ob('C10.f', f'{pr.qual}._resolve_parameters_:write-order', ok,
           '' if ok else f'bindings are combined in the order {order}: the outer resolver\'s identity entries overwrite this resolver\'s bindings for shared '
           'symbols, so resolve(resolve(x, r1), r2) != resolve(x, compose(r1, r2))', pr.mod.rel, fn.lineno)

    # ------------------------------------------------------------------ C10.g
    ctx.rule('C10.g', 'flattening: every new entry written to the flattener\'s symbol table maps the expression to a symbol obtained from '
             '_next_symbol (the collision check against already taken names)', floor=1, style='WMW')
    fl = repo.cls('cirq.study.flatten_expressions._ParamFlattener')
    for mn, mfn in sorted(fl.methods.items()):
        if mn == '__init__':
            continue
        from ..flow import reaching_defs
        stores = [n for n in ast.walk(mfn) if isinstance(n, ast.Assign) and isinstance(n.targets[0], ast.Subscript)
                  and '_param_dict' in ast.unparse(n.targets[0].value)]
        if not stores:
            continue
        names = {n.value.id for n in stores if isinstance(n.value, ast.Name)}
        rd = reaching_defs(mfn, names) if names else {}
        for st in stores:
            v = st.value
            if isinstance(v, ast.Name):
                defs = rd.get(id(v), set())
                ok = bool(defs) and all(isinstance(d, ast.AST) and '_next_symbol' in ast.unparse(d) for d in defs)
            else:
                ok = '_next_symbol' in ast.unparse(v)
            ctx.ob('C10.g', f'{fl.qual}.{mn}:table-store', ok,
                   '' if ok else f'`{ast.unparse(st)}` enters a symbol that did not come from _next_symbol: it can coincide with the name generated for another expression',
                   fl.mod.rel, st.lineno)

    # ------------------------------------------------------------------ C01.b
    shared.sweep_prefix_rule(ctx, 'C01.b')


# ---------------------------------------------------------------------------------------------------------------------
# C10.i  A class whose constructor accepts a symbolic-capable value (annotated TParamVal / TParamValComplex) or a payload
# of a type that itself implements the parameter protocols must implement them too (own or inherited) - otherwise a
# symbol stored inside is invisible: is_parameterized() is False and resolve_parameters() hands the object back unchanged.
HOLDER_EXEMPT = {
    'cirq.devices.grid_device_metadata.GridDeviceMetadata': 'device description; durations are concrete values',
    'cirq.experiments.z_phase_calibration.CalibrationTransformer': 'a transformer object, not a circuit element; its map holds fitted (numeric) gates',
    'cirq.ops.common_gate_families.AnyIntegerPowerGateFamily': 'holds a gate *type*',
    'cirq.ops.linear_combinations.ProjectorSum': 'projector coefficients are documented as complex numbers; no symbolic arithmetic is offered',
    'cirq.ops.pauli_measurement_gate.PauliMeasurementGate': 'the observable is validated to have coefficient +1 or -1',
    'cirq.ops.pauli_string.MutablePauliString': 'mutable work object; symbols are resolved on the frozen PauliString it converts to',
    'cirq.ops.pauli_string_raw_types.PauliStringGateOperation': 'abstract base; PauliStringPhasor implements the protocols, the single-qubit subclass carries coefficient 1',
}


def holder_triple_rule(ctx, rid='C10.i'):
    import re
    from ..core import ClassInfo
    repo = ctx.repo
    ctx.rule(rid, 'holders of symbols take part in the protocols: every class (outside testing / contrib / interop) whose __init__ takes a parameter annotated TParamVal / TParamValComplex, or '
             'annotated with a cirq class that implements _is_parameterized_ / _parameter_names_ / _resolve_parameters_ (LinearDict, PauliString, DensePauliString, ...), implements all '
             'three itself (own or inherited), or is tabled with the reason no symbol can be stored', floor=28, style='COH')
    SKIP_T = {'Qid', 'Gate', 'Operation', 'Circuit', 'FrozenCircuit', 'AbstractCircuit', 'Moment', 'ParamResolver', 'Sweep'}

    def has_triple(c):
        return all(repo.find_method(c, t) for t in TRIPLE)
    for ci in sorted(repo.classes.values(), key=lambda c: c.qual):
        if '.testing.' in ci.qual or '.contrib.' in ci.qual or ci.qual.startswith('cirq.protocols.') or '.interop.' in ci.qual:
            continue
        init = ci.methods.get('__init__')
        if init is None:
            continue
        why = None
        for a in init.args.args[1:] + init.args.kwonlyargs:
            if a.annotation is None:
                continue
            ann = ast.unparse(a.annotation)
            if 'TParamVal' in ann:
                why = (a.arg, ann)
                break
            for nm in re.findall(r'[A-Za-z_][A-Za-z0-9_.]*', ann):
                try:
                    r = repo.resolve(ci.mod, nm)
                except Exception:
                    r = None
                if isinstance(r, ClassInfo) and r.qual.startswith('cirq.') and r.name not in SKIP_T and has_triple(r):
                    why = (a.arg, ann)
                    break
            if why:
                break
        if why is None:
            continue
        ex = HOLDER_EXEMPT.get(ci.qual)
        ok = has_triple(ci) or ex is not None
        miss = [t for t in TRIPLE if not repo.find_method(ci, t)]
        ctx.ob(rid, f'{ci.qual}:holds:{why[0]}', ok, ('tabled: ' + ex) if (ex and miss) else '' if ok else
               f'__init__ takes `{why[0]}: {why[1]}`, which can carry a sympy symbol, but the class has no {miss}: the symbol is invisible to is_parameterized / parameter_names and '
               'resolve_parameters returns the object unchanged', ci.mod.rel, init.lineno)


def sweep_rewrite_length_rule(ctx, rid='C10.j'):
    """A function that rebuilds a sweep point by point yields one point per point of the source."""
    repo = ctx.repo
    ctx.decided.append(f'{rid} sweep rewrites (a loop over a sweep whose accumulator becomes a ListSweep) append exactly one entry per point, into a list')
    ctx.rule(rid, 'one point out per point in: where a function builds `ListSweep(acc)` from a loop over a sweep, `acc` starts as an empty list and the loop body appends to it '
             'unconditionally exactly once per iteration - an accumulator that merges equal points (dict / set) or a conditional append changes the number of points of the sweep, '
             'so results no longer line up with the points the caller asked for', floor=1, style='MPT')
    n = 0
    for mod, ci, fn in repo.all_functions():
        if mod.rel.endswith('_test.py'):
            continue
        for call in ast.walk(fn):
            if isinstance(call, ast.Call) and call_name(call).split('.')[-1] == 'ListSweep' and len(call.args) == 1 and isinstance(call.args[0], ast.ListComp):
                flt = [i for g in call.args[0].generators for i in g.ifs]
                n += 1
                ctx.ob(rid, f'{mod.name}.{(ci.name + ".") if ci else ""}{fn.name}:comprehension', not flt,
                       f'the comprehension filters points (`if {ast.unparse(flt[0])}`)' if flt else '', mod.rel, call.lineno)
                continue
            if not (isinstance(call, ast.Call) and call_name(call).split('.')[-1] == 'ListSweep' and len(call.args) == 1 and isinstance(call.args[0], ast.Name)):
                continue
            acc = call.args[0].id
            inits = [a for a in ast.walk(fn) if isinstance(a, (ast.Assign, ast.AnnAssign)) and a.value is not None
                     and any(isinstance(t, ast.Name) and t.id == acc for t in (a.targets if isinstance(a, ast.Assign) else [a.target]))]
            loops = [l for l in ast.walk(fn) if isinstance(l, ast.For) and any(
                isinstance(x, ast.Name) and x.id == acc for s in l.body for x in ast.walk(s))]
            if not inits or not loops:
                continue
            init = inits[0].value
            empty = (isinstance(init, (ast.List, ast.Dict, ast.Set)) and not getattr(init, 'elts', getattr(init, 'keys', []))) or \
                (isinstance(init, ast.Call) and call_name(init) in ('list', 'dict', 'set') and not init.args)
            if not empty:
                continue  # pre-sized result filled by position (Sweep.__getitem__): a different shape, decided by nobody here
            loop = loops[0]
            key = f'{mod.name}.{(ci.name + ".") if ci else ""}{fn.name}:{acc}'
            n += 1
            msg = ''
            if not (isinstance(init, ast.List) or (isinstance(init, ast.Call) and call_name(init) == 'list')):
                msg = f'accumulator `{acc}` starts as `{ast.unparse(init)}`: equal points collapse into one'
            else:
                top = [s for s in loop.body if isinstance(s, ast.Expr) and isinstance(s.value, ast.Call) and isinstance(s.value.func, ast.Attribute)
                       and isinstance(s.value.func.value, ast.Name) and s.value.func.value.id == acc and s.value.func.attr == 'append']
                others = [x for s in loop.body for x in ast.walk(s) if isinstance(x, ast.Call) and isinstance(x.func, ast.Attribute)
                          and isinstance(x.func.value, ast.Name) and x.func.value.id == acc and x not in [t.value for t in top]]
                skips = [x for s in loop.body for x in ast.walk(s) if isinstance(x, (ast.Continue, ast.Break))]
                if len(top) != 1 or others:
                    msg = f'`{acc}` is not appended to exactly once, unconditionally, per point ({len(top)} top-level append(s), {len(others)} other call(s))'
                elif skips:
                    msg = f'the loop can skip or stop before the append (`{ast.unparse(skips[0])}`)'
            ctx.ob(rid, key, not msg, msg, mod.rel, loop.lineno)
    if n == 0:
        raise AnalysisError('no sweep rewrite found (ListSweep(acc) after a loop filling acc)')
