"""C18 - all views of measurement results tell the same story.

Decided: every convenience entry point of a sampler funnels into the one run_sweep(_async) hook
with the caller's program / parameters / repetitions and returns what the hook returned;
wrapping samplers validate before delegating and forward all arguments; the packed record
written by ResultDict._json_dict_ has exactly the fields the reader unpacks, and the flag
returned by _pack_digits is the one stored.  Not decided: endianness / shape / digit
conversions, histograms, data frames.
"""
from __future__ import annotations

import ast

from ..core import AnalysisError, call_name, dotted, func_params, is_self_attr


def _names(e):
    return {n.id for n in ast.walk(e) if isinstance(n, ast.Name)}


def run(ctx):
    repo = ctx.repo
    ctx.decided += [
        'C18.a Sampler.run / run_async / sample / run_batch_async / _run_sweep_impl / _run_sweep_async_impl reach run_sweep(_async) of self with program, params and repetitions '
        'derived from their own arguments and return values derived from the hook\'s result',
        'C18.b ResultDict JSON: packed-record fields written == fields the unpacker accepts; binary flag provenance; EngineResult adds job_id on both sides',
        'C18.c wrapping samplers (ZerosSampler, ValidatingSampler, ProcessorSampler, SimulatesSamples) forward every argument to what they wrap and validate first',
    ]
    ctx.not_decided += ['endianness, shapes and mixed-radix digit conversions', 'histograms, data frames, string forms', 'concatenation of results']
    sm = repo.cls('cirq.work.sampler.Sampler')
    rel = sm.mod.rel

    ctx.rule('C18.a', 'funnel: each convenience entry point calls the run_sweep / run_sweep_async hook of self, binding `program`, the parameter argument and '
             '`repetitions` to expressions derived from the entry point\'s own parameters of the same role, and its return value depends on the hook\'s result', floor=6, style='EFF')
    ENTRY = {
        'run': ('run_sweep', {'program': 'program', 'params': 'param_resolver', 'repetitions': 'repetitions'}),
        'run_async': ('run_sweep_async', {'program': 'program', 'params': 'param_resolver', 'repetitions': 'repetitions'}),
        'sample': ('run_sweep', {'program': 'program', 'params': 'params', 'repetitions': 'repetitions'}),
        '_run_sweep_impl': ('run_sweep_async', {'program': 'program', 'params': 'params', 'repetitions': 'repetitions'}),
        '_run_sweep_async_impl': ('run_sweep', {'program': 'program', 'params': 'params', 'repetitions': 'repetitions'}),
        'run_batch_async': ('run_sweep_async', {'program': 'programs', 'params': 'params_list', 'repetitions': 'repetitions'}),
    }
    for mn, (hook, roles) in ENTRY.items():
        fn = sm.methods.get(mn)
        if fn is None:
            raise AnalysisError(f'Sampler.{mn} vanished')
        hook_params = func_params(sm.methods[hook])[1:] if hook in sm.methods else ['program', 'params', 'repetitions']
        # local derivations
        dep = {p: {p} for p in func_params(fn)}
        for _ in range(4):
            for n in ast.walk(fn):
                tg, val = None, None
                if isinstance(n, ast.Assign):
                    tg, val = n.targets, n.value
                elif isinstance(n, (ast.For, ast.comprehension)):
                    tg, val = [n.target], n.iter
                if val is None:
                    continue
                used = set()
                for x in _names(val):
                    used |= dep.get(x, set())
                for t in tg:
                    for x in ast.walk(t):
                        if isinstance(x, ast.Name):
                            dep.setdefault(x.id, set()).update(used)
        site = None
        bound = {}
        for c in ast.walk(fn):
            if not isinstance(c, ast.Call):
                continue
            # direct call self.hook(...)
            if isinstance(c.func, ast.Attribute) and c.func.attr == hook and isinstance(c.func.value, ast.Name) and c.func.value.id == 'self':
                site = c
                for i, a in enumerate(c.args):
                    if i < len(hook_params):
                        bound[hook_params[i]] = a
                for k in c.keywords:
                    bound[k.arg] = k.value
            # passed as a function: duet.run(self.hook, program, params, repetitions) / pstarmap_async(self.hook, zip(...))
            elif any(isinstance(a, ast.Attribute) and a.attr == hook and isinstance(a.value, ast.Name) and a.value.id == 'self' for a in c.args):
                site = c
                rest = [a for a in c.args if not (isinstance(a, ast.Attribute) and a.attr == hook)]
                if len(rest) == 1 and isinstance(rest[0], ast.Call) and call_name(rest[0]) == 'zip':
                    rest = rest[0].args
                for i, a in enumerate(rest):
                    if i < len(hook_params):
                        bound[hook_params[i]] = a
        key = f'{sm.qual}.{mn}'
        if site is None:
            ctx.ob('C18.a', key + ':reaches-hook', False, f'{mn} no longer calls self.{hook}', rel, fn.lineno)
            continue
        for role, src in roles.items():
            hp = {'program': hook_params[0], 'params': hook_params[1], 'repetitions': hook_params[2]}[role]
            a = bound.get(hp)
            deps = set()
            if a is not None:
                for x in _names(a):
                    deps |= dep.get(x, {x})
            ok = a is not None and src in deps
            ctx.ob('C18.a', key + f':{role}', ok, '' if ok else f'the hook\'s `{hp}` is bound to `{ast.unparse(a) if a is not None else None}`, which does not derive from {mn}\'s `{src}`', rel, site.lineno)
        # return derives from hook result
        res_names = set()
        par = sm.mod.parents()
        p = par.get(site)
        while p is not None and not isinstance(p, ast.stmt):
            p = par.get(p)
        ok = False
        if isinstance(p, ast.Return):
            ok = True
        elif isinstance(p, ast.Assign):
            res_names = {t.id for t in p.targets if isinstance(t, ast.Name)}
            closure = set(res_names)
            for _ in range(4):
                for n in ast.walk(fn):
                    if isinstance(n, ast.Assign) and _names(n.value) & closure:
                        closure |= {t.id for t in n.targets if isinstance(t, ast.Name)}
                    if isinstance(n, (ast.For, ast.comprehension)) and _names(n.iter) & closure:
                        closure |= _names(n.target)
                    if isinstance(n, ast.Call) and isinstance(n.func, ast.Attribute) and n.func.attr in ('append', 'extend') and \
                            isinstance(n.func.value, ast.Name) and any(_names(a) & closure for a in n.args):
                        closure.add(n.func.value.id)
            ok = any(isinstance(r, ast.Return) and r.value is not None and _names(r.value) & closure for r in ast.walk(fn))
        ctx.ob('C18.a', key + ':returns-hook-result', ok, '' if ok else f'{mn} does not return what self.{hook} produced', rel, fn.lineno)
    # default hook pair must not be mutually recursive without override: each default delegates to the other impl
    for mn, impl in (('run_sweep', '_run_sweep_impl'), ('run_sweep_async', '_run_sweep_async_impl')):
        fn = sm.methods.get(mn)
        other = 'run_sweep_async' if mn == 'run_sweep' else 'run_sweep'
        ok = fn is not None and any(isinstance(d, ast.Call) and call_name(d) == 'alternative' and
                                    any(k.arg == 'implementation' and ast.unparse(k.value) == impl for k in d.keywords) and
                                    any(k.arg == 'requires' and ast.unparse(k.value).strip("'\"") == other for k in d.keywords)
                                    for d in fn.decorator_list)
        ctx.ob('C18.a', f'{sm.qual}.{mn}:default', ok, '' if ok else f'{mn} is not declared with @alternative(requires=<the other hook>, implementation={impl})', rel, getattr(fn, 'lineno', 1))
    rb = sm.assigns.get('run_batch')
    ok = rb is not None and 'run_batch_async' in ast.unparse(rb)
    ctx.ob('C18.a', f'{sm.qual}.run_batch', ok, '' if ok else 'run_batch is not the synchronous wrapper of run_batch_async', rel, 1)

    # ------------------------------------------------------------------ C18.c
    ctx.rule('C18.c', 'wrapping samplers: run_sweep(_async) of ZerosSampler / ValidatingSampler / ProcessorSampler uses all three of program, params and '
             'repetitions; ValidatingSampler validates before delegating; SimulatesSamples.run_sweep_iter passes the resolved circuit and repetitions to _run', floor=6, style='COH')
    for cq in ('cirq.work.zeros_sampler.ZerosSampler', 'cirq_google.engine.validating_sampler.ValidatingSampler',
               'cirq_google.engine.processor_sampler.ProcessorSampler'):
        ci = repo.cls(cq)
        for mn in ('run_sweep', 'run_sweep_async', 'run_batch_async'):
            fn = ci.methods.get(mn)
            if fn is None:
                continue
            ps = func_params(fn)[1:]
            used = _names(fn) if False else {n.id for s_ in fn.body for n in ast.walk(s_) if isinstance(n, ast.Name)}
            miss = [p for p in ps if p not in used]
            ctx.ob('C18.c', f'{cq}.{mn}:uses-all-arguments', not miss, '' if not miss else f'{mn} never looks at its argument(s) {miss}', ci.mod.rel, fn.lineno)
    vs = repo.cls('cirq_google.engine.validating_sampler.ValidatingSampler')
    for mn in ('run_sweep', 'run_batch_async', 'run_sweep_async'):
        fn = vs.methods.get(mn)
        if fn is None:
            continue
        val = [c.lineno for c in ast.walk(fn) if isinstance(c, ast.Call) and 'validat' in ast.unparse(c.func).lower()]
        dele = [c.lineno for c in ast.walk(fn) if isinstance(c, ast.Call) and isinstance(c.func, ast.Attribute) and c.func.attr in ('run_sweep', 'run_batch', 'run_sweep_async', 'run_batch_async')
                and 'sampler' in ast.unparse(c.func.value).lower()]
        ok = bool(val) and bool(dele) and min(val) < min(dele)
        ctx.ob('C18.c', f'{vs.qual}.{mn}:validate-before-delegate', ok, '' if ok else 'circuits reach the wrapped sampler without having been validated', vs.mod.rel, fn.lineno)
    ss = repo.cls('cirq.sim.simulator.SimulatesSamples')
    rsi = ss.methods.get('run_sweep_iter')
    if rsi is None:
        raise AnalysisError('SimulatesSamples.run_sweep_iter vanished')
    runs = [c for c in ast.walk(rsi) if isinstance(c, ast.Call) and call_name(c) == '_run']
    ok = bool(runs) and any('repetitions' in ast.unparse(k.value) for c in runs for k in c.keywords if k.arg == 'repetitions') and \
        all('param_resolver' in ast.unparse(c) for c in runs)
    ctx.ob('C18.c', f'{ss.qual}.run_sweep_iter:_run-arguments', ok, '' if ok else '_run is not called with the caller\'s repetitions and each resolver', ss.mod.rel, rsi.lineno)

    # ------------------------------------------------------------------ C18.b
    ctx.rule('C18.b', 'ResultDict JSON: every packed record carries exactly the keyword arguments of _unpack_digits; `binary` is the flag returned by '
             '_pack_digits for those digits; dtype/shape come from the same array; the reader unpacks `records` (and legacy `measurements`); '
             'EngineResult writes and reads job_id', floor=6, style='WR')
    rm = repo.module('cirq-core/cirq/study/result.py')
    rd = repo.cls('cirq.study.result.ResultDict')
    jd = rd.methods.get('_json_dict_')
    up = rm.defs.get('_unpack_digits')
    pk = rm.defs.get('_pack_digits')
    if jd is None or up is None or pk is None:
        raise AnalysisError('ResultDict JSON functions vanished')
    dicts = [d for d in ast.walk(jd) if isinstance(d, ast.Dict) and any(isinstance(k, ast.Constant) and k.value == 'packed_digits' for k in d.keys)]
    if not dicts:
        raise AnalysisError('ResultDict._json_dict_: packed record literal vanished')
    wkeys = {k.value: v for k, v in zip(dicts[0].keys, dicts[0].values)}
    ukeys = func_params(up)
    ok = set(wkeys) == set(ukeys)
    ctx.ob('C18.b', f'{rd.qual}._json_dict_:record-fields', ok, '' if ok else f'writer fields {sorted(wkeys)} != _unpack_digits parameters {sorted(ukeys)}', rm.rel, dicts[0].lineno)
    unpack = [n for n in ast.walk(jd) if isinstance(n, ast.Assign) and isinstance(n.value, ast.Call) and call_name(n.value) == '_pack_digits']
    ok = bool(unpack) and isinstance(unpack[0].targets[0], ast.Tuple) and len(unpack[0].targets[0].elts) == 2
    if ok:
        pd_, bn = [e.id for e in unpack[0].targets[0].elts]
        arr = ast.unparse(unpack[0].value.args[0])
        def src_of(k):
            return ast.unparse(wkeys[k]) if k in wkeys else ''
        ok = src_of('packed_digits') == pd_ and src_of('binary') == bn and arr in src_of('dtype') and arr in src_of('shape')
    ctx.ob('C18.b', f'{rd.qual}._json_dict_:flag-provenance', ok, '' if ok else 'packed_digits/binary are not the pair returned by _pack_digits, or dtype/shape come from another array', rm.rel, jd.lineno)
    rets = [r for r in ast.walk(pk) if isinstance(r, ast.Return) and isinstance(r.value, ast.Tuple) and len(r.value.elts) == 2]
    ok = len(rets) >= 2 and all(isinstance(r.value.elts[1], ast.Constant) and isinstance(r.value.elts[1].value, bool) for r in rets)
    if ok:
        for r in rets:
            packed_bits = '_pack_bits' in ast.unparse(r.value.elts[0])
            if packed_bits != r.value.elts[1].value:
                ok = False
    ctx.ob('C18.b', 'cirq.study.result._pack_digits:flag-matches-encoding', ok, '' if ok else '_pack_digits returns binary=True for a non-bit-packed payload or vice versa', rm.rel, pk.lineno)
    fj = rd.methods.get('_from_json_dict_')
    fpr = rd.methods.get('_from_packed_records')
    src = ast.unparse(fj) + ast.unparse(fpr) if fj is not None and fpr is not None else ''
    ok = "kwargs['records']" in src and '_unpack_digits(**val)' in src and "'measurements'" in src
    ctx.ob('C18.b', f'{rd.qual}._from_json_dict_', ok, '' if ok else 'the reader no longer unpacks `records` (and legacy `measurements`) through _unpack_digits', rm.rel, getattr(fj, 'lineno', 1))
    ok = jd is not None and any(isinstance(d, ast.Dict) and {k.value for k in d.keys if isinstance(k, ast.Constant)} == {'params', 'records'} for d in ast.walk(jd))
    ctx.ob('C18.b', f'{rd.qual}._json_dict_:top-level', ok, '' if ok else 'top-level JSON keys are no longer params + records', rm.rel, jd.lineno)
    er = repo.cls('cirq_google.engine.engine_result.EngineResult')
    ej, ef = er.methods.get('_json_dict_'), er.methods.get('_from_json_dict_')
    ok = ej is not None and ef is not None and "'job_id'" in ast.unparse(ej) and 'job_id' in func_params(ef) and 'job_id=job_id' in ast.unparse(ef)
    ctx.ob('C18.b', f'{er.qual}:job_id', ok, '' if ok else 'EngineResult does not write and read job_id symmetrically', er.mod.rel, er.node.lineno)
