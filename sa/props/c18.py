"""C18 - all views of measurement results tell the same story.

Decided: every convenience entry point of a sampler funnels into the one run_sweep(_async) hook
with the caller's program / parameters / repetitions and returns what the hook returned;
wrapping samplers validate before delegating and forward all arguments; the packed record
written by ResultDict._json_dict_ has exactly the fields the reader unpacks, and the flag
returned by _pack_digits is the one stored.  Not decided: endianness / shape / digit
conversions, histograms, data frames.
"""
from __future__ import annotations

import ast

import itertools

import numpy as np

from ..core import AnalysisError, call_name, dotted, func_params, is_self_attr
from .. import fdx


def _names(e):
    return {n.id for n in ast.walk(e) if isinstance(n, ast.Name)}


def run(ctx):
    from . import simrules
    simrules.run_records_rule(ctx, 'C18.k', floor=10)
    simrules.unsigned_digit_arrays_rule(ctx, 'C18.n')
    simrules.key_shapes_from_running_operations_rule(ctx, 'C18.o')
    _int64_guard_rule(ctx, ctx.repo)
    from . import c17 as _c17
    _c17._rows_from_per_shot_sequence(ctx, repo := ctx.repo, rid='C18.l')
    ctx.decided.append('C18.k samplers assemble run() results from all records of the classical data store, not from the latest-record view')
    repo = ctx.repo
    _flatten_order(ctx, repo)
    _labelled_columns(ctx, repo)
    _batch_result_order(ctx, repo)
    ctx.decided += [
        'C18.a Sampler.run / run_async / sample / run_batch_async / _run_sweep_impl / _run_sweep_async_impl reach run_sweep(_async) of self with program, params and repetitions '
        'derived from their own arguments and return values derived from the hook\'s result',
        'C18.b ResultDict JSON: packed-record fields written == fields the unpacker accepts; binary flag provenance; EngineResult adds job_id on both sides',
        'C18.c wrapping samplers (ZerosSampler, ValidatingSampler, ProcessorSampler, SimulatesSamples) forward every argument to what they wrap and validate first',
    ]
    ctx.decided += [
        'C18.d digit/bit folds keep an unbounded Python-int accumulator: elements of the caller\'s (possibly numpy-typed) sequences enter it only through int(...) or a truth test',
        'C18.e big_endian_{bits,digits}_to_int / int_to_{bits,digits} (interpreted) compute the positional value and are mutual inverses for every digit string of '
        'every mixed radix in {2,3}^n, n<=4, and for 70-position strings given as Python ints, bool, uint8 and int64 arrays',
        'C18.f histogram accumulation over batches / repetitions is additive',
        'C18.g axis discipline: records are (repetitions, instances, qubits) at every conversion site (abstract axis labels)',
    ]
    ctx.not_decided += ['data frames, string forms', 'bit packing arithmetic of _pack_digits', 'fold functions supplied by the caller']
    sm = repo.cls('cirq.work.sampler.Sampler')
    rel = sm.mod.rel

    ctx.rule('C18.a', 'funnel: each convenience entry point calls the run_sweep / run_sweep_async hook of self, binding `program`, the parameter argument and '
             '`repetitions` to expressions derived from the entry point\'s own parameters of the same role, and its return value depends on the hook\'s result', floor=6, style='EFF')
    ENTRY = {
        'run': ('run_sweep', {'program': 'program', 'params': 'param_resolver', 'repetitions': 'repetitions'}),
        'run_async': ('run_sweep_async', {'program': 'program', 'params': 'param_resolver', 'repetitions': 'repetitions'}),
        'sample': ('run_sweep', {'program': 'program', 'params': 'params', 'repetitions': 'repetitions'}),
        '_run_sweep_impl': ('run_sweep_async', {'program': 'program', 'params': 'params', 'repetitions': 'repetitions'}),
        '_run_sweep_async_impl': ('run_sweep', {'program': 'program', 'params': 'params', 'repetitions': 'repetitions'}),
        'run_batch_async': ('run_sweep_async', {'program': 'programs', 'params': 'params_list', 'repetitions': 'repetitions'}),
    }
    for mn, (hook, roles) in ENTRY.items():
        fn = sm.methods.get(mn)
        if fn is None:
            raise AnalysisError(f'Sampler.{mn} vanished')
        hook_params = func_params(sm.methods[hook])[1:] if hook in sm.methods else ['program', 'params', 'repetitions']
        # local derivations
        dep = {p: {p} for p in func_params(fn)}
        for _ in range(4):
            for n in ast.walk(fn):
                tg, val = None, None
                if isinstance(n, ast.Assign):
                    tg, val = n.targets, n.value
                elif isinstance(n, (ast.For, ast.comprehension)):
                    tg, val = [n.target], n.iter
                if val is None:
                    continue
                used = set()
                for x in _names(val):
                    used |= dep.get(x, set())
                for t in tg:
                    for x in ast.walk(t):
                        if isinstance(x, ast.Name):
                            dep.setdefault(x.id, set()).update(used)
        site = None
        bound = {}
        for c in ast.walk(fn):
            if not isinstance(c, ast.Call):
                continue
            # direct call self.hook(...)
            if isinstance(c.func, ast.Attribute) and c.func.attr == hook and isinstance(c.func.value, ast.Name) and c.func.value.id == 'self':
                site = c
                for i, a in enumerate(c.args):
                    if i < len(hook_params):
                        bound[hook_params[i]] = a
                for k in c.keywords:
                    bound[k.arg] = k.value
            # passed as a function: duet.run(self.hook, program, params, repetitions) / pstarmap_async(self.hook, zip(...))
            elif any(isinstance(a, ast.Attribute) and a.attr == hook and isinstance(a.value, ast.Name) and a.value.id == 'self' for a in c.args):
                site = c
                rest = [a for a in c.args if not (isinstance(a, ast.Attribute) and a.attr == hook)]
                if len(rest) == 1 and isinstance(rest[0], ast.Call) and call_name(rest[0]) == 'zip':
                    rest = rest[0].args
                for i, a in enumerate(rest):
                    if i < len(hook_params):
                        bound[hook_params[i]] = a
        key = f'{sm.qual}.{mn}'
        if site is None:
            ctx.ob('C18.a', key + ':reaches-hook', False, f'{mn} no longer calls self.{hook}', rel, fn.lineno)
            continue
        for role, src in roles.items():
            hp = {'program': hook_params[0], 'params': hook_params[1], 'repetitions': hook_params[2]}[role]
            a = bound.get(hp)
            deps = set()
            if a is not None:
                for x in _names(a):
                    deps |= dep.get(x, {x})
            ok = a is not None and src in deps
            ctx.ob('C18.a', key + f':{role}', ok, '' if ok else f'the hook\'s `{hp}` is bound to `{ast.unparse(a) if a is not None else None}`, which does not derive from {mn}\'s `{src}`', rel, site.lineno)
        # return derives from hook result
        res_names = set()
        par = sm.mod.parents()
        p = par.get(site)
        while p is not None and not isinstance(p, ast.stmt):
            p = par.get(p)
        ok = False
        if isinstance(p, ast.Return):
            ok = True
        elif isinstance(p, ast.Assign):
            res_names = {t.id for t in p.targets if isinstance(t, ast.Name)}
            closure = set(res_names)
            for _ in range(4):
                for n in ast.walk(fn):
                    if isinstance(n, ast.Assign) and _names(n.value) & closure:
                        closure |= {t.id for t in n.targets if isinstance(t, ast.Name)}
                    if isinstance(n, (ast.For, ast.comprehension)) and _names(n.iter) & closure:
                        closure |= _names(n.target)
                    if isinstance(n, ast.Call) and isinstance(n.func, ast.Attribute) and n.func.attr in ('append', 'extend') and \
                            isinstance(n.func.value, ast.Name) and any(_names(a) & closure for a in n.args):
                        closure.add(n.func.value.id)
            ok = any(isinstance(r, ast.Return) and r.value is not None and _names(r.value) & closure for r in ast.walk(fn))
        ctx.ob('C18.a', key + ':returns-hook-result', ok, '' if ok else f'{mn} does not return what self.{hook} produced', rel, fn.lineno)
    # default hook pair must not be mutually recursive without override: each default delegates to the other impl
    for mn, impl in (('run_sweep', '_run_sweep_impl'), ('run_sweep_async', '_run_sweep_async_impl')):
        fn = sm.methods.get(mn)
        other = 'run_sweep_async' if mn == 'run_sweep' else 'run_sweep'
        ok = fn is not None and any(isinstance(d, ast.Call) and call_name(d) == 'alternative' and
                                    any(k.arg == 'implementation' and ast.unparse(k.value) == impl for k in d.keywords) and
                                    any(k.arg == 'requires' and ast.unparse(k.value).strip("'\"") == other for k in d.keywords)
                                    for d in fn.decorator_list)
        ctx.ob('C18.a', f'{sm.qual}.{mn}:default', ok, '' if ok else f'{mn} is not declared with @alternative(requires=<the other hook>, implementation={impl})', rel, getattr(fn, 'lineno', 1))
    rb = sm.assigns.get('run_batch')
    ok = rb is not None and 'run_batch_async' in ast.unparse(rb)
    ctx.ob('C18.a', f'{sm.qual}.run_batch', ok, '' if ok else 'run_batch is not the synchronous wrapper of run_batch_async', rel, 1)

    # ------------------------------------------------------------------ C18.c
    ctx.rule('C18.c', 'wrapping samplers: run_sweep(_async) of ZerosSampler / ValidatingSampler / ProcessorSampler uses all three of program, params and '
             'repetitions; ValidatingSampler validates before delegating; SimulatesSamples.run_sweep_iter passes the resolved circuit and repetitions to _run', floor=6, style='COH')
    for cq in ('cirq.work.zeros_sampler.ZerosSampler', 'cirq_google.engine.validating_sampler.ValidatingSampler',
               'cirq_google.engine.processor_sampler.ProcessorSampler'):
        ci = repo.cls(cq)
        for mn in ('run_sweep', 'run_sweep_async', 'run_batch_async'):
            fn = ci.methods.get(mn)
            if fn is None:
                continue
            ps = func_params(fn)[1:]
            used = _names(fn) if False else {n.id for s_ in fn.body for n in ast.walk(s_) if isinstance(n, ast.Name)}
            miss = [p for p in ps if p not in used]
            ctx.ob('C18.c', f'{cq}.{mn}:uses-all-arguments', not miss, '' if not miss else f'{mn} never looks at its argument(s) {miss}', ci.mod.rel, fn.lineno)
    vs = repo.cls('cirq_google.engine.validating_sampler.ValidatingSampler')
    for mn in ('run_sweep', 'run_batch_async', 'run_sweep_async'):
        fn = vs.methods.get(mn)
        if fn is None:
            continue
        val = [c.lineno for c in ast.walk(fn) if isinstance(c, ast.Call) and 'validat' in ast.unparse(c.func).lower()]
        dele = [c.lineno for c in ast.walk(fn) if isinstance(c, ast.Call) and isinstance(c.func, ast.Attribute) and c.func.attr in ('run_sweep', 'run_batch', 'run_sweep_async', 'run_batch_async')
                and 'sampler' in ast.unparse(c.func.value).lower()]
        ok = bool(val) and bool(dele) and min(val) < min(dele)
        ctx.ob('C18.c', f'{vs.qual}.{mn}:validate-before-delegate', ok, '' if ok else 'circuits reach the wrapped sampler without having been validated', vs.mod.rel, fn.lineno)
    ss = repo.cls('cirq.sim.simulator.SimulatesSamples')
    rsi = ss.methods.get('run_sweep_iter')
    if rsi is None:
        raise AnalysisError('SimulatesSamples.run_sweep_iter vanished')
    runs = [c for c in ast.walk(rsi) if isinstance(c, ast.Call) and call_name(c) == '_run']
    ok = bool(runs) and any('repetitions' in ast.unparse(k.value) for c in runs for k in c.keywords if k.arg == 'repetitions') and \
        all('param_resolver' in ast.unparse(c) for c in runs)
    ctx.ob('C18.c', f'{ss.qual}.run_sweep_iter:_run-arguments', ok, '' if ok else '_run is not called with the caller\'s repetitions and each resolver', ss.mod.rel, rsi.lineno)

    # ------------------------------------------------------------------ C18.b
    ctx.rule('C18.b', 'ResultDict JSON: every packed record carries exactly the keyword arguments of _unpack_digits; `binary` is the flag returned by '
             '_pack_digits for those digits; dtype/shape come from the same array; the reader unpacks `records` (and legacy `measurements`); '
             'EngineResult writes and reads job_id', floor=6, style='WR')
    rm = repo.module('cirq-core/cirq/study/result.py')
    rd = repo.cls('cirq.study.result.ResultDict')
    jd = rd.methods.get('_json_dict_')
    up = rm.defs.get('_unpack_digits')
    pk = rm.defs.get('_pack_digits')
    if jd is None or up is None or pk is None:
        raise AnalysisError('ResultDict JSON functions vanished')
    # the writer: _json_dict_ itself or a module-level helper it calls per record (`_packed_record(digits)`)
    jd_scope = [jd] + [rm.defs[c.func.id] for c in ast.walk(jd) if isinstance(c, ast.Call) and isinstance(c.func, ast.Name) and isinstance(rm.defs.get(c.func.id), ast.FunctionDef)]
    dicts = [d for f_ in jd_scope for d in ast.walk(f_) if isinstance(d, ast.Dict) and any(isinstance(k, ast.Constant) and k.value == 'packed_digits' for k in d.keys)]
    if not dicts:
        raise AnalysisError('ResultDict._json_dict_: packed record literal vanished')
    wkeys = {k.value: v for k, v in zip(dicts[0].keys, dicts[0].values)}
    ukeys = func_params(up)
    ok = set(wkeys) == set(ukeys)
    ctx.ob('C18.b', f'{rd.qual}._json_dict_:record-fields', ok, '' if ok else f'writer fields {sorted(wkeys)} != _unpack_digits parameters {sorted(ukeys)}', rm.rel, dicts[0].lineno)
    unpack = [n for f_ in jd_scope for n in ast.walk(f_) if isinstance(n, ast.Assign) and isinstance(n.value, ast.Call) and call_name(n.value) == '_pack_digits']
    ok = bool(unpack) and isinstance(unpack[0].targets[0], ast.Tuple) and len(unpack[0].targets[0].elts) == 2
    if ok:
        pd_, bn = [e.id for e in unpack[0].targets[0].elts]
        arr = ast.unparse(unpack[0].value.args[0])
        def src_of(k):
            return ast.unparse(wkeys[k]) if k in wkeys else ''
        ok = src_of('packed_digits') == pd_ and src_of('binary') == bn and arr in src_of('dtype') and arr in src_of('shape')
    ctx.ob('C18.b', f'{rd.qual}._json_dict_:flag-provenance', ok, '' if ok else 'packed_digits/binary are not the pair returned by _pack_digits, or dtype/shape come from another array', rm.rel, jd.lineno)
    rets = [r for r in ast.walk(pk) if isinstance(r, ast.Return) and isinstance(r.value, ast.Tuple) and len(r.value.elts) == 2]
    ok = len(rets) >= 2 and all(isinstance(r.value.elts[1], ast.Constant) and isinstance(r.value.elts[1].value, bool) for r in rets)
    if ok:
        for r in rets:
            packed_bits = '_pack_bits' in ast.unparse(r.value.elts[0])
            if packed_bits != r.value.elts[1].value:
                ok = False
    ctx.ob('C18.b', 'cirq.study.result._pack_digits:flag-matches-encoding', ok, '' if ok else '_pack_digits returns binary=True for a non-bit-packed payload or vice versa', rm.rel, pk.lineno)
    fj = rd.methods.get('_from_json_dict_')
    fpr = rd.methods.get('_from_packed_records')
    ok = fj is not None and fpr is not None
    if ok:
        both = [fj, fpr]
        # every unpack call spreads the stored record (the value variable of a comprehension over .items()) into keyword arguments
        ups = [c for f in both for c in ast.walk(f) if isinstance(c, ast.Call) and call_name(c) == '_unpack_digits']
        spread_ok = bool(ups)
        for f in both:
            for dc in [d for d in ast.walk(f) if isinstance(d, ast.DictComp)]:
                tgt = dc.generators[0].target
                for c in ast.walk(dc.value):
                    if isinstance(c, ast.Call) and call_name(c) == '_unpack_digits':
                        vname = tgt.elts[1].id if isinstance(tgt, ast.Tuple) and len(tgt.elts) == 2 and isinstance(tgt.elts[1], ast.Name) else None
                        if not (len(c.keywords) == 1 and c.keywords[0].arg is None and isinstance(c.keywords[0].value, ast.Name) and c.keywords[0].value.id == vname and not c.args):
                            spread_ok = False
        reads_records = any(isinstance(n, ast.Subscript) and isinstance(n.slice, ast.Constant) and n.slice.value == 'records' for n in ast.walk(fj)) or 'records' in func_params(fj)
        legacy = any(isinstance(n, ast.Compare) and isinstance(n.left, ast.Constant) and n.left.value == 'measurements' and isinstance(n.ops[0], ast.In) for n in ast.walk(fj))
        ok = spread_ok and reads_records and legacy
    ctx.ob('C18.b', f'{rd.qual}._from_json_dict_', ok, '' if ok else 'the reader no longer unpacks `records` (and legacy `measurements`) through _unpack_digits', rm.rel, getattr(fj, 'lineno', 1))
    ok = jd is not None and any(isinstance(d, ast.Dict) and {k.value for k in d.keys if isinstance(k, ast.Constant)} == {'params', 'records'} for d in ast.walk(jd))
    ctx.ob('C18.b', f'{rd.qual}._json_dict_:top-level', ok, '' if ok else 'top-level JSON keys are no longer params + records', rm.rel, jd.lineno)
    er = repo.cls('cirq_google.engine.engine_result.EngineResult')
    ej, ef = er.methods.get('_json_dict_'), er.methods.get('_from_json_dict_')
    ok = ej is not None and ef is not None and "'job_id'" in ast.unparse(ej) and 'job_id' in func_params(ef) and 'job_id=job_id' in ast.unparse(ef)
    ctx.ob('C18.b', f'{er.qual}:job_id', ok, '' if ok else 'EngineResult does not write and read job_id symmetrically', er.mod.rel, er.node.lineno)


    _digit_rules(ctx, repo)
    _histogram_rule(ctx, repo, rm)
    _axis_rule(ctx, repo, rm, rd)


def _value(digits, bases):
    v = 0
    for d, b in zip(digits, bases):
        v = v * int(b) + int(d)
    return v


def _digit_rules(ctx, repo):
    dm = repo.module('cirq-core/cirq/value/digits.py')
    fns = {}
    for f in dm.tree.body:
        if isinstance(f, ast.FunctionDef) and not any(ast.unparse(d) == 'overload' for d in f.decorator_list):
            fns[f.name] = f
    need = ('big_endian_bits_to_int', 'big_endian_int_to_bits', 'big_endian_digits_to_int', 'big_endian_int_to_digits')
    for nme in need:
        if nme not in fns:
            raise AnalysisError(f'cirq.value.digits.{nme} vanished')

    # ---------------------------------------------------------------- C18.d
    ctx.rule('C18.d', 'in big_endian_*_to_int the returned accumulator starts as a Python int and every operand that comes from the input sequences is '
             'coerced with int(...) (or only tested for truth): a numpy scalar operand would turn the accumulator into a fixed-width integer that wraps', floor=2, style='TNT')
    for nme in ('big_endian_bits_to_int', 'big_endian_digits_to_int'):
        fn = fns[nme]
        rets = [r.value.id for r in ast.walk(fn) if isinstance(r, ast.Return) and isinstance(r.value, ast.Name)]
        if not rets:
            raise AnalysisError(f'{nme}: no returned accumulator')
        acc = rets[0]
        params = set(func_params(fn))
        elems = set()
        clean = set()     # names re-bound to int-coerced copies of a parameter
        for st in ast.walk(fn):
            if isinstance(st, ast.Assign) and len(st.targets) == 1 and isinstance(st.targets[0], ast.Name):
                v = st.value
                inner = v.args[0] if isinstance(v, ast.Call) and call_name(v) in ('tuple', 'list') and v.args else v
                if isinstance(inner, (ast.GeneratorExp, ast.ListComp)) and isinstance(inner.elt, ast.Call) and call_name(inner.elt) == 'int':
                    clean.add(st.targets[0].id)
                elif isinstance(inner, ast.Call) and call_name(inner) == 'map' and inner.args and ast.unparse(inner.args[0]) == 'int':
                    clean.add(st.targets[0].id)
        for st in ast.walk(fn):
            if isinstance(st, ast.For):
                it_names = {n.id for n in ast.walk(st.iter) if isinstance(n, ast.Name)}
                if it_names & params and not (it_names & params) <= clean:
                    elems |= {n.id for n in ast.walk(st.target) if isinstance(n, ast.Name)}
        bad = []
        n_upd = 0
        for st in ast.walk(fn):
            tgt = None
            if isinstance(st, ast.AugAssign) and isinstance(st.target, ast.Name) and st.target.id == acc:
                tgt = st.value
            elif isinstance(st, ast.Assign) and any(isinstance(t, ast.Name) and t.id == acc for t in st.targets) and not isinstance(st.value, ast.Constant):
                tgt = st.value
            if tgt is None:
                continue
            n_upd += 1
            coerced = {id(n) for c in ast.walk(tgt) if isinstance(c, ast.Call) and call_name(c) == 'int' for n in ast.walk(c)}
            for n in ast.walk(tgt):
                if isinstance(n, ast.Name) and n.id in elems and id(n) not in coerced:
                    bad.append(f'{ast.unparse(st)} (line {st.lineno})')
        if n_upd == 0:
            raise AnalysisError(f'{nme}: accumulator {acc} is never updated')
        ctx.ob('C18.d', f'cirq.value.digits.{nme}:{acc}', not bad,
               '' if not bad else f'`{acc}` absorbs raw sequence elements in {bad}: with numpy-typed records (what simulators produce) it becomes a fixed-width integer and wraps '
               '(10 uint8 ones fold to 255, 70 int64 ones to -1)', dm.rel, fn.lineno)

    # ---------------------------------------------------------------- C18.e
    ctx.rule('C18.e', 'interpretation of the four conversion functions: value(digits, bases) = sum d_i prod_{j>i} b_j, both directions, all digit strings of all '
             'radix vectors in {2,3}^n (n<=4), int base with digit_count, and 70-position strings in four element types', floor=60, style='FDX')

    def call(nme, **kw):
        it = fdx.NumInterp(dict(kw))
        try:
            return it.call(fns[nme])
        except fdx.Raised as e:
            return ('raised', str(e))
        except fdx.Unsupported as e:
            raise AnalysisError(f'{nme} is outside the interpretable subset: {e}')

    def same_int(got, want):
        return isinstance(got, (int, np.integer)) and not isinstance(got, bool) and int(got) == want and (isinstance(got, int) or np.iinfo(type(got)).max >= want)
    for n in range(0, 5):
        for bases in itertools.product((2, 3), repeat=n):
            first_bad = None
            for digits in itertools.product(*[range(b) for b in bases]):
                want = _value(digits, bases)
                g1 = call('big_endian_digits_to_int', digits=list(digits), base=list(bases))
                g2 = call('big_endian_int_to_digits', val=want, base=list(bases), digit_count=None)
                if not same_int(g1, want) and first_bad is None:
                    first_bad = f'digits_to_int({list(digits)}, base={list(bases)}) -> {g1!r}, expected {want}'
                if (not isinstance(g2, list) or [int(x) for x in g2] != list(digits)) and first_bad is None:
                    first_bad = f'int_to_digits({want}, base={list(bases)}) -> {g2!r}, expected {list(digits)}'
            ctx.ob('C18.e', f'cirq.value.digits:mixed-radix:{bases}', first_bad is None, first_bad or '', dm.rel, fns['big_endian_digits_to_int'].lineno)
        for b in (2, 3, 10):
            first_bad = None
            for digits in itertools.product(range(b), repeat=n) if b < 10 or n < 3 else [tuple((7 * k + 3) % 10 for k in range(n))]:
                want = _value(digits, (b,) * n)
                g1 = call('big_endian_digits_to_int', digits=list(digits), base=b)
                g2 = call('big_endian_int_to_digits', val=want, base=b, digit_count=n)
                if not same_int(g1, want) and first_bad is None:
                    first_bad = f'digits_to_int({list(digits)}, base={b}) -> {g1!r}, expected {want}'
                if (not isinstance(g2, list) or [int(x) for x in g2] != list(digits)) and first_bad is None:
                    first_bad = f'int_to_digits({want}, digit_count={n}, base={b}) -> {g2!r}, expected {list(digits)}'
                if b == 2:
                    g3 = call('big_endian_bits_to_int', bits=list(digits))
                    g4 = call('big_endian_int_to_bits', val=want, bit_count=n)
                    if not same_int(g3, want) and first_bad is None:
                        first_bad = f'bits_to_int({list(digits)}) -> {g3!r}, expected {want}'
                    if (not isinstance(g4, list) or [int(x) for x in g4] != list(digits)) and first_bad is None:
                        first_bad = f'int_to_bits({want}, bit_count={n}) -> {g4!r}, expected {list(digits)}'
            ctx.ob('C18.e', f'cirq.value.digits:uniform-base:{b}:n={n}', first_bad is None, first_bad or '', dm.rel, fns['big_endian_int_to_digits'].lineno)
    patterns = {'ones': [1] * 70, 'alternating': [k % 2 for k in range(70)], 'msb-only': [1] + [0] * 69, 'asymmetric': [1 if (k * k) % 7 in (1, 2) else 0 for k in range(70)]}
    kinds = {'python ints': lambda v: list(v), 'bool array': lambda v: np.array(v, dtype=bool), 'uint8 array': lambda v: np.array(v, dtype=np.uint8),
             'int64 array': lambda v: np.array(v, dtype=np.int64)}
    for pn, bits in patterns.items():
        want = _value(bits, [2] * 70)
        for kn, mk in kinds.items():
            g1 = call('big_endian_bits_to_int', bits=mk(bits))
            g2 = call('big_endian_digits_to_int', digits=mk(bits), base=2)
            g3 = call('big_endian_digits_to_int', digits=mk(bits), base=[2] * 70)
            bad = [f'{nm} -> {g!r}' for nm, g in (('bits_to_int', g1), ('digits_to_int(base=2)', g2), ('digits_to_int(base=[2]*70)', g3))
                   if not (isinstance(g, int) and not isinstance(g, bool) and g == want)]
            ctx.ob('C18.e', f'cirq.value.digits:70-bit:{pn}:{kn}', not bad, '' if not bad else f'70 positions given as {kn}: {"; ".join(bad)[:300]} (expected the Python int {want})',
                   dm.rel, fns['big_endian_digits_to_int'].lineno)
        g = call('big_endian_int_to_digits', val=want, base=2, digit_count=70)
        g_ = call('big_endian_int_to_bits', val=want, bit_count=70)
        ok = isinstance(g, list) and [int(x) for x in g] == bits and isinstance(g_, list) and [int(x) for x in g_] == bits
        ctx.ob('C18.e', f'cirq.value.digits:70-bit:{pn}:inverse', ok, '' if ok else 'int_to_digits / int_to_bits do not recover the 70 positions', dm.rel, fns['big_endian_int_to_digits'].lineno)


def _histogram_rule(ctx, repo, rm):
    ctx.rule('C18.f', 'Result._vectorized_histogram / multi_measurement_histogram: the Counter that is returned is only ever added to inside the loop over batches / repetitions '
             '(update, +=, c[k] += n); |=, &= or plain assignment would keep one batch\'s count instead of the sum', floor=2, style='MPT')
    res = repo.cls('cirq.study.result.Result')
    for mn in ('_vectorized_histogram', 'multi_measurement_histogram'):
        fn = res.methods.get(mn)
        if fn is None:
            raise AnalysisError(f'Result.{mn} vanished')
        counters = set()
        for st in ast.walk(fn):
            tgt = val = None
            if isinstance(st, ast.Assign) and len(st.targets) == 1:
                tgt, val = st.targets[0], st.value
            elif isinstance(st, ast.AnnAssign) and st.value is not None:
                tgt, val = st.target, st.value
            if isinstance(tgt, ast.Name) and isinstance(val, ast.Call) and call_name(val) == 'Counter':
                counters.add(tgt.id)
        # a plain dict that is returned (as it is, or wrapped in Counter(...)) is an accumulator too - one whose update() overwrites
        returned = {x.id for r in ast.walk(fn) if isinstance(r, ast.Return) and r.value is not None for x in ast.walk(r.value) if isinstance(x, ast.Name)}
        plain = set()
        for st in ast.walk(fn):
            tgt = val = None
            if isinstance(st, ast.Assign) and len(st.targets) == 1:
                tgt, val = st.targets[0], st.value
            elif isinstance(st, ast.AnnAssign) and st.value is not None:
                tgt, val = st.target, st.value
            if isinstance(tgt, ast.Name) and tgt.id in returned and ((isinstance(val, ast.Dict) and not val.keys) or (isinstance(val, ast.Call) and call_name(val) == 'dict' and not val.args)):
                plain.add(tgt.id)
        loops = [l for l in ast.walk(fn) if isinstance(l, (ast.For, ast.While))]
        found = False
        for c in sorted(counters | plain):
            bad = []
            adds = 0
            for l in loops:
                for st in ast.walk(l):
                    if isinstance(st, ast.AugAssign):
                        t = st.target
                        base = t.value if isinstance(t, ast.Subscript) else t
                        if isinstance(base, ast.Name) and base.id == c:
                            if isinstance(st.op, ast.Add):
                                adds += 1
                            else:
                                bad.append(ast.unparse(st))
                    elif isinstance(st, ast.Assign):
                        for t in st.targets:
                            base = t.value if isinstance(t, ast.Subscript) else t
                            if isinstance(base, ast.Name) and base.id == c:
                                bad.append(ast.unparse(st))
                    elif isinstance(st, ast.Call) and isinstance(st.func, ast.Attribute) and isinstance(st.func.value, ast.Name) and st.func.value.id == c:
                        if st.func.attr == 'update':
                            if c in plain:
                                bad.append(ast.unparse(st)[:60] + ' (dict.update overwrites)')
                            else:
                                adds += 1
                        elif st.func.attr in ('subtract', 'clear', 'pop', 'setdefault'):
                            bad.append(ast.unparse(st))
            if adds or bad:
                found = True
                ctx.ob('C18.f', f'{res.qual}.{mn}:{c}', not bad, '' if not bad else f'counts are merged with {bad}: an outcome that occurs in two batches keeps one batch\'s count, not the sum',
                       rm.rel, fn.lineno)
        if not found:
            raise AnalysisError(f'Result.{mn}: no Counter accumulated in a loop')


def _axis_rule(ctx, repo, rm, rd):
    from ..axes import Arr, AxisInterp, Dim, Lst, Unknown, as_arr, strip_units
    ctx.rule('C18.g', 'axis labels: at every site that builds or converts record arrays the layout is (repetitions, instances, qubits): a 2-D view exists only under '
             'instances == 1, the instance axis is inserted in the middle, concatenation is along repetitions, per-instance samples are stacked and then '
             'transposed (never reshaped across axes), padded records keep their axes', floor=8, style='FDX')
    RIQ = ('R', 'I', 'Q')

    def site(key, rel, line, fn):
        try:
            ok, msg = fn()
        except Unknown as e:
            raise AnalysisError(f'C18.g {key}: array expression outside the axis interpreter: {e}')
        ctx.ob('C18.g', key, ok, '' if ok else msg, rel, line)

    # S1  ResultDict.measurements: records -> 2-D
    fn1 = rd.methods.get('measurements')
    loops = [l for l in ast.walk(fn1) if isinstance(l, ast.For) and '_records' in ast.unparse(l.iter)] if fn1 is not None else []
    if not loops:
        raise AnalysisError('ResultDict.measurements: loop over the records vanished')

    def s1():
        l = loops[0]
        nm = l.target.elts[1].id
        it = AxisInterp({nm: Arr(RIQ)})
        got = []
        it.run(l.body, on_store=lambda st, t, tv, it_: got.append((it_.ev(st.value), set(it_.units))))
        if not got:
            raise Unknown('no store into the measurements mapping')
        v, units = got[0]
        labels = as_arr(v).labels
        ok = len(labels) == 2 and strip_units(labels, units) == ('R', 'Q') and 'I' in units
        return ok, f'2-D measurements are built as {labels} from records (R, I, Q) with unit axes {sorted(units)}: expected (R, Q) under the guard instances == 1'
    site(f'{rd.qual}.measurements:records->measurements', rm.rel, loops[0].lineno, s1)

    # S2  ResultDict.records: 2-D -> records
    fn2 = rd.methods.get('records')
    comps = [c for c in ast.walk(fn2) if isinstance(c, ast.DictComp) and '_measurements' in ast.unparse(c.generators[0].iter)] if fn2 is not None else []
    if not comps:
        raise AnalysisError('ResultDict.records: conversion from measurements vanished')

    def s2():
        c = comps[0]
        nm = c.generators[0].target.elts[1].id
        it = AxisInterp({nm: Arr(('R', 'Q'))})
        labels = as_arr(it.ev(c.value)).labels
        return labels == ('R', '1', 'Q'), f'records are built from 2-D measurements (R, Q) as {labels}: the unit instance axis must be the middle one'
    site(f'{rd.qual}.records:measurements->records', rm.rel, comps[0].lineno, s2)

    # S3  ResultDict.__add__: concatenation along repetitions
    fn3 = rd.methods.get('__add__') or repo.cls('cirq.study.result.Result').methods.get('__add__')
    if fn3 is None:
        raise AnalysisError('ResultDict.__add__ vanished')

    def s3():
        def hook(n, it_):
            if isinstance(n, ast.Subscript) and isinstance(n.value, ast.Attribute) and n.value.attr in ('records', '_records'):
                return Arr(RIQ)
            return NotImplemented
        it = AxisInterp({}, hook=hook)
        got = []
        for l in [x for x in ast.walk(fn3) if isinstance(x, ast.For)]:
            it.run(l.body, on_store=lambda st, t, tv, it_: got.append(it_.ev(st.value)))
        if not got:
            # the comprehension form: {key: <concatenation> for ... in <views of the two record tables>}
            for dc in [x for x in ast.walk(fn3) if isinstance(x, ast.DictComp) and any(isinstance(c_, ast.Call) and call_name(c_).split('.')[-1] in ('append', 'concatenate', 'vstack') for c_ in ast.walk(x.value))]:
                env = {}
                for g in dc.generators:
                    if 'records' in ast.unparse(g.iter):
                        for t in ast.walk(g.target):
                            if isinstance(t, ast.Name):
                                env[t.id] = Arr(RIQ)
                if env:
                    it = AxisInterp(env, hook=hook)
                    got.append(it.ev(dc.value))
        if not got:
            raise Unknown('no concatenated record stored')
        axes_ = [e[1] for e in it.events if e[0] == 'concat-axis']
        labels = as_arr(got[0]).labels
        return labels == RIQ and axes_ == ['R'], f'results are concatenated along {axes_ or it.events} giving {labels}: repetitions of both operands must be appended on axis R'
    site(f'{rd.qual}.__add__:concatenate', rm.rel, fn3.lineno, s3)

    # S4  StepResult.sample_measurement_ops: stack per-instance samples
    sr = repo.cls('cirq.sim.simulator.StepResult')
    fn4 = sr.methods.get('sample_measurement_ops')
    if fn4 is None:
        raise AnalysisError('StepResult.sample_measurement_ops vanished')

    def qhook(n, it_):
        if isinstance(n, ast.Call) and call_name(n) == 'len' and n.args and isinstance(n.args[0], ast.Attribute) and n.args[0].attr == 'qubits':
            return Dim('Q')
        return NotImplemented

    # the per-operation body may have been extracted into a private helper of the class: look for the allocation there too
    from . import simrules as _sr
    fn4_all = [fn4] + _sr.own_callees(repo, sr, fn4)
    fn4 = next((f_ for f_ in fn4_all if any(isinstance(st, ast.Assign) and isinstance(st.targets[0], ast.Name) and isinstance(st.value, ast.Call)
                                                                            and call_name(st.value) in ('zeros', 'empty') for st in ast.walk(f_))), fn4)

    def s4():
        # the per-measurement sample array: the local allocated with np.zeros inside the loop over the measurement operations
        outs = [st for st in ast.walk(fn4) if isinstance(st, ast.Assign) and isinstance(st.targets[0], ast.Name)
                and isinstance(st.value, ast.Call) and call_name(st.value) in ('zeros', 'empty')]
        if not outs:
            raise Unknown('per-measurement sample array vanished')
        it = AxisInterp({'repetitions': Dim('R')}, hook=qhook)
        out = as_arr(it.ev(outs[0].value))
        if out.labels != ('R', 'Q'):
            return False, f'per-measurement samples are allocated as {out.labels}, expected (R, Q)'
        comps4 = [c for f_ in fn4_all for c in ast.walk(f_) if isinstance(c, ast.DictComp) and isinstance(c.generators[0].iter, ast.Call) and call_name(c.generators[0].iter) == 'items'
                  and isinstance(c.generators[0].target, ast.Tuple)]
        if not comps4:
            raise Unknown('stacking of repeated-key samples vanished')
        c = comps4[0]
        nm = c.generators[0].target.elts[1].id
        it2 = AxisInterp({nm: Lst('I', out), 'repetitions': Dim('R')}, hook=qhook)
        labels = as_arr(it2.ev(c.value)).labels
        return labels == RIQ, (f'repeated-key samples (a list over instances of (R, Q) arrays) become {labels}' +
                               (' - a reshape across axes scrambles repetitions and instances' if 'MIXED' in labels else '') + ': expected (R, I, Q)')
    site(f'{sr.qual}.sample_measurement_ops:repeated-keys', sr.mod.rel, fn4.lineno, s4)

    # S5  SimulatesSamples.run_sweep_iter: empty records are 3-D
    ss = repo.cls('cirq.sim.simulator.SimulatesSamples')
    fn5 = ss.methods.get('run_sweep_iter')

    def s5():
        calls = [c for c in ast.walk(fn5) if isinstance(c, ast.Call) and call_name(c) in ('empty', 'zeros')]
        if not calls:
            raise Unknown('zero-repetition records vanished')
        env5 = {'repetitions': Dim('R')}
        # `for key, (num_instances, qid_shape) in self._get_measurement_shapes(program).items()`: instances and per-qubit shape of each key
        for l5 in [l for l in ast.walk(fn5) if isinstance(l, ast.For) and '_get_measurement_shapes' in ast.unparse(l.iter)]:
            t5 = l5.target
            if isinstance(t5, ast.Tuple) and len(t5.elts) == 2 and isinstance(t5.elts[1], ast.Tuple) and len(t5.elts[1].elts) == 2 \
                    and all(isinstance(e, ast.Name) for e in t5.elts[1].elts):
                env5[t5.elts[1].elts[0].id] = Dim('I')
                env5[t5.elts[1].elts[1].id] = Lst('Q', 0)
        labels = as_arr(AxisInterp(env5).ev(calls[0])).labels
        return len(labels) == 3 and labels[0] in ('#0', 'R') and labels[1:] == ('I', 'Q'), \
            f'zero-repetition records have layout {labels}: they must be (0, instances, qubits) of the key, as a run with repetitions gives (adding the two results otherwise fails)'
    site(f'{ss.qual}.run_sweep_iter:zero-repetitions', ss.mod.rel, fn5.lineno, s5)

    # S6  SimulatorBase._run: padding of per-repetition records
    sb = repo.cls('cirq.sim.simulator_base.SimulatorBase')
    fn6 = sb.methods.get('_run')
    pads = [f for f in ast.walk(fn6) if isinstance(f, ast.FunctionDef) and f is not fn6 and len(f.args.args) == 1] if fn6 is not None else []
    if not pads and fn6 is not None:
        # the helper may have been lifted to module level: a one-argument private function that _run calls and that allocates with np.zeros
        from . import simrules as _sr6
        pads = [f for f in _sr6.own_callees(repo, sb, fn6, depth=1) if len(f.args.args) == 1
                and any(isinstance(c, ast.Call) and call_name(c) in ('zeros', 'empty') for c in ast.walk(f))]
    if not pads:
        raise AnalysisError('SimulatorBase._run: the padding helper vanished')

    def s6():
        pf = pads[0]
        it = AxisInterp({pf.args.args[0].arg: Lst('R', Lst('I', Lst('Q', 0)))})
        bad = []

        def on_store(st, t, tv, it_):
            v = as_arr(it_.ev(st.value)).labels
            if tv is None or as_arr(tv).labels != v:
                bad.append(f'{ast.unparse(t)} (layout {None if tv is None else as_arr(tv).labels}) = {ast.unparse(st.value)} (layout {v})')
        it.run(pf.body, on_store=on_store)
        rets = [r for r in ast.walk(pf) if isinstance(r, ast.Return) and r.value is not None]
        if not rets:
            raise Unknown('padding helper returns nothing')
        labels = as_arr(it.ev(rets[0].value)).labels
        return labels == RIQ and not bad, f'padded records have layout {labels}; mismatched stores: {bad}: expected (R, I, Q) filled slice by slice with (I, Q) blocks'
    site(f'{sb.qual}._run:pad-records', sb.mod.rel, pads[0].lineno, s6)

    # S6b  SimulatorBase._run: what one repetition contributes per key is a block (instances, qubits)
    def s6b():
        bad, seen = [], 0
        from . import simrules as _sr6b
        for lp in [l for f_ in [fn6] + _sr6b.own_callees(repo, sb, fn6, depth=1) for l in ast.walk(f_)
                   if isinstance(l, ast.For) and isinstance(l.iter, ast.Call) and isinstance(l.iter.func, ast.Attribute) and l.iter.func.attr == 'items'
                   and isinstance(l.iter.func.value, ast.Attribute) and l.iter.func.value.attr in ('records', 'channel_records')]:
            if not (isinstance(lp.target, ast.Tuple) and len(lp.target.elts) == 2 and isinstance(lp.target.elts[1], ast.Name)):
                raise Unknown('loop over the per-key records has an unexpected target')
            vname = lp.target.elts[1].id
            per_key = Lst('I', Lst('Q', 0)) if lp.iter.func.value.attr == 'records' else Lst('I', 0)
            for c in ast.walk(lp):
                if isinstance(c, ast.Call) and isinstance(c.func, ast.Attribute) and c.func.attr == 'append' and c.args and (
                        isinstance(c.func.value, ast.Subscript) or (isinstance(c.func.value, ast.Call) and isinstance(c.func.value.func, ast.Attribute)
                                                                    and c.func.value.func.attr == 'setdefault')):
                    it = AxisInterp({vname: per_key})
                    def norm(x):
                        # a list literal with one element is a unit axis
                        if isinstance(x, tuple):
                            if len(x) != 1:
                                raise Unknown('list literal with several elements appended to the records')
                            return Lst('1', norm(x[0]))
                        if isinstance(x, Lst):
                            return Lst(x.label, norm(x.elem))
                        return x
                    labels = as_arr(norm(it.ev(c.args[0]))).labels
                    seen += 1
                    if labels not in (('I', 'Q'), ('I', '1')):
                        bad.append(f'`{ast.unparse(c)[:60]}` contributes a block with layout {labels}')
        if not seen:
            raise Unknown('no per-repetition append into the records found')
        return not bad, f'{bad}: every repetition must contribute (instances, qubits) per key, a channel record being one instance with a single digit'
    site(f'{sb.qual}._run:per-repetition-block', sb.mod.rel, fn6.lineno, s6b)

    # S7  ZerosSampler
    zs = repo.cls('cirq.work.zeros_sampler.ZerosSampler')
    fn7 = zs.methods.get('run_sweep')

    def s7():
        calls = [c for c in ast.walk(fn7) if isinstance(c, ast.Call) and call_name(c) == 'zeros']
        if not calls:
            raise Unknown('np.zeros vanished')
        dc = [c for c in ast.walk(fn7) if isinstance(c, ast.DictComp)]
        env = {'repetitions': Dim('R')}
        if dc and isinstance(dc[0].generators[0].target, ast.Tuple) and isinstance(dc[0].generators[0].target.elts[1], ast.Tuple):
            a, b = dc[0].generators[0].target.elts[1].elts
            env[a.id] = Dim('I')
            env[b.id] = Lst('Q', 0)
        labels = as_arr(AxisInterp(env).ev(calls[0])).labels
        return labels == RIQ, f'ZerosSampler allocates records as {labels}, expected (R, I, Q)'
    site(f'{zs.qual}.run_sweep:allocate', zs.mod.rel, fn7.lineno, s7)

    # S8  histogram input is the 2-D view split as (repetitions, qubits)
    res = repo.cls('cirq.study.result.Result')
    fn8 = res.methods.get('_vectorized_histogram')

    def s8():
        un = [st for st in ast.walk(fn8) if isinstance(st, ast.Assign) and isinstance(st.targets[0], ast.Tuple) and isinstance(st.value, ast.Attribute) and st.value.attr == 'shape']
        if not un:
            raise Unknown('shape unpacking vanished')
        names = [e.id for e in un[0].targets[0].elts]
        ok = len(names) == 2 and 'rep' in names[0] and 'qubit' in names[1]
        loops8 = [l for l in ast.walk(fn8) if isinstance(l, ast.For)]
        ok2 = bool(loops8) and names[0] in ast.unparse(loops8[0].iter)
        return ok and ok2, f'the 2-D measurements are unpacked as {names} and batched over {ast.unparse(loops8[0].iter) if loops8 else None}: axis 0 is repetitions, axis 1 qubits'
    site(f'{res.qual}._vectorized_histogram:axes', rm.rel, fn8.lineno, s8)


def _flatten_order(ctx, repo):
    """C18.h - records are flattened and rebuilt in index (C) order only."""
    ctx.decided.append('C18.h every ravel / flatten / reshape / packbits / unpackbits in the result-storage code works in index order: no order= other than C (memory order K/A/F differs from '
                       'index order for transposed views, and the reader rebuilds in index order)')
    ctx.rule('C18.h', 'one flattening order: in cirq.study.result and cirq_google.api.v2.results, calls of ravel / flatten / reshape / np.reshape / np.ravel / packbits / unpackbits / '
             'flat have no order= argument other than \'C\' and packbits is given the array itself (numpy flattens it in index order) - writer and reader then agree for every memory layout',
             floor=6, style='TBL')
    n = 0
    for rel in ('cirq-core/cirq/study/result.py', 'cirq-google/cirq_google/api/v2/results.py'):
        if not repo.exists(rel):
            raise AnalysisError(f'{rel} vanished')
        m = repo.module(rel)
        for fn in [f for f in ast.walk(m.tree) if isinstance(f, ast.FunctionDef)]:
            k = 0
            for c in ast.walk(fn):
                if not isinstance(c, ast.Call):
                    continue
                nm = (call_name(c) or '').split('.')[-1]
                if nm not in ('ravel', 'flatten', 'reshape', 'packbits', 'unpackbits', 'transpose', 'swapaxes'):
                    continue
                if nm in ('transpose', 'swapaxes'):
                    continue
                k += 1
                n += 1
                orders = [kw.value for kw in c.keywords if kw.arg == 'order'] + ([c.args[0]] if nm in ('ravel', 'flatten') and isinstance(c.func, ast.Attribute)
                                                                                   and not (isinstance(c.func.value, ast.Name) and c.func.value.id in ('np', 'numpy')) and c.args else [])
                bad = [o for o in orders if not (isinstance(o, ast.Constant) and o.value == 'C')]
                ok = not bad
                ctx.ob('C18.h', f'{m.name}.{fn.name}:{nm}#{k}', ok, '' if ok else f'`{ast.unparse(c)[:70]}` flattens in order {ast.unparse(bad[0])}: for a transposed or sliced records array the '
                       'bits are written in memory order but read back in index order, so repetitions / instances / qubits are permuted', m.rel, c.lineno)
    if n == 0:
        raise AnalysisError('C18.h: no flattening call found')


def _labelled_columns(ctx, repo):
    """C18.i - Sampler.sample: every value of a parameter column is looked up with the key that labels the column."""
    ctx.decided.append('C18.i Sampler.sample: the parameter columns of the returned data frame are filled by looking each value up with the column\'s own key (a comprehension over the column '
                       'list), not positionally from the sweep')
    ctx.rule('C18.i', 'values keyed like their columns: for every pd.DataFrame(data=X, columns=K) in cirq.work.sampler, the rows in X are built by a comprehension that iterates K itself and '
             'obtains each value through a lookup taking that key (value_of(key) / mapping[key])', floor=1, style='TNT')
    m = repo.module('cirq-core/cirq/work/sampler.py')
    n = 0
    for fn in [f for f in ast.walk(m.tree) if isinstance(f, ast.FunctionDef)]:
        defs = {}
        for a in ast.walk(fn):
            if isinstance(a, ast.Assign) and len(a.targets) == 1 and isinstance(a.targets[0], ast.Name):
                defs.setdefault(a.targets[0].id, []).append(a.value)
        for c in ast.walk(fn):
            if not (isinstance(c, ast.Call) and (call_name(c) or '').split('.')[-1] == 'DataFrame'):
                continue
            cols = next((k.value for k in c.keywords if k.arg == 'columns'), None)
            data = next((k.value for k in c.keywords if k.arg == 'data'), c.args[0] if c.args else None)
            if not isinstance(cols, ast.Name) or data is None:
                continue
            n += 1
            exprs = [data]
            for x in ast.walk(data):
                if isinstance(x, ast.Name):
                    exprs += defs.get(x.id, [])
            ok = False
            for e in exprs:
                for comp in [x for x in ast.walk(e) if isinstance(x, (ast.ListComp, ast.GeneratorExp))]:
                    g = comp.generators[0]
                    if isinstance(g.iter, ast.Name) and g.iter.id == cols.id and isinstance(g.target, ast.Name):
                        key = g.target.id
                        looked_up = any((isinstance(y, ast.Call) and any(isinstance(a_, ast.Name) and a_.id == key for a_ in y.args))
                                        or (isinstance(y, ast.Subscript) and isinstance(y.slice, ast.Name) and y.slice.id == key) for y in ast.walk(comp.elt))
                        ok = ok or looked_up
            ctx.ob('C18.i', f'cirq.work.sampler.{fn.name}:DataFrame(columns={cols.id})', ok, '' if ok else
                   f'the rows given to `{ast.unparse(c)[:70]}` are not produced by looking values up with the keys in `{cols.id}`: when a later sweep names the same parameters in another order, '
                   'values land under the wrong column labels', m.rel, c.lineno)
    if n == 0:
        raise AnalysisError('C18.i: no labelled data frame construction found in cirq.work.sampler')


def _batch_result_order(ctx, repo):
    """C18.j - run_batch returns one result list per program, in the order of the programs: the batching code never permutes them."""
    ctx.decided.append('C18.j ProcessorSampler.run_batch_async groups consecutive programs only: nothing sorts or permutes the program / sweep / repetition lists, whose order is the order '
                       'of the returned results')
    ctx.rule('C18.j', 'batch results in program order: run_batch_async of the engine samplers contains no sorted / reversed / sort / argsort / shuffle call and does not rebuild the program '
             'list through an index permutation', floor=1, style='TNT')
    m = repo.module('cirq-google/cirq_google/engine/processor_sampler.py')
    n = 0
    for fn in [f for f in ast.walk(m.tree) if isinstance(f, (ast.FunctionDef, ast.AsyncFunctionDef)) and f.name in ('run_batch_async', 'run_batch')]:
        n += 1
        bad = [c for c in ast.walk(fn) if isinstance(c, ast.Call) and (call_name(c) or '').split('.')[-1] in ('sorted', 'reversed', 'sort', 'argsort', 'shuffle', 'permutation')]
        ctx.ob('C18.j', f'cirq_google.engine.processor_sampler.{fn.name}:no-permutation', not bad, '' if not bad else
               f'`{ast.unparse(bad[0])[:70]}` re-orders the programs of a batch; the results are appended batch by batch and returned as if they were in the caller\'s order, so result i belongs '
               'to another program', m.rel, bad[0].lineno if bad else fn.lineno)
    if n == 0:
        raise AnalysisError('C18.j: run_batch_async vanished')


def _int64_guard_rule(ctx, repo):
    """C18.m - the NumPy fast path of the histogram is taken only when every folded value fits into int64."""
    ctx.decided.append('C18.m Result._vectorized_histogram declines (returns None) whenever fold_base ** n_qubits - 1 exceeds the int64 range, for every integer base (interpreted on probe '
                       'pairs around the boundary for bases 2, 3, 4, 10)')
    ctx.rule('C18.m', 'no silent wrap in the fast histogram: interpreting the head of Result._vectorized_histogram for an integer fold_base b and n measured digits, the function returns None '
             'before it builds the int64 power table whenever b**n - 1 > 2**63 - 1 (and may take the fast path otherwise) - a test on the number of digits alone is right for base 2 only',
             floor=16, style='FDX')
    res = repo.cls('cirq.study.result.Result')
    fn = res.methods.get('_vectorized_histogram')
    if fn is None:
        raise AnalysisError('Result._vectorized_histogram vanished')

    class _Fast(Exception):
        pass
    probes = [(None, 62), (None, 63), (None, 64), (2, 63), (2, 64), (3, 39), (3, 40), (3, 45), (3, 63), (4, 31), (4, 32), (4, 40), (10, 18), (10, 19), (10, 25), (5, 27), (5, 28), (7, 22), (7, 23)]
    # mixed-radix bases given as a sequence - of Python ints and of numpy integers (whose products wrap around silently)
    probes += [(('list', 3), 39), (('list', 3), 41), (('numpy', 3), 41), (('numpy', 2), 64), (('numpy', 2), 70), (('numpy', 10), 19), (('list', 2), 63)]
    for base, n in probes:
        if isinstance(base, tuple):
            kind, b0 = base
            base_val = [b0] * n if kind == 'list' else np.array([b0] * n, dtype=np.int64)
        else:
            base_val = base
        def call_hook(call, it):
            s_ = ast.unparse(call.func)
            if s_.endswith('arange') or s_.endswith('cumprod'):
                raise _Fast()
            if s_ == '_key_to_str':
                return 'k'
            if s_.endswith('iinfo'):
                return {'max': 2 ** 63 - 1, 'min': -2 ** 63, 'bits': 64}
            return NotImplemented

        class _M:
            shape = (5, n)
        meas = {'k': _M()}

        def attr_hook(node, it):
            if isinstance(node.value, ast.Name) and node.value.id == 'self' and node.attr == 'measurements':
                return meas
            if node.attr == 'shape':
                try:
                    v = it.ev(node.value)
                except fdx.Unsupported:
                    return NotImplemented
                if isinstance(v, _M):
                    return v.shape
            if node.attr in ('int64',) and isinstance(node.value, ast.Name) and node.value.id in ('np', 'numpy'):
                return 'int64'
            return NotImplemented
        it = fdx.NumInterp({'self': {}, 'key': 'k', 'fold_base': base_val, 'batch_size': 50000}, call_hook=call_hook, attr_hook=attr_hook)
        it.methods = {mn: f_ for c_ in repo.mro(res) for mn, f_ in c_.methods.items()}       # private helpers of the class are followed
        from . import c03 as _c03
        it.resolver = _c03.make_resolver(repo, res.mod, fn)                                   # and module-level ones
        took_fast = False
        try:
            out = it.call(fn)
        except _Fast:
            took_fast = True
            out = 'fast path'
        except (fdx.Unsupported, fdx.Raised) as ex:
            raise AnalysisError(f'Result._vectorized_histogram head is outside the interpretable subset: {ex}')
        b = 2 if base is None else (base[1] if isinstance(base, tuple) else base)
        overflow = b ** n - 1 > 2 ** 63 - 1
        ok = (not overflow) or (out is None and not took_fast)
        ctx.ob('C18.m', f'{res.qual}._vectorized_histogram:base={base}:n={n}', ok, '' if ok else
               f'fold_base={base}, {n} digits: the largest value {b}**{n}-1 does not fit into int64, yet the function goes on to build the int64 power table: the folded keys wrap around '
               '(negative / colliding histogram keys) instead of falling back to exact Python integers', res.mod.rel, fn.lineno, construct=f'{res.qual}._vectorized_histogram')
