"""C14 - Pauli-string algebra and expectation values match their matrices.

Decided exactly (finite tables): every single-qubit Pauli product / phase table the string
classes are built on is the Pauli group's; the integer encodings used by the different
classes agree; the literal eigenprojector table is right; the public in-place
multiplication entry points multiply on the side their name says.
Not decided: multi-qubit bookkeeping, conjugation by Cliffords, expectation values.
"""
from __future__ import annotations

import ast
import itertools

import numpy as np

from ..core import AnalysisError, call_name, dotted, func_params, kwarg
from .. import fdx, fold

I2 = np.eye(2, dtype=complex)
PX = np.array([[0, 1], [1, 0]], dtype=complex)
PY = np.array([[0, -1j], [1j, 0]], dtype=complex)
PZ = np.array([[1, 0], [0, -1]], dtype=complex)
MATS = {'I': I2, 'X': PX, 'Y': PY, 'Z': PZ}


def _product(a: str, b: str):
    """(phase, name) with MATS[a] @ MATS[b] == phase * MATS[name]."""
    m = MATS[a] @ MATS[b]
    for nm, q in MATS.items():
        for k in range(4):
            if np.allclose(m, (1j ** k) * q):
                return 1j ** k, nm
    raise AssertionError


def run(ctx):
    repo = ctx.repo
    _pow_carries_phase(ctx, repo)
    _value_operators_do_not_alias(ctx, repo)
    _pauli_combination_power(ctx, repo)
    from . import shared as _shared
    _shared.empty_decomposition_rule(ctx, 'C14.o')
    ctx.decided.append('C14.o a decomposition path that hands back no operation has consulted a phase-carrying field (an identity claim is not made blindly)')
    ctx.decided += [
        'C14.a Pauli.third / relative_index / phased_pauli_product, MutablePauliString._imul_atom_helper and the dense per-term phase '
        'function equal the Pauli group multiplication table (exhaustive over the finite domain)',
        'C14.b integer/character encodings of Paulis agree across PauliString, MutablePauliString and DensePauliString',
        'C14.c PAULI_EIGEN_MAP holds the (+1, -1) eigenprojectors of each Pauli',
        'C14.e in-place multiplication entry points pass the sign of the side their name documents',
        'C14.d parameter/field coherence of Pauli string classes is covered by C10.a / C11',
    ]
    ctx.not_decided += ['multi-qubit bookkeeping of strings and sums', 'conjugation by Clifford operations', 'expectation values', 'phasor decompositions']
    pg = repo.module('cirq-core/cirq/ops/pauli_gates.py')
    ps = repo.module('cirq-core/cirq/ops/pauli_string.py')
    dps = repo.module('cirq-core/cirq/ops/dense_pauli_string.py')
    pauli = repo.cls('cirq.ops.pauli_gates.Pauli')

    # indices of X, Y, Z from the source
    idx = {}
    for cname, nm in (('_PauliX', 'X'), ('_PauliY', 'Y'), ('_PauliZ', 'Z')):
        c = repo.cls(f'cirq.ops.pauli_gates.{cname}')
        init = c.methods.get('__init__')
        if init is None:
            raise AnalysisError(f'{cname}.__init__ vanished')
        for call in ast.walk(init):
            if isinstance(call, ast.Call) and ast.unparse(call.func) == 'Pauli.__init__':
                v = kwarg(call, 'index')
                n_ = kwarg(call, 'name')
                if v is not None:
                    idx[nm] = (ast.literal_eval(v), ast.literal_eval(n_) if n_ is not None else None)
    if set(idx) != {'X', 'Y', 'Z'}:
        raise AnalysisError('Pauli indices not found')
    xyz = pg.defs.get('X'), pg.defs.get('Y'), pg.defs.get('Z')
    # Pauli._XYZ = (X, Y, Z)
    xyz_order = None
    for st in pg.tree.body:
        if isinstance(st, ast.Assign) and ast.unparse(st.targets[0]) == 'Pauli._XYZ':
            xyz_order = [ast.unparse(e) for e in st.value.elts]
    if xyz_order is None:
        raise AnalysisError('Pauli._XYZ assignment vanished')

    ctx.rule('C14.a', 'finite-domain extraction of the single-qubit Pauli product tables against the matrix product of the Pauli matrices', floor=5, style='FDX')
    # objects: {'_index': i, 'name': n}
    objs = {nm: {'_index': idx[nm][0], 'name': nm} for nm in 'XYZ'}
    by_index = {}
    for pos, nm in enumerate(xyz_order):
        by_index[pos] = objs[nm]
    names_ok = all(idx[nm][1] == nm for nm in 'XYZ') and all(by_index[objs[nm]['_index']] is objs[nm] for nm in 'XYZ')
    ctx.ob('C14.a', 'cirq.ops.pauli_gates:index-table', names_ok, '' if names_ok else f'Pauli._XYZ order {xyz_order} disagrees with the _index values {idx}', pg.rel, 1)
    IDENT = {'name': 'I'}

    def run_method(mname, self_obj, args):
        fn = pauli.methods[mname]
        params = [a.arg for a in fn.args.args]
        env = {params[0]: self_obj}
        for p, a in zip(params[1:], args):
            env[p] = a

        def attr_hook(node, it):
            s = ast.unparse(node)
            if s == 'Pauli._XYZ':
                return by_index
            if s in ('identity.I', 'cirq.I'):
                return IDENT
            return NotImplemented

        def call_hook(call, it):
            f = call.func
            if isinstance(f, ast.Name) and f.id == 'cast' and len(call.args) == 2:
                return it.ev(call.args[1])
            if isinstance(f, ast.Attribute) and f.attr in pauli.methods:
                recv = it.ev(f.value)
                return run_method(f.attr, recv, [it.ev(a) for a in call.args])
            return NotImplemented
        it = fdx.Interp(env, {}, None, call_hook, attr_hook)
        return it.call(fn)
    bad = None
    try:
        for a, b in itertools.product('XYZ', repeat=2):
            if a != b:
                t = run_method('third', objs[a], [objs[b]])
                want = ({'X', 'Y', 'Z'} - {a, b}).pop()
                if t is not objs[want]:
                    bad = bad or f'third({a},{b}) = {t.get("name")} (expected {want})'
        for a in 'XYZ':
            for b in 'IXYZ':
                ph, res = run_method('phased_pauli_product', objs[a], [objs[b] if b != 'I' else IDENT])
                wph, wres = _product(a, b)
                if res.get('name') != wres or abs(complex(ph) - wph) > 1e-12:
                    bad = bad or f'phased_pauli_product({a},{b}) = ({ph}, {res.get("name")}) but {a}.{b} = {wph} {wres}'
    except (fdx.Unsupported, fdx.Raised) as ex:
        raise AnalysisError(f'cannot interpret Pauli product methods: {ex}')
    ctx.ob('C14.a', 'cirq.ops.pauli_gates.Pauli:third/phased_pauli_product', bad is None, bad or '', pg.rel, pauli.methods['phased_pauli_product'].lineno)
    # __gt__/__lt__ cyclic order X<Y<Z<X consistent with relative_index
    try:
        ok = True
        for a, b in itertools.product('XYZ', repeat=2):
            ri = run_method('relative_index', objs[a], [objs[b]])
            want = 0 if a == b else (1 if (idx[a][0] - idx[b][0]) % 3 == 1 else -1)
            ok = ok and ri == want
    except (fdx.Unsupported, fdx.Raised) as ex:
        raise AnalysisError(f'relative_index: {ex}')
    ctx.ob('C14.a', 'cirq.ops.pauli_gates.Pauli:relative_index', ok, '' if ok else 'relative_index is not +1/-1/0 on the X->Y->Z cycle', pg.rel, pauli.methods['relative_index'].lineno)

    # encodings ---------------------------------------------------------------
    ctx.rule('C14.b', 'encodings: PAULI_GATE_LIKE_TO_INDEX_MAP maps I,X,Y,Z (gate, upper, lower, int) to 0..3 consistently; _INT_TO_PAULI(_OR_IDENTITY), '
             'dense PAULI_CHARS / PAULI_GATES list the Paulis in that same order', floor=4, style='TBL')
    mp = ps.defs.get('PAULI_GATE_LIKE_TO_INDEX_MAP')
    if not isinstance(mp, ast.Dict):
        raise AnalysisError('PAULI_GATE_LIKE_TO_INDEX_MAP is no longer a literal')
    alias = {'_i': 'I', '_x': 'X', '_y': 'Y', '_z': 'Z'}
    enc = {}
    okm = True
    for k, v in zip(mp.keys, mp.values):
        ks = ast.unparse(k)
        val = ast.literal_eval(v)
        if ks in alias:
            sym = alias[ks]
        elif isinstance(k, ast.Constant) and isinstance(k.value, str):
            sym = k.value.upper()
        elif isinstance(k, ast.Constant) and isinstance(k.value, int):
            sym = None
            okm = okm and k.value == val
            continue
        else:
            okm = False
            continue
        if sym in enc and enc[sym] != val:
            okm = False
        enc.setdefault(sym, val)
    okm = okm and sorted(enc.values()) == [0, 1, 2, 3] and enc.get('I') == 0
    ctx.ob('C14.b', 'cirq.ops.pauli_string:PAULI_GATE_LIKE_TO_INDEX_MAP', okm, '' if okm else f'inconsistent Pauli integer encoding {enc}', ps.rel, mp.lineno)
    order = [k for k, v in sorted(enc.items(), key=lambda kv: kv[1])]
    for name, want in (('_INT_TO_PAULI_OR_IDENTITY', order), ('_INT_TO_PAULI', order[1:])):
        node = ps.defs.get(name)
        got = [alias.get(ast.unparse(e), ast.unparse(e)) for e in node.elts] if isinstance(node, (ast.List, ast.Tuple)) else None
        ctx.ob('C14.b', f'cirq.ops.pauli_string:{name}', got == want, '' if got == want else f'{name} = {got} but the index map orders the Paulis {want}', ps.rel, getattr(node, 'lineno', 1))
    pc = dps.defs.get('PAULI_CHARS')
    pgs = dps.defs.get('PAULI_GATES')
    chars = list(pc.value) if isinstance(pc, ast.Constant) else None
    gates = [ast.unparse(e).split('.')[-1] for e in pgs.elts] if isinstance(pgs, (ast.List, ast.Tuple)) else None
    ok = chars == order and gates == order
    ctx.ob('C14.b', 'cirq.ops.dense_pauli_string:PAULI_CHARS/PAULI_GATES', ok, '' if ok else f'dense encoding chars={chars} gates={gates} differs from {order}', dps.rel, getattr(pc, 'lineno', 1))

    # _imul_atom_helper ------------------------------------------------------
    mps = repo.cls('cirq.ops.pauli_string.MutablePauliString')
    h = mps.methods.get('_imul_atom_helper')
    if h is None:
        raise AnalysisError('_imul_atom_helper vanished')
    name_of = {v: k for k, v in enc.items()}
    left_sign = None
    bad = None
    try:
        for sign in (+1, -1):
            for lhs, old in itertools.product(range(4), repeat=2):
                store = {'k': old} if old else {}

                def call_hook(call, it, store=store):
                    f = call.func
                    if isinstance(f, ast.Attribute) and f.attr == 'pop' and 'pauli_int_dict' in ast.unparse(f.value):
                        return store.pop('k', it.ev(call.args[1]) if len(call.args) > 1 else None)
                    return NotImplemented

                def cell_key(node, it):
                    if 'pauli_int_dict' in ast.unparse(node.value):
                        return 'cell'
                    return None
                cells = {'cell': None}
                it = fdx.Interp({'self': {}, 'key': 'k', 'pauli_lhs': lhs, 'sign': sign}, cells, cell_key, call_hook)
                ret = it.call(h)
                new = cells['cell'] if cells['cell'] is not None else 0
                ph_l, res_l = _product(name_of[lhs], name_of[old])      # lhs . old
                want_new = enc[res_l]
                if new != want_new:
                    bad = bad or f'pauli {name_of[lhs]} into {name_of[old]} stores {new} (expected {want_new})'
                eps_l = {1: 0, 1j: 1, -1: 2, -1j: 3}[complex(round(ph_l.real), round(ph_l.imag))]
                # which side does `sign` mean?  ret == sign*eps(lhs.old) mod 4  -> sign means left-multiplication
                if lhs and old and lhs != old:
                    if (ret - sign * (1 if eps_l == 1 else -1)) % 4 == 0:
                        side = 'left'
                    elif (ret + sign * (1 if eps_l == 1 else -1)) % 4 == 0:
                        side = 'right'
                    else:
                        bad = bad or f'phase exponent {ret} for {name_of[lhs]},{name_of[old]},sign={sign} is neither product order'
                        continue
                    s_left = +1 if side == 'left' else -1   # ret == sign * eps(lhs.old): sign=+1 is left-multiplication
                    if left_sign is None:
                        left_sign = s_left
                    elif left_sign != s_left:
                        bad = bad or 'the sign convention is not uniform over the table'
                elif ret != 0:
                    bad = bad or f'non-zero phase {ret} for commuting pair {name_of[lhs]},{name_of[old]}'
    except (fdx.Unsupported, fdx.Raised) as ex:
        raise AnalysisError(f'cannot interpret _imul_atom_helper: {ex}')
    ctx.ob('C14.a', 'cirq.ops.pauli_string.MutablePauliString._imul_atom_helper', bad is None, bad or '', ps.rel, h.lineno)

    # dense per-term phase ------------------------------------------------------
    vf = dps.defs.get('_vectorized_pauli_mul_phase')
    if vf is None:
        raise AnalysisError('_vectorized_pauli_mul_phase vanished')
    bad = None
    try:
        for lhs, rhs in itertools.product(range(4), repeat=2):
            env = {'lhs': lhs, 'rhs': rhs}

            def call_hook(call, it):
                s = ast.unparse(call.func)
                if s == 'np.array':
                    return int(it.ev(call.args[0]))
                if s == 'np.sum':
                    return it.ev(call.args[0])
                if s.endswith('.item'):
                    return it.ev(call.func.value)
                return NotImplemented
            it = fdx.Interp(env, {}, None, call_hook)
            got = it.call(vf)
            want, _ = _product(name_of[lhs], name_of[rhs])
            if abs(complex(got) - want) > 1e-12:
                bad = bad or f'phase({name_of[lhs]}.{name_of[rhs]}) = {got} (expected {want})'
    except (fdx.Unsupported, fdx.Raised) as ex:
        raise AnalysisError(f'cannot interpret _vectorized_pauli_mul_phase: {ex}')
    ctx.ob('C14.a', 'cirq.ops.dense_pauli_string._vectorized_pauli_mul_phase', bad is None, bad or '', dps.rel, vf.lineno)

    # PAULI_EIGEN_MAP -----------------------------------------------------------
    ctx.rule('C14.c', 'PAULI_EIGEN_MAP[P] = (projector onto the +1 eigenspace of P, projector onto the -1 eigenspace)', floor=3, style='TBL')
    pim = repo.module('cirq-core/cirq/ops/pauli_interaction_gate.py')
    em = pim.defs.get('PAULI_EIGEN_MAP')
    if not isinstance(em, ast.Dict):
        raise AnalysisError('PAULI_EIGEN_MAP is no longer a literal dict')
    for k, v in zip(em.keys, em.values):
        nm = ast.unparse(k).split('.')[-1]
        try:
            pr = fold.fold(v)
        except fold.NotLiteral as ex:
            raise AnalysisError(f'PAULI_EIGEN_MAP[{nm}] not literal: {ex}')
        plus, minus = np.array(pr[0], dtype=complex), np.array(pr[1], dtype=complex)
        P = MATS[nm]
        ok = np.allclose(plus, (I2 + P) / 2) and np.allclose(minus, (I2 - P) / 2)
        ctx.ob('C14.c', f'PAULI_EIGEN_MAP[{nm}]', ok, '' if ok else f'entries are not ((I+{nm})/2, (I-{nm})/2)', pim.rel, v.lineno)

    # in-place multiplication entry points ---------------------------------------
    ctx.rule('C14.e', 'MutablePauliString.inplace_left_multiply_by passes the sign that _imul_atom_helper treats as left-multiplication and '
             'inplace_right_multiply_by the opposite one', floor=2, style='COH')
    if left_sign is None:
        raise AnalysisError('could not determine the sign convention of _imul_atom_helper')
    for mn, want in (('inplace_left_multiply_by', left_sign), ('inplace_right_multiply_by', -left_sign)):
        fn = mps.methods.get(mn)
        if fn is None:
            raise AnalysisError(f'{mn} vanished')
        calls = [c for c in ast.walk(fn) if isinstance(c, ast.Call) and call_name(c) in ('_imul_helper_checkpoint', '_imul_helper')]
        if not calls:
            raise AnalysisError(f'{mn}: helper call vanished')
        try:
            got = ast.literal_eval(calls[0].args[1])
        except Exception:
            got = None
        side = mn.split('_')[1]
        ctx.ob('C14.e', f'cirq.ops.pauli_string.MutablePauliString.{mn}', got == want,
               '' if got == want else f'{mn} passes sign {got:+d}, which the atom helper implements as {"left" if got == left_sign else "right"}-multiplication: '
               f'the {side}-multiply entry point multiplies on the other side', ps.rel, fn.lineno)

    _extra_rules(ctx, repo, ps, dps, mps)
    _list_multiplication_order(ctx, repo, left_sign)


# ---------------------------------------------------------------------------------------------------------------
PAULI_STRING_CLASSES = {'PauliString', 'DensePauliString', 'MutableDensePauliString', 'MutablePauliString'}
CONTENT_ATTRS = {'_qubit_pauli_map', 'pauli_int_dict', 'pauli_mask', '_pauli_mask', 'qubits', 'items', 'keys', 'values', 'get'}
COEFF_ATTRS = {'coefficient', '_coefficient'}
# (function qualname, constructed class) -> reason the coefficient is deliberately not passed at that site
CONVERSION_EXEMPT = {
    ('PauliString.__pow__', 'PauliString'): 'the coefficient becomes the rotation exponent of the PauliStringPhasor built around this string',
    ('PauliString.__rpow__', 'PauliString'): 'same: base**(coefficient * P) - the coefficient is turned into the exponents',
    ('PauliString.conjugated_by', 'PauliString'): 'the untouched remainder is multiplied by the conjugated factor, which carries the coefficient (remain * conjugated)',
}


def _sources(fn, in_family: bool):
    """names bound to Pauli-string values inside fn: self (for family classes) and locals assigned from the interpretation helpers"""
    src = {'self'} if in_family else set()
    for n in ast.walk(fn):
        tgt = val = None
        if isinstance(n, ast.NamedExpr):
            tgt, val = n.target, n.value
        elif isinstance(n, ast.Assign) and len(n.targets) == 1:
            tgt, val = n.targets[0], n.value
        if isinstance(tgt, ast.Name) and isinstance(val, ast.Call) and call_name(val) in ('_try_interpret_as_pauli_string', '_try_interpret_as_dps'):
            src.add(tgt.id)
    return src


def _reads(expr, names, attrs=None):
    """source names whose content (attrs None: any attribute / subscript / bare use as iterable) is read inside expr"""
    out = set()
    for n in ast.walk(expr):
        if isinstance(n, ast.Attribute) and isinstance(n.value, ast.Name) and n.value.id in names and (attrs is None or n.attr in attrs):
            out.add(n.value.id)
        if attrs is None or attrs is CONTENT_ATTRS:
            if isinstance(n, ast.Subscript) and isinstance(n.value, ast.Name) and n.value.id in names:
                out.add(n.value.id)
    return out


def _extra_rules(ctx, repo, ps, dps, mps):
    from ..flow import stmts_in_order
    from . import shared
    ctx.decided += [
        'C14.f in-place conjugation of a mutable string can shrink its support and updates its sign',
        'C14.g LinearDict arithmetic (the carrier of PauliSum) never drops non-zero terms: clean() is called with atol=0',
        'C14.h every method of a Pauli-string class that rebuilds its class passes the coefficient and every other stored field',
        'C14.i conversions between Pauli-string representations carry the coefficient of the source',
        'C14.j the X/Y/Z-power-gate shortcut of _try_interpret_as_pauli_string accounts for the gate\'s global_shift',
        'C14.k PauliStringPhasorGate._decompose_ equals exp(i pi (t_neg P_- + t_pos P_+)) for every Pauli mask on up to 3 qubits (identity entries included)',
    ]

    # ---------------------------------------------------------------- C14.f
    ctx.rule('C14.f', 'MutablePauliString.inplace_before: inside the loop over operations the entry of a qubit whose conjugated Pauli is the identity '
             'is removed (pop / del / clear / rebuild of pauli_int_dict) and the coefficient is taken from the conjugated string', floor=3, style='MPT')
    fn = mps.methods.get('inplace_before')
    if fn is None:
        raise AnalysisError('MutablePauliString.inplace_before vanished')
    loops = [l for l in ast.walk(fn) if isinstance(l, ast.For) and any(isinstance(c, ast.Call) and call_name(c) == '_calc_conjugation' for c in ast.walk(l))]
    if not loops:
        raise AnalysisError('inplace_before: loop calling _calc_conjugation vanished')
    loop = loops[0]
    removes = False
    coeff = False
    for n in ast.walk(loop):
        if isinstance(n, ast.Call) and isinstance(n.func, ast.Attribute) and n.func.attr in ('pop', 'clear') and ast.unparse(n.func.value) == 'self.pauli_int_dict':
            removes = True
        if isinstance(n, ast.Delete) and any('self.pauli_int_dict' in ast.unparse(t) for t in n.targets):
            removes = True
        if isinstance(n, ast.Assign) and any(ast.unparse(t) == 'self.pauli_int_dict' for t in n.targets):
            removes = True
        if isinstance(n, (ast.Assign, ast.AugAssign)):
            tg = n.targets if isinstance(n, ast.Assign) else [n.target]
            if any(ast.unparse(t) in ('self.coefficient', 'self._coefficient') for t in tg) and 'coefficient' in ast.unparse(n.value):
                coeff = True
    key = 'cirq.ops.pauli_string.MutablePauliString.inplace_before'
    ctx.ob('C14.f', key + ':support-can-shrink', removes, '' if removes else 'no entry of pauli_int_dict is ever removed: a Pauli that conjugates to the identity on a qubit '
           '(X(b) through SWAP(a,b)) stays behind', ps.rel, loop.lineno)
    ctx.ob('C14.f', key + ':sign-updated', coeff, '' if coeff else 'the coefficient of the conjugated string is not written back: signs picked up in conjugation are lost', ps.rel, loop.lineno)
    ia = mps.methods.get('inplace_after')
    ok = ia is not None and any(isinstance(c, ast.Call) and call_name(c) == 'inplace_before' and c.args and isinstance(c.args[0], ast.Call) and call_name(c.args[0]) == 'inverse'
                                for c in ast.walk(ia))
    ctx.ob('C14.f', 'cirq.ops.pauli_string.MutablePauliString.inplace_after', ok, '' if ok else 'inplace_after is no longer inplace_before of the inverse operations', ps.rel, getattr(ia, 'lineno', 1))

    # ---------------------------------------------------------------- C14.g
    ctx.rule('C14.g', 'LinearDict: every clean() issued by an arithmetic operator or a view keeps all non-zero terms (atol=0); only the public clean() has a tolerance', floor=8, style='TBL')
    ld = repo.cls('cirq.value.linear_dict.LinearDict')
    for mn, m in ld.methods.items():
        if mn == 'clean':
            continue
        for c in ast.walk(m):
            if isinstance(c, ast.Call) and isinstance(c.func, ast.Attribute) and c.func.attr == 'clean':
                a = kwarg(c, 'atol')
                ok = a is not None and isinstance(a, ast.Constant) and a.value == 0
                ctx.ob('C14.g', f'{ld.qual}.{mn}:clean', ok, '' if ok else f'{mn} cleans with the default tolerance: terms with |coefficient| <= 1e-9 silently vanish from sums', ld.mod.rel, c.lineno)

    # ---------------------------------------------------------------- C14.h
    fam = {'cirq.ops.pauli_string.PauliString', 'cirq.ops.pauli_string.MutablePauliString', 'cirq.ops.pauli_string.SingleQubitPauliStringGateOperation',
           'cirq.ops.dense_pauli_string.BaseDensePauliString', 'cirq.ops.dense_pauli_string.DensePauliString', 'cirq.ops.dense_pauli_string.MutableDensePauliString',
           'cirq.ops.linear_combinations.PauliSum', 'cirq.ops.pauli_string_phasor.PauliStringPhasor', 'cirq.ops.pauli_string_phasor.PauliStringPhasorGate',
           'cirq.ops.pauli_sum_exponential.PauliSumExponential'}
    shared.exempt('cirq.ops.pauli_string_phasor.PauliStringPhasor', 'conjugated_by', 'qubits',
                  'explicit identity-padding qubits are not carried through conjugation; the new Pauli string defines the qubits')
    shared.rebuild_rule(ctx, 'C14.h', floor=22, classes=fam)

    # ---------------------------------------------------------------- C14.i
    ctx.rule('C14.i', 'a Pauli-string object constructed from the Pauli content of another Pauli-string value (self or the result of an interpretation helper) '
             'is given that value\'s coefficient', floor=22, style='COH')
    fam_names = {q.rsplit('.', 1)[1] for q in fam}
    for mod in (ps, dps):
        for owner, fn in _functions(mod):
            in_family = owner in fam_names
            srcs = _sources(fn, in_family)
            if not srcs:
                continue
            # names derived from the content of a source
            derived = {}
            changed = True
            order = stmts_in_order(fn)
            while changed:
                changed = False
                for st in order:
                    tgts, val = [], None
                    if isinstance(st, ast.Assign):
                        tgts, val = st.targets, st.value
                    elif isinstance(st, ast.AnnAssign) and st.value is not None:
                        tgts, val = [st.target], st.value
                    elif isinstance(st, ast.AugAssign):
                        tgts, val = [st.target], st.value
                    elif isinstance(st, ast.For):
                        tgts, val = [st.target], st.iter
                    if val is None:
                        continue
                    who = _reads(val, srcs, CONTENT_ATTRS) | {s for n in ast.walk(val) if isinstance(n, ast.Name) and n.id in derived for s in derived[n.id]}
                    if not who:
                        continue
                    for t in tgts:
                        for nm in ast.walk(t):
                            if isinstance(nm, ast.Name) and nm.id not in srcs:
                                if not who <= derived.get(nm.id, set()):
                                    derived.setdefault(nm.id, set()).update(who)
                                    changed = True
            for c in ast.walk(fn):
                if not isinstance(c, ast.Call):
                    continue
                cname = ast.unparse(c.func).split('.')[-1]
                if cname not in PAULI_STRING_CLASSES:
                    continue
                argexprs = list(c.args) + [k.value for k in c.keywords if k.arg != 'coefficient']
                who = set()
                for a in argexprs:
                    who |= _reads(a, srcs, CONTENT_ATTRS)
                    who |= {s for n in ast.walk(a) if isinstance(n, ast.Name) and n.id in derived for s in derived[n.id]}
                if not who:
                    continue
                qual = f'{owner}.{fn.name}' if owner else fn.name
                key = f'{mod.name}.{qual}->{cname}'
                if (qual, cname) in CONVERSION_EXEMPT:
                    ctx.ob('C14.i', key, True, 'listed: ' + CONVERSION_EXEMPT[(qual, cname)], mod.rel, c.lineno)
                    continue
                cexpr = kwarg(c, 'coefficient')
                ok = False
                if cexpr is not None:
                    params = set(func_params(fn))
                    coeff_locals = set()
                    for st in order:
                        if isinstance(st, (ast.Assign, ast.AnnAssign)) and getattr(st, 'value', None) is not None and _reads(st.value, srcs, COEFF_ATTRS):
                            for t in (st.targets if isinstance(st, ast.Assign) else [st.target]):
                                coeff_locals |= {n.id for n in ast.walk(t) if isinstance(n, ast.Name)}
                    names = {n.id for n in ast.walk(cexpr) if isinstance(n, ast.Name)}
                    # the source's own coefficient, a local computed from it, or an explicit override handed in by the caller
                    ok = bool(who <= _reads(cexpr, srcs, COEFF_ATTRS)) or bool(names & coeff_locals) or bool(names & (params - {'self'}))
                ctx.ob('C14.i', key, ok, '' if ok else f'{qual} builds a {cname} from the Paulis of `{", ".join(sorted(who))}` without its coefficient: '
                       'the scalar factor of the operand is silently replaced by 1', mod.rel, c.lineno)

    # ---------------------------------------------------------------- C14.j
    ctx.rule('C14.j', '_try_interpret_as_pauli_string: the shortcut that maps an X/Y/Z power gate to a Pauli (interpreted for probe exponents and global shifts) '
             'returns c*I or c*P with c = exp(i pi exponent global_shift) for integer exponents and declines otherwise', floor=20, style='FDX')
    fn = ps.defs.get('_try_interpret_as_pauli_string')
    if fn is None:
        raise AnalysisError('_try_interpret_as_pauli_string vanished')
    branch = None
    for st in fn.body:
        if isinstance(st, ast.If) and 'type(op.gate)' in ast.unparse(st.test):
            branch = st
    if branch is None:
        raise AnalysisError('_try_interpret_as_pauli_string: the power-gate shortcut vanished')

    class _PS:
        def __init__(self, what, c=1):
            self.what, self.c = what, c

        def __mul__(self, k):
            return _PS(self.what, self.c * k)
        __rmul__ = __mul__

    def call_hook(call, it):
        nm = ast.unparse(call.func).split('.')[-1]
        if nm == 'PauliString':
            if call.args or any(k.arg != 'coefficient' for k in call.keywords):
                raise fdx.Unsupported('PauliString built with contents in the shortcut')
            c = [it.ev(k.value) for k in call.keywords if k.arg == 'coefficient']
            return _PS('I', c[0] if c else 1)
        return NotImplemented
    for e in (0, 1, 2, 3, -1, -2, 0.5, 1.5):
        for sh in (0, 0.5, -0.25, 0.3):
            # the walrus target of the branch test holds the Pauli the gate class maps to (whatever it is called)
            pname = next((n.target.id for n in ast.walk(branch.test) if isinstance(n, ast.NamedExpr)), 'pauli')
            opname = fn.args.args[0].arg
            env = {opname: {'gate': {'exponent': e, 'global_shift': sh, '_exponent': e, '_global_shift': sh}, 'qubits': ('q0',)},
                   pname: {'on': lambda *q: _PS('P', 1)}}
            it = fdx.NumInterp(env, call_hook=call_hook)
            key = f'cirq.ops.pauli_string._try_interpret_as_pauli_string:shortcut:e={e}:shift={sh}'
            try:
                got = NotImplemented
                try:
                    it.run_block(branch.body)
                except fdx._Return as r:
                    got = r.value
            except fdx.Unsupported as ex:
                raise AnalysisError(f'_try_interpret_as_pauli_string shortcut is outside the interpretable subset: {ex}')
            if e % 1 != 0:
                ok = got is None or got is NotImplemented
                msg = 'a non-integer power of a Pauli gate is interpreted as a Pauli string'
            else:
                want = np.exp(1j * np.pi * e * sh)
                ok = isinstance(got, _PS) and got.what == ('I' if e % 2 == 0 else 'P') and abs(complex(got.c) - want) < 1e-9
                msg = (f'the gate is the matrix {want:.3g} * {"I" if e % 2 == 0 else "P"} but is interpreted as '
                       f'{(str(complex(got.c)) + " * " + got.what) if isinstance(got, _PS) else got}: products with Pauli strings get the wrong phase')
            ctx.ob('C14.j', key, ok, '' if ok else msg, ps.rel, branch.lineno, construct='cirq.ops.pauli_string._try_interpret_as_pauli_string:shortcut')

    _phasor_rule(ctx, repo)
    _all_terms_rule(ctx, repo)


def _functions(mod):
    for st in mod.tree.body:
        if isinstance(st, ast.FunctionDef):
            yield '', st
        elif isinstance(st, ast.ClassDef):
            for s2 in st.body:
                if isinstance(s2, ast.FunctionDef):
                    yield st.name, s2


class _DPS:
    """model of a DensePauliString value: only what the decomposition may look at (length, mask, per-position gate names)"""

    def __init__(self, names):
        self.names = names
        enc = {'I': 0, 'X': 1, 'Y': 3, 'Z': 2}
        self.pauli_mask = np.array([enc[c] for c in names], dtype=np.uint8)
        self.coefficient = 1

    def __len__(self):
        return len(self.names)

    def __iter__(self):
        return iter(self.names)


def _phasor_rule(ctx, repo):
    """C14.k - interpret PauliStringPhasorGate._decompose_ for every Pauli mask on <= 3 qubits."""
    from . import decomp
    from .c19 import _embed
    ctx.rule('C14.k', 'PauliStringPhasorGate._decompose_ (interpreted; the basis change to Z is summarised as any unitary U_P with U_P P U_P^dag = Z, inverse() as the '
             'reversed adjoint sequence) multiplies out to exp(i pi (t_neg (I-P)/2 + t_pos (I+P)/2)) for every mask in {I,X,Y,Z}^n, n<=3, at probe exponents', floor=110, style='FDX')
    ci = repo.cls('cirq.ops.pauli_string_phasor.PauliStringPhasorGate')
    fn = ci.methods.get('_decompose_')
    if fn is None:
        raise AnalysisError('PauliStringPhasorGate._decompose_ vanished')
    mod = ci.mod
    H = np.array([[1, 1], [1, -1]], dtype=complex) / np.sqrt(2)
    S = np.diag([1, 1j]).astype(complex)
    TO_Z = {'X': H, 'Y': H @ np.conj(S).T, 'Z': None}      # U P U^dag = Z
    for nm, u in TO_Z.items():
        if u is not None:
            assert np.allclose(u @ MATS[nm] @ np.conj(u).T, PZ)
    comps = {}
    bad_total = 0
    for n in (1, 2, 3):
        for names in itertools.product('IXYZ', repeat=n):
            if all(c == 'I' for c in names):
                continue
            for tneg, tpos in ((0.3, 0.0), (0.0, 0.7), (0.25, -0.4)) if n < 3 else ((0.3, 0.1),):
                self_obj = {'dense_pauli_string': _DPS(names), '_dense_pauli_string': _DPS(names), 'exponent_neg': tneg, 'exponent_pos': tpos,
                            '_exponent_neg': tneg, '_exponent_pos': tpos}
                attr_hook, base_call_hook, name_lookup = decomp.make_env_hooks(repo, ci, fn, self_obj)

                def call_hook(call, it, _b=base_call_hook, _names=names):
                    s = ast.unparse(call.func)
                    if s == 'self._to_z_basis_ops':
                        qs = it.ev(call.args[0])
                        return [decomp.OpV(decomp.GateV(None, kind='matrix', coefficient=TO_Z[c], n=1), [q]) for q, c in zip(qs, _names) if c in 'XY']
                    if s.endswith('freeze_op_tree'):
                        v = it.ev(call.args[0])
                        return tuple(v) if isinstance(v, (list, tuple)) else v
                    if s.endswith('inverse') and len(call.args) == 1:
                        flat = []
                        decomp._flatten(it.ev(call.args[0]), flat)
                        return [o ** -1 for o in reversed(flat)]
                    if s.endswith('xor_nonlocal_decompose'):
                        f2 = mod.defs.get('xor_nonlocal_decompose')
                        if f2 is None:
                            raise fdx.Unsupported('xor_nonlocal_decompose vanished')
                        sub = decomp.GenInterp({a.arg: it.ev(v) for a, v in zip(f2.args.args, call.args)}, call_hook=_b, attr_hook=it.attr_hook)
                        sub.ev = it.ev.__func__.__get__(sub) if hasattr(it.ev, '__func__') else sub.ev
                        _wire(sub, name_lookup, attr_hook)
                        sub.call(f2)
                        return sub.out
                    return _b(call, it)
                it = decomp.GenInterp({'self': self_obj, 'qubits': tuple(decomp.Q(i) for i in range(n))}, call_hook=call_hook, attr_hook=attr_hook)
                _wire(it, name_lookup, attr_hook)
                key = f'{ci.qual}._decompose_:mask={"".join(names)}:t=({tneg},{tpos})'
                try:
                    ret = it.call(fn)
                    tree = it.out if it.out else ret
                    ops_ = []
                    decomp._flatten(tree, ops_)
                    u = np.eye(2 ** n, dtype=complex)
                    for op in ops_:
                        m = decomp.gate_matrix(repo, comps, op.gate)
                        if op.gate.kind == 'phase':
                            u = m[0, 0] * u
                            continue
                        u = _embed(m, [q.idx for q in op.qubits], n) @ u
                except fdx.Unsupported as e:
                    raise AnalysisError(f'PauliStringPhasorGate._decompose_ is outside the interpretable subset: {e}')
                P = np.eye(1, dtype=complex)
                for c in names:
                    P = np.kron(P, MATS[c])
                I_ = np.eye(2 ** n, dtype=complex)
                ref = np.exp(1j * np.pi * tneg) * (I_ - P) / 2 + np.exp(1j * np.pi * tpos) * (I_ + P) / 2
                ok = np.allclose(u, ref, atol=1e-9)
                if not ok:
                    bad_total += 1
                ctx.ob('C14.k', key, ok, '' if ok else f'the {len(ops_)} yielded operations do not multiply out to the phasor of {"".join(names)}'
                       + (' (identity positions take part in the parity computation)' if 'I' in names else ''), mod.rel, fn.lineno,
                       construct=f'{ci.qual}._decompose_:mask={"".join(names)}')


def _wire(it, name_lookup, attr_hook):
    """library names resolve to gate values; attributes of model objects fall back to getattr"""
    from . import decomp
    orig_ev = it.ev

    def ev(node):
        if isinstance(node, ast.Name) and node.id not in it.env and node.id not in it.builtins:
            g = name_lookup(node.id)
            if g is not NotImplemented:
                return g
        return orig_ev(node)
    it.ev = ev

    def attr2(node, itp):
        r = attr_hook(node, itp)
        if r is not NotImplemented:
            return r
        try:
            v = itp.ev(node.value)
        except fdx.Unsupported:
            return NotImplemented
        if isinstance(v, (decomp.GateV, decomp.OpV, decomp.Q, _DPS)) and hasattr(v, node.attr):
            return getattr(v, node.attr)
        return NotImplemented
    it.attr_hook = attr2


def _all_terms_rule(ctx, repo):
    """C14.l - aggregations over the terms of a linear combination visit every term (no filter on the operator part)."""
    ctx.decided.append('C14.l sums over the terms of PauliSum / LinearCombinationOf* / PauliString (expectation values, matrices, parameter handling) visit every term: a comprehension '
                       'over all terms may only filter on the coefficient, never on the operator part (an empty Pauli string is the identity term, not a vanished one)')
    ctx.rule('C14.l', 'linearity of aggregations: in the linear-combination classes, every comprehension over self / self.items() / self._linear_dict.items() / self.keys() / self.values() '
             'has no `if` clause, or one that reads nothing but the coefficient', floor=12, style='COH')
    ALL = ('self', 'self.items()', 'self._linear_dict.items()', 'self.values()', 'self.keys()', 'self._qubit_pauli_map.items()')
    n = 0
    for cq in ('cirq.ops.linear_combinations.PauliSum', 'cirq.ops.linear_combinations.LinearCombinationOfGates', 'cirq.ops.linear_combinations.LinearCombinationOfOperations',
               'cirq.ops.pauli_string.PauliString'):
        ci = repo.cls(cq)
        for fn in [f for f in ci.node.body if isinstance(f, ast.FunctionDef)]:
            k = 0
            for c in ast.walk(fn):
                if not isinstance(c, (ast.GeneratorExp, ast.ListComp, ast.SetComp, ast.DictComp)):
                    continue
                for g in c.generators:
                    if ast.unparse(g.iter) not in ALL:
                        continue
                    k += 1
                    n += 1
                    coeff = set()
                    if isinstance(g.target, ast.Tuple) and len(g.target.elts) == 2 and isinstance(g.target.elts[1], ast.Name) and ast.unparse(g.iter).endswith('items()') \
                            and '_qubit_pauli_map' not in ast.unparse(g.iter):
                        coeff.add(g.target.elts[1].id)
                    term = {x.id for x in ast.walk(g.target) if isinstance(x, ast.Name)} - coeff
                    bad = []
                    for f_ in g.ifs:
                        for x in ast.walk(f_):
                            if isinstance(x, ast.Name) and x.id in term:
                                # allowed: <term>.coefficient
                                par_ok = any(isinstance(a, ast.Attribute) and a.value is x and a.attr in ('coefficient', '_coefficient') for a in ast.walk(f_))
                                if not par_ok:
                                    bad.append(f_)
                    ok = not bad
                    ctx.ob('C14.l', f'{ci.qual}.{fn.name}:all-terms#{k}', ok, '' if ok else f'`{ast.unparse(c)[:90]}` skips terms by a test on the operator part (`{ast.unparse(bad[0])}`): '
                           'a PauliString without factors is falsy, so the identity term c*I is left out of the sum whatever its coefficient', ci.mod.rel, c.lineno)
    if n == 0:
        raise AnalysisError('C14.l: no aggregation over all terms found')


def _list_multiplication_order(ctx, repo, left_sign):
    """C14.m - multiplying a mutable Pauli string by a collection [A, B, C] multiplies by the product A*B*C on the requested side."""
    import itertools
    ctx.decided.append('C14.m MutablePauliString._imul_helper on a collection: the factors are applied so that the result is (A*B*C)*self or self*(A*B*C) - in list order - for the side the '
                       'sign argument selects (interpreted with a recording atom helper, flat and nested lists)')
    ctx.rule('C14.m', 'collection factor order: interpreting MutablePauliString._imul_helper with `other` a list (also nested) of one-qubit factors on the same qubit and a recording '
             '_imul_atom_helper, the recorded (factor, side) sequence composes to list-order-product x self for the left sign and self x list-order-product for the right sign', floor=6, style='FDX')
    mps = repo.cls('cirq.ops.pauli_string.MutablePauliString')
    fn = repo.method(mps.qual, '_imul_helper')
    params = [a.arg for a in fn.args.args]

    class M:
        _fdx_settable = True

        def __init__(self):
            self.coefficient = 1
            self.word = ['S']     # the string itself, then factors to its left / right

        def _imul_atom_helper(self, key, atom, sign):
            atoms = list(atom) if isinstance(atom, tuple) and atom and atom[0] == '<word>' else [atom]
            atoms = atoms[1:] if atoms and atoms[0] == '<word>' else atoms
            if sign == left_sign:
                self.word = atoms + self.word
            else:
                self.word = self.word + atoms
            return 0

        def items(self):
            w = [x for x in self.word if x != 'S']
            return [('q', tuple(['<word>'] + w))]

    def run(me, other, sign, depth=0):
        def call_hook(call, it):
            s = ast.unparse(call.func)
            if s == 'isinstance':
                v = it.ev(call.args[0])
                t = ast.unparse(call.args[1])
                if 'Mapping' in t:
                    return isinstance(v, (dict, M))
                if 'PauliString' in t and 'Mapping' not in t and 'PauliSum' not in t:
                    return isinstance(v, M)
                if 'numbers' in t:
                    return isinstance(v, (int, float, complex))
                if 'Operation' in t or 'PauliSum' in t or t == 'str':
                    return isinstance(v, str) if t == 'str' else False
                if 'Iterable' in t:
                    return isinstance(v, (list, tuple))
                return NotImplemented
            if s.endswith('_pauli_like_to_pauli_int'):
                return it.ev(call.args[1])
            if s == 'cast':
                return it.ev(call.args[1])
            if s.split('.')[-1] == 'MutablePauliString' and not call.args and not call.keywords:
                return M()
            if isinstance(call.func, ast.Attribute) and call.func.attr == '_imul_helper':
                recv = it.ev(call.func.value)
                if isinstance(recv, M) and depth < 6:
                    return run(recv, it.ev(call.args[0]), it.ev(call.args[1]), depth + 1)
            return NotImplemented

        def attr_hook(node, it):
            try:
                v = it.ev(node.value)
            except fdx.Unsupported:
                return NotImplemented
            if isinstance(v, M) and hasattr(v, node.attr):
                return getattr(v, node.attr)
            return NotImplemented
        it = fdx.NumInterp({params[0]: me, params[1]: other, params[2]: sign}, call_hook=call_hook, attr_hook=attr_hook)
        it.builtins.update({'iter': iter, 'reversed': reversed, 'list': list, 'tuple': tuple, 'len': len})
        return it.call(fn)
    A, B, C = {'q': 'A'}, {'q': 'B'}, {'q': 'C'}
    cases = [('[A,B]', [A, B], ['A', 'B']), ('[A,B,C]', [A, B, C], ['A', 'B', 'C']), ('[[A,B],C]', [[A, B], C], ['A', 'B', 'C']), ('[A,[B,C]]', [A, [B, C]], ['A', 'B', 'C'])]
    for label, other, flat in cases:
        for sign in (left_sign, -left_sign):
            me = M()
            try:
                res = run(me, other, sign)
            except (fdx.Unsupported, fdx.Raised) as ex:
                raise AnalysisError(f'cannot interpret MutablePauliString._imul_helper on a collection: {ex}')
            want = (flat + ['S']) if sign == left_sign else (['S'] + flat)
            ok = res is me and me.word == want
            side = 'left' if sign == left_sign else 'right'
            ctx.ob('C14.m', f'{mps.qual}._imul_helper:{label}:{side}', ok, '' if ok else
                   f'{side}-multiplying S by the collection {label} must give {" ".join(want)}; the factors are applied as {" ".join(me.word)} '
                   '(two anticommuting factors on one qubit then come out with the wrong sign)', mps.mod.rel, fn.lineno)


def _pow_carries_phase(ctx, repo):
    """C14.n - PauliString.__pow__: every result computed for a unit-modulus coefficient uses the phase of that coefficient."""
    from ..flow import PathWalker
    ctx.decided.append('C14.n PauliString.__pow__: after the coefficient has been split into modulus and phase, every return that is not a refusal depends on the phase (the one-qubit shortcut '
                       'as well as the phasor)')
    ctx.rule('C14.n', 'the phase is raised to the power too: in PauliString.__pow__, on every path after `r, phase = cmath.polar(self.coefficient)` each returned value other than '
             'NotImplemented / self depends on `phase`, or sits under a test that the phase is zero - (c P)**t = c**t P**t', floor=2, style='TNT')
    ci = repo.cls('cirq.ops.pauli_string.PauliString')
    fn = ci.methods.get('__pow__')
    if fn is None:
        raise AnalysisError('PauliString.__pow__ vanished')
    split = [a for a in ast.walk(fn) if isinstance(a, ast.Assign) and isinstance(a.targets[0], ast.Tuple) and isinstance(a.value, ast.Call) and (call_name(a.value) or '').endswith('polar')]
    if not split or len(split[0].targets[0].elts) != 2 or not isinstance(split[0].targets[0].elts[1], ast.Name):
        raise AnalysisError('PauliString.__pow__: the polar split of the coefficient vanished')
    ph = split[0].targets[0].elts[1].id
    par = ci.mod.parents()
    from ..flow import dominating_atoms, name_deps
    dep = name_deps(fn, {ph: {'PHASE'}})
    k = 0
    for r in [x for x in ast.walk(fn) if isinstance(x, ast.Return) and x.value is not None and x.lineno > split[0].lineno]:
        txt = ast.unparse(r.value)
        if txt in ('NotImplemented', 'self'):
            continue
        k += 1
        uses = any(isinstance(x, ast.Name) and 'PHASE' in dep.get(x.id, set()) for x in ast.walk(r.value))
        zero_guard = any(pol and isinstance(a, ast.Compare) and isinstance(a.left, ast.Name) and a.left.id == ph and isinstance(a.ops[0], ast.Eq)
                         and isinstance(a.comparators[0], ast.Constant) and a.comparators[0].value == 0 for a, pol in dominating_atoms(par, r, fn))
        ok = uses or zero_guard
        ctx.ob('C14.n', f'{ci.qual}.__pow__:return#{k}', ok, '' if ok else
               f'`return {txt[:70]}` ignores `{ph}`, the phase of the coefficient: (-X)**3 comes out as X, (1j*X)**2 as the identity', ci.mod.rel, r.lineno)
    if k == 0:
        raise AnalysisError('PauliString.__pow__: no return after the polar split')


def _value_operators_do_not_alias(ctx, repo, rid='C14.p'):
    """Operators of the dense Pauli string base class that produce a new value do not hand the new object the receiver's own mask array."""
    ci = repo.cls('cirq.ops.dense_pauli_string.BaseDensePauliString')
    ctx.decided.append(f'{rid} value-producing operators of BaseDensePauliString (-m, c * m, m ** k, abs(m)) give the result a fresh mask array (the mutable subclass keeps the array it is given)')
    ctx.rule(rid, 'a new value owns its data: in the non-in-place operator methods of BaseDensePauliString, a constructor call of the receiver\'s own class (type(self)(...), or a local '
             'bound to type(self)) never receives the bare `self.pauli_mask` - MutableDensePauliString keeps the array it is given, so `n = -m; m *= Z` would change n as well', floor=3, style='EFF')
    n = 0
    operators = {mn for mn in ci.methods if mn.startswith('__') and mn.endswith('__') and not mn.startswith('__i') and mn not in ('__init__', '__getitem__', '__iter__')}
    # private helpers the operators delegate to (an extracted `_times_scalar`) are operators' code too
    helpers = {c.func.attr for mn in operators for c in ast.walk(ci.methods[mn]) if isinstance(c, ast.Call) and isinstance(c.func, ast.Attribute)
               and isinstance(c.func.value, ast.Name) and c.func.value.id == 'self' and c.func.attr in ci.methods and c.func.attr.startswith('_') and not c.func.attr.startswith('__')}
    for mn, fn in sorted(ci.methods.items()):
        if mn not in operators | helpers:
            continue
        cls_locals = {a.targets[0].id for a in ast.walk(fn) if isinstance(a, ast.Assign) and len(a.targets) == 1 and isinstance(a.targets[0], ast.Name)
                      and ast.unparse(a.value) == 'type(self)'}
        for c in ast.walk(fn):
            if not isinstance(c, ast.Call):
                continue
            f = ast.unparse(c.func)
            if not (f == 'type(self)' or f in cls_locals):
                continue
            for k in c.keywords:
                if k.arg != 'pauli_mask':
                    continue
                n += 1
                bare = ast.unparse(k.value) in ('self.pauli_mask', 'self._pauli_mask')
                ctx.ob(rid, f'{ci.qual}.{mn}:pauli_mask@{c.lineno - fn.lineno}', not bare, '' if not bare else
                       f'`{ast.unparse(c)[:80]}` gives the new object the receiver\'s own array: for the mutable subclass both now change together', ci.mod.rel, c.lineno)
    if n == 0:
        raise AnalysisError(f'{rid}: no construction of the receiver\'s class in an operator of BaseDensePauliString')


def _pauli_combination_power(ctx, repo, rid='C14.q'):
    """pow_pauli_combination interpreted on a grid of coefficients against the matrix power."""
    m = repo.module('cirq-core/cirq/linalg/operator_spaces.py')
    fn = m.defs.get('pow_pauli_combination')
    ctx.decided.append(f'{rid} pow_pauli_combination(ai, ax, ay, az, n) are the Pauli coefficients of (ai I + ax X + ay Y + az Z)**n on a grid incl. complex coefficients with (ai+v)**n == (ai-v)**n')
    ctx.rule(rid, 'powers of a one-qubit Pauli combination: interpreting pow_pauli_combination on a grid of real and complex coefficients and exponents 0..6, the returned coefficients '
             'rebuild the n-th matrix power of ai I + ax X + ay Y + az Z - in particular where (ai + v)**n == (ai - v)**n although v != 0 (I + iX to the 4th power is -4 I)', floor=40, style='FDX')
    if not isinstance(fn, ast.FunctionDef):
        raise AnalysisError('operator_spaces.pow_pauli_combination vanished')
    P = [np.eye(2), np.array([[0, 1], [1, 0]]), np.array([[0, -1j], [1j, 0]]), np.array([[1, 0], [0, -1]])]
    params = [a.arg for a in fn.args.args]

    def call_hook(call, it):
        if ast.unparse(call.func) == 'isinstance':
            return False      # the probes are numbers, not sympy expressions
        f = call.func
        if isinstance(f, ast.Attribute) and f.attr == 'item' and not call.args:
            v = it.ev(f.value)
            return v.item() if hasattr(v, 'item') else v
        return NotImplemented
    grid = [(1, 1j, 0, 0), (1, 0, 0, 0), (0, 1, 0, 0), (2, 0.5, -0.25, 1), (0, 1, 1j, 0), (1j, 1, 1, 1), (0.5, 0, 1j, 1), (1, 1, 0, 1j), (-1, 0, 0, 2j), (0, 0, 0, 0), (3, 0, 0, 1e-9)]
    for coeffs in grid:
        for n_ in range(0, 7):
            it = fdx.NumInterp(dict(zip(params, list(coeffs) + [n_])), call_hook=call_hook)
            try:
                got = it.call(fn)
            except (fdx.Unsupported, fdx.Raised) as ex:
                raise AnalysisError(f'cannot interpret pow_pauli_combination: {ex}')
            mat = sum(c * p_ for c, p_ in zip(coeffs, P))
            want = np.linalg.matrix_power(mat, n_)
            try:
                have = sum(complex(c) * p_ for c, p_ in zip(got, P))
                ok = np.allclose(have, want, atol=1e-7 * max(1.0, float(np.abs(want).max())))
            except Exception:
                ok = False
            ctx.ob(rid, f'cirq.linalg.operator_spaces.pow_pauli_combination:{coeffs}**{n_}', ok, '' if ok else
                   f'({coeffs[0]} I + {coeffs[1]} X + {coeffs[2]} Y + {coeffs[3]} Z)**{n_}: returned coefficients {tuple(got)} do not rebuild the matrix power', m.rel, fn.lineno,
                   construct='cirq.linalg.operator_spaces.pow_pauli_combination')
