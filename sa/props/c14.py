"""C14 - Pauli-string algebra and expectation values match their matrices.

Decided exactly (finite tables): every single-qubit Pauli product / phase table the string
classes are built on is the Pauli group's; the integer encodings used by the different
classes agree; the literal eigenprojector table is right; the public in-place
multiplication entry points multiply on the side their name says.
Not decided: multi-qubit bookkeeping, conjugation by Cliffords, expectation values.
"""
from __future__ import annotations

import ast
import itertools

import numpy as np

from ..core import AnalysisError, call_name, dotted, kwarg
from .. import fdx, fold

I2 = np.eye(2, dtype=complex)
PX = np.array([[0, 1], [1, 0]], dtype=complex)
PY = np.array([[0, -1j], [1j, 0]], dtype=complex)
PZ = np.array([[1, 0], [0, -1]], dtype=complex)
MATS = {'I': I2, 'X': PX, 'Y': PY, 'Z': PZ}


def _product(a: str, b: str):
    """(phase, name) with MATS[a] @ MATS[b] == phase * MATS[name]."""
    m = MATS[a] @ MATS[b]
    for nm, q in MATS.items():
        for k in range(4):
            if np.allclose(m, (1j ** k) * q):
                return 1j ** k, nm
    raise AssertionError


def run(ctx):
    repo = ctx.repo
    ctx.decided += [
        'C14.a Pauli.third / relative_index / phased_pauli_product, MutablePauliString._imul_atom_helper and the dense per-term phase '
        'function equal the Pauli group multiplication table (exhaustive over the finite domain)',
        'C14.b integer/character encodings of Paulis agree across PauliString, MutablePauliString and DensePauliString',
        'C14.c PAULI_EIGEN_MAP holds the (+1, -1) eigenprojectors of each Pauli',
        'C14.e in-place multiplication entry points pass the sign of the side their name documents',
        'C14.d parameter/field coherence of Pauli string classes is covered by C10.a / C11',
    ]
    ctx.not_decided += ['multi-qubit bookkeeping of strings and sums', 'conjugation by Clifford operations', 'expectation values', 'phasor decompositions']
    pg = repo.module('cirq-core/cirq/ops/pauli_gates.py')
    ps = repo.module('cirq-core/cirq/ops/pauli_string.py')
    dps = repo.module('cirq-core/cirq/ops/dense_pauli_string.py')
    pauli = repo.cls('cirq.ops.pauli_gates.Pauli')

    # indices of X, Y, Z from the source
    idx = {}
    for cname, nm in (('_PauliX', 'X'), ('_PauliY', 'Y'), ('_PauliZ', 'Z')):
        c = repo.cls(f'cirq.ops.pauli_gates.{cname}')
        init = c.methods.get('__init__')
        if init is None:
            raise AnalysisError(f'{cname}.__init__ vanished')
        for call in ast.walk(init):
            if isinstance(call, ast.Call) and ast.unparse(call.func) == 'Pauli.__init__':
                v = kwarg(call, 'index')
                n_ = kwarg(call, 'name')
                if v is not None:
                    idx[nm] = (ast.literal_eval(v), ast.literal_eval(n_) if n_ is not None else None)
    if set(idx) != {'X', 'Y', 'Z'}:
        raise AnalysisError('Pauli indices not found')
    xyz = pg.defs.get('X'), pg.defs.get('Y'), pg.defs.get('Z')
    # Pauli._XYZ = (X, Y, Z)
    xyz_order = None
    for st in pg.tree.body:
        if isinstance(st, ast.Assign) and ast.unparse(st.targets[0]) == 'Pauli._XYZ':
            xyz_order = [ast.unparse(e) for e in st.value.elts]
    if xyz_order is None:
        raise AnalysisError('Pauli._XYZ assignment vanished')

    ctx.rule('C14.a', 'finite-domain extraction of the single-qubit Pauli product tables against the matrix product of the Pauli matrices', floor=5, style='FDX')
    # objects: {'_index': i, 'name': n}
    objs = {nm: {'_index': idx[nm][0], 'name': nm} for nm in 'XYZ'}
    by_index = {}
    for pos, nm in enumerate(xyz_order):
        by_index[pos] = objs[nm]
    names_ok = all(idx[nm][1] == nm for nm in 'XYZ') and all(by_index[objs[nm]['_index']] is objs[nm] for nm in 'XYZ')
    ctx.ob('C14.a', 'cirq.ops.pauli_gates:index-table', names_ok, '' if names_ok else f'Pauli._XYZ order {xyz_order} disagrees with the _index values {idx}', pg.rel, 1)
    IDENT = {'name': 'I'}

    def run_method(mname, self_obj, args):
        fn = pauli.methods[mname]
        params = [a.arg for a in fn.args.args]
        env = {params[0]: self_obj}
        for p, a in zip(params[1:], args):
            env[p] = a

        def attr_hook(node, it):
            s = ast.unparse(node)
            if s == 'Pauli._XYZ':
                return by_index
            if s in ('identity.I', 'cirq.I'):
                return IDENT
            return NotImplemented

        def call_hook(call, it):
            f = call.func
            if isinstance(f, ast.Name) and f.id == 'cast' and len(call.args) == 2:
                return it.ev(call.args[1])
            if isinstance(f, ast.Attribute) and f.attr in pauli.methods:
                recv = it.ev(f.value)
                return run_method(f.attr, recv, [it.ev(a) for a in call.args])
            return NotImplemented
        it = fdx.Interp(env, {}, None, call_hook, attr_hook)
        return it.call(fn)
    bad = None
    try:
        for a, b in itertools.product('XYZ', repeat=2):
            if a != b:
                t = run_method('third', objs[a], [objs[b]])
                want = ({'X', 'Y', 'Z'} - {a, b}).pop()
                if t is not objs[want]:
                    bad = bad or f'third({a},{b}) = {t.get("name")} (expected {want})'
        for a in 'XYZ':
            for b in 'IXYZ':
                ph, res = run_method('phased_pauli_product', objs[a], [objs[b] if b != 'I' else IDENT])
                wph, wres = _product(a, b)
                if res.get('name') != wres or abs(complex(ph) - wph) > 1e-12:
                    bad = bad or f'phased_pauli_product({a},{b}) = ({ph}, {res.get("name")}) but {a}.{b} = {wph} {wres}'
    except (fdx.Unsupported, fdx.Raised) as ex:
        raise AnalysisError(f'cannot interpret Pauli product methods: {ex}')
    ctx.ob('C14.a', 'cirq.ops.pauli_gates.Pauli:third/phased_pauli_product', bad is None, bad or '', pg.rel, pauli.methods['phased_pauli_product'].lineno)
    # __gt__/__lt__ cyclic order X<Y<Z<X consistent with relative_index
    try:
        ok = True
        for a, b in itertools.product('XYZ', repeat=2):
            ri = run_method('relative_index', objs[a], [objs[b]])
            want = 0 if a == b else (1 if (idx[a][0] - idx[b][0]) % 3 == 1 else -1)
            ok = ok and ri == want
    except (fdx.Unsupported, fdx.Raised) as ex:
        raise AnalysisError(f'relative_index: {ex}')
    ctx.ob('C14.a', 'cirq.ops.pauli_gates.Pauli:relative_index', ok, '' if ok else 'relative_index is not +1/-1/0 on the X->Y->Z cycle', pg.rel, pauli.methods['relative_index'].lineno)

    # encodings ---------------------------------------------------------------
    ctx.rule('C14.b', 'encodings: PAULI_GATE_LIKE_TO_INDEX_MAP maps I,X,Y,Z (gate, upper, lower, int) to 0..3 consistently; _INT_TO_PAULI(_OR_IDENTITY), '
             'dense PAULI_CHARS / PAULI_GATES list the Paulis in that same order', floor=4, style='TBL')
    mp = ps.defs.get('PAULI_GATE_LIKE_TO_INDEX_MAP')
    if not isinstance(mp, ast.Dict):
        raise AnalysisError('PAULI_GATE_LIKE_TO_INDEX_MAP is no longer a literal')
    alias = {'_i': 'I', '_x': 'X', '_y': 'Y', '_z': 'Z'}
    enc = {}
    okm = True
    for k, v in zip(mp.keys, mp.values):
        ks = ast.unparse(k)
        val = ast.literal_eval(v)
        if ks in alias:
            sym = alias[ks]
        elif isinstance(k, ast.Constant) and isinstance(k.value, str):
            sym = k.value.upper()
        elif isinstance(k, ast.Constant) and isinstance(k.value, int):
            sym = None
            okm = okm and k.value == val
            continue
        else:
            okm = False
            continue
        if sym in enc and enc[sym] != val:
            okm = False
        enc.setdefault(sym, val)
    okm = okm and sorted(enc.values()) == [0, 1, 2, 3] and enc.get('I') == 0
    ctx.ob('C14.b', 'cirq.ops.pauli_string:PAULI_GATE_LIKE_TO_INDEX_MAP', okm, '' if okm else f'inconsistent Pauli integer encoding {enc}', ps.rel, mp.lineno)
    order = [k for k, v in sorted(enc.items(), key=lambda kv: kv[1])]
    for name, want in (('_INT_TO_PAULI_OR_IDENTITY', order), ('_INT_TO_PAULI', order[1:])):
        node = ps.defs.get(name)
        got = [alias.get(ast.unparse(e), ast.unparse(e)) for e in node.elts] if isinstance(node, (ast.List, ast.Tuple)) else None
        ctx.ob('C14.b', f'cirq.ops.pauli_string:{name}', got == want, '' if got == want else f'{name} = {got} but the index map orders the Paulis {want}', ps.rel, getattr(node, 'lineno', 1))
    pc = dps.defs.get('PAULI_CHARS')
    pgs = dps.defs.get('PAULI_GATES')
    chars = list(pc.value) if isinstance(pc, ast.Constant) else None
    gates = [ast.unparse(e).split('.')[-1] for e in pgs.elts] if isinstance(pgs, (ast.List, ast.Tuple)) else None
    ok = chars == order and gates == order
    ctx.ob('C14.b', 'cirq.ops.dense_pauli_string:PAULI_CHARS/PAULI_GATES', ok, '' if ok else f'dense encoding chars={chars} gates={gates} differs from {order}', dps.rel, getattr(pc, 'lineno', 1))

    # _imul_atom_helper ------------------------------------------------------
    mps = repo.cls('cirq.ops.pauli_string.MutablePauliString')
    h = mps.methods.get('_imul_atom_helper')
    if h is None:
        raise AnalysisError('_imul_atom_helper vanished')
    name_of = {v: k for k, v in enc.items()}
    left_sign = None
    bad = None
    try:
        for sign in (+1, -1):
            for lhs, old in itertools.product(range(4), repeat=2):
                store = {'k': old} if old else {}

                def call_hook(call, it, store=store):
                    f = call.func
                    if isinstance(f, ast.Attribute) and f.attr == 'pop' and 'pauli_int_dict' in ast.unparse(f.value):
                        return store.pop('k', it.ev(call.args[1]) if len(call.args) > 1 else None)
                    return NotImplemented

                def cell_key(node, it):
                    if 'pauli_int_dict' in ast.unparse(node.value):
                        return 'cell'
                    return None
                cells = {'cell': None}
                it = fdx.Interp({'self': {}, 'key': 'k', 'pauli_lhs': lhs, 'sign': sign}, cells, cell_key, call_hook)
                ret = it.call(h)
                new = cells['cell'] if cells['cell'] is not None else 0
                ph_l, res_l = _product(name_of[lhs], name_of[old])      # lhs . old
                want_new = enc[res_l]
                if new != want_new:
                    bad = bad or f'pauli {name_of[lhs]} into {name_of[old]} stores {new} (expected {want_new})'
                eps_l = {1: 0, 1j: 1, -1: 2, -1j: 3}[complex(round(ph_l.real), round(ph_l.imag))]
                # which side does `sign` mean?  ret == sign*eps(lhs.old) mod 4  -> sign means left-multiplication
                if lhs and old and lhs != old:
                    if (ret - sign * (1 if eps_l == 1 else -1)) % 4 == 0:
                        side = 'left'
                    elif (ret + sign * (1 if eps_l == 1 else -1)) % 4 == 0:
                        side = 'right'
                    else:
                        bad = bad or f'phase exponent {ret} for {name_of[lhs]},{name_of[old]},sign={sign} is neither product order'
                        continue
                    s_left = +1 if side == 'left' else -1   # ret == sign * eps(lhs.old): sign=+1 is left-multiplication
                    if left_sign is None:
                        left_sign = s_left
                    elif left_sign != s_left:
                        bad = bad or 'the sign convention is not uniform over the table'
                elif ret != 0:
                    bad = bad or f'non-zero phase {ret} for commuting pair {name_of[lhs]},{name_of[old]}'
    except (fdx.Unsupported, fdx.Raised) as ex:
        raise AnalysisError(f'cannot interpret _imul_atom_helper: {ex}')
    ctx.ob('C14.a', 'cirq.ops.pauli_string.MutablePauliString._imul_atom_helper', bad is None, bad or '', ps.rel, h.lineno)

    # dense per-term phase ------------------------------------------------------
    vf = dps.defs.get('_vectorized_pauli_mul_phase')
    if vf is None:
        raise AnalysisError('_vectorized_pauli_mul_phase vanished')
    bad = None
    try:
        for lhs, rhs in itertools.product(range(4), repeat=2):
            env = {'lhs': lhs, 'rhs': rhs}

            def call_hook(call, it):
                s = ast.unparse(call.func)
                if s == 'np.array':
                    return int(it.ev(call.args[0]))
                if s == 'np.sum':
                    return it.ev(call.args[0])
                if s.endswith('.item'):
                    return it.ev(call.func.value)
                return NotImplemented
            it = fdx.Interp(env, {}, None, call_hook)
            got = it.call(vf)
            want, _ = _product(name_of[lhs], name_of[rhs])
            if abs(complex(got) - want) > 1e-12:
                bad = bad or f'phase({name_of[lhs]}.{name_of[rhs]}) = {got} (expected {want})'
    except (fdx.Unsupported, fdx.Raised) as ex:
        raise AnalysisError(f'cannot interpret _vectorized_pauli_mul_phase: {ex}')
    ctx.ob('C14.a', 'cirq.ops.dense_pauli_string._vectorized_pauli_mul_phase', bad is None, bad or '', dps.rel, vf.lineno)

    # PAULI_EIGEN_MAP -----------------------------------------------------------
    ctx.rule('C14.c', 'PAULI_EIGEN_MAP[P] = (projector onto the +1 eigenspace of P, projector onto the -1 eigenspace)', floor=3, style='TBL')
    pim = repo.module('cirq-core/cirq/ops/pauli_interaction_gate.py')
    em = pim.defs.get('PAULI_EIGEN_MAP')
    if not isinstance(em, ast.Dict):
        raise AnalysisError('PAULI_EIGEN_MAP is no longer a literal dict')
    for k, v in zip(em.keys, em.values):
        nm = ast.unparse(k).split('.')[-1]
        try:
            pr = fold.fold(v)
        except fold.NotLiteral as ex:
            raise AnalysisError(f'PAULI_EIGEN_MAP[{nm}] not literal: {ex}')
        plus, minus = np.array(pr[0], dtype=complex), np.array(pr[1], dtype=complex)
        P = MATS[nm]
        ok = np.allclose(plus, (I2 + P) / 2) and np.allclose(minus, (I2 - P) / 2)
        ctx.ob('C14.c', f'PAULI_EIGEN_MAP[{nm}]', ok, '' if ok else f'entries are not ((I+{nm})/2, (I-{nm})/2)', pim.rel, v.lineno)

    # in-place multiplication entry points ---------------------------------------
    ctx.rule('C14.e', 'MutablePauliString.inplace_left_multiply_by passes the sign that _imul_atom_helper treats as left-multiplication and '
             'inplace_right_multiply_by the opposite one', floor=2, style='COH')
    if left_sign is None:
        raise AnalysisError('could not determine the sign convention of _imul_atom_helper')
    for mn, want in (('inplace_left_multiply_by', left_sign), ('inplace_right_multiply_by', -left_sign)):
        fn = mps.methods.get(mn)
        if fn is None:
            raise AnalysisError(f'{mn} vanished')
        calls = [c for c in ast.walk(fn) if isinstance(c, ast.Call) and call_name(c) in ('_imul_helper_checkpoint', '_imul_helper')]
        if not calls:
            raise AnalysisError(f'{mn}: helper call vanished')
        try:
            got = ast.literal_eval(calls[0].args[1])
        except Exception:
            got = None
        side = mn.split('_')[1]
        ctx.ob('C14.e', f'cirq.ops.pauli_string.MutablePauliString.{mn}', got == want,
               '' if got == want else f'{mn} passes sign {got:+d}, which the atom helper implements as {"left" if got == left_sign else "right"}-multiplication: '
               f'the {side}-multiply entry point multiplies on the other side', ps.rel, fn.lineno)
