"""C07 - hardware compilation: output is native, equivalent, routable and validated.

Decided: every device validator tests gateset AND (every) qubit AND (where the device has the
notion) pairs/distances, each with a raising arm; overriding validators call super(); the
router emits two-qubit operations only under an adjacency test and keeps its two maps in step
with each emitted swap; the compile loop decides "done" with the target's own validate and
raises when stuck unless failures are ignored; target gatesets keep their options in
equality/JSON.  Not decided: unitary equivalence, optimality, that decomposers only emit
accepted gates.
"""
from __future__ import annotations

import ast
import re

from ..core import AnalysisError, call_name, dotted, func_params, is_self_attr, kwarg
from ..flow import dominating_atoms, enclosing_loops, block_of, enclosing_tests, always_raises
from .. import coh
from .. import fields as F
from . import shared

VALIDATORS = [
    ('cirq_google.devices.grid_device.GridDevice', '_validate_operations', True),
    ('cirq_aqt.aqt_device.AQTDevice', 'validate_operation', False),
    ('cirq_ionq.ionq_devices.IonQAPIDevice', 'validate_operation', False),
    ('cirq_pasqal.pasqal_device.PasqalDevice', 'validate_operation', False),
]


def _raise_contexts(mod, fn):
    """For every `raise` in fn: (raise node, [(atom src, polarity, atom node)], enclosing loop iter sources)."""
    parents = mod.parents()
    out = []
    for r in [n for n in ast.walk(fn) if isinstance(n, ast.Raise)]:
        atoms = dominating_atoms(parents, r, fn)
        loops = [ast.unparse(l.iter) for l in enclosing_loops(parents, r, fn)]
        out.append((r, atoms, loops))
    return out


def _quantifier(atom, pol, loops):
    """Classify a qubit-membership rejection test: 'universal' (rejects if ANY qubit is off the device),
    'existential' (rejects only if NO qubit is on it) or None when the atom is not a qubit test."""
    src = ast.unparse(atom)
    if isinstance(atom, ast.Compare) and len(atom.ops) == 1 and isinstance(atom.ops[0], (ast.NotIn, ast.In)):
        notin = (isinstance(atom.ops[0], ast.NotIn) and pol) or (isinstance(atom.ops[0], ast.In) and not pol)
        if notin and isinstance(atom.left, ast.Name) and any('.qubits' in l or 'qubits' in l for l in loops):
            return 'universal'
    if isinstance(atom, ast.Call) and isinstance(atom.func, ast.Attribute):
        a = atom.func.attr
        if a == 'issubset' and not pol:
            return 'universal'
        if a == 'intersection' and not pol:
            return 'existential'
        if a == 'isdisjoint' and pol:
            return 'existential'
    if isinstance(atom, ast.Compare) and isinstance(atom.ops[0], ast.LtE) and not pol and 'set(' in src:
        return 'universal'
    if isinstance(atom, ast.Call) and isinstance(atom.func, ast.Name) and atom.func.id in ('all', 'any') and atom.args:
        inner = ast.unparse(atom.args[0])
        if atom.func.id == 'all' and not pol and ' in ' in inner and ' not in ' not in inner:
            return 'universal'
        if atom.func.id == 'any' and pol and ' not in ' in inner:
            return 'universal'
        if atom.func.id == 'any' and not pol and ' in ' in inner and ' not in ' not in inner:
            return 'existential'
    return None


def run(ctx):
    repo = ctx.repo
    _gateset_fallback_is_exhaustive(ctx, repo)
    from . import shared as _sh
    _sh.measurement_rebuild_rule(ctx, 'C07.k', ['cirq-core/cirq/transformers/', 'cirq-google/cirq_google/transformers/', 'cirq-core/cirq/devices/'])
    ctx.decided += [
        'C07.a device validators: gateset test, universally quantified qubit test, pair/distance test where applicable, super() chaining',
        'C07.b router: mapped two-qubit ops appended only under is_adjacent; every emitted swap is applied to the mapping; both maps updated together under an adjacency check',
        'C07.c compile loop: keep= the gateset\'s own validate; stuck operations raise unless ignore_failures; pre/decompose/post order and context forwarding',
        'C07.d target gatesets keep every stored option in equality / repr / JSON',
    ]
    ctx.not_decided += ['unitary equivalence of compiled circuits', 'that decomposers emit only accepted gates', 'routing optimality', 'device specification semantics']

    # ------------------------------------------------------------------ C07.a
    ctx.rule('C07.a', 'a device validator rejects (raise ValueError) an operation outside the gateset, an operation with ANY qubit off the '
             'device (universal quantifier), and - for devices with pairs - a two-qubit operation on a non-pair; overriding validators '
             'call the super() method', floor=14, style='MPT')
    for cq, mn, has_pairs in VALIDATORS:
        ci = repo.cls(cq)
        fn = repo.method(cq, mn)
        rcs = _raise_contexts(ci.mod, fn)
        key = f'{cq}.{mn}'
        # gateset
        gate_ok = False
        for r, atoms, loops in rcs:
            for a, pol in atoms:
                s = ast.unparse(a)
                if ('gateset' in s or 'is_api_gate' in s or 'is_pasqal_device_op' in s) and (
                        (isinstance(a, ast.Compare) and isinstance(a.ops[0], ast.NotIn) and pol) or
                        (isinstance(a, ast.Compare) and isinstance(a.ops[0], ast.In) and not pol) or
                        (isinstance(a, ast.Call) and not pol)):
                    gate_ok = True
        if not gate_ok:
            # delegation: self.validate_gate(op.gate) that itself raises under a gateset test
            for c in ast.walk(fn):
                if isinstance(c, ast.Call) and isinstance(c.func, ast.Attribute) and is_self_attr(c.func) and c.func.attr.startswith('validate_'):
                    sub = repo.find_method(ci, c.func.attr)
                    if sub:
                        for r, atoms, loops in _raise_contexts(sub[0].mod, sub[1]):
                            if any('gateset' in ast.unparse(a) for a, pol in atoms):
                                gate_ok = True
        ctx.ob('C07.a', key + ':gateset-test', gate_ok, '' if gate_ok else 'validator does not reject operations outside the device gateset', ci.mod.rel, fn.lineno)
        # no bypass: the gateset test is evaluated for every operation (not skipped under a memo / earlier condition)
        parents_ = ci.mod.parents()
        for r, atoms, loops in rcs:
            enc = enclosing_tests(parents_, r, fn)
            gs = [(t, pol, owner) for t, pol, owner in enc if ('gateset' in ast.unparse(t) or 'is_api_gate' in ast.unparse(t) or 'is_pasqal_device_op' in ast.unparse(t))]
            if not gs:
                continue
            others = [(t, pol, owner) for t, pol, owner in enc if (t, pol, owner) not in gs]
            bypass = []
            for t, pol, owner in others:
                other_branch = owner.orelse if pol else owner.body
                if not (other_branch and always_raises(other_branch)):
                    bypass.append(ast.unparse(t) if pol else f'not ({ast.unparse(t)})')
            ctx.ob('C07.a', key + ':gateset-test:every-operation', not bypass,
                   '' if not bypass else f'the gateset membership test only runs when `{bypass[0]}`: operations for which that is false are accepted without being looked up in the gateset',
                   ci.mod.rel, r.lineno)
        # qubits
        quants = []
        for r, atoms, loops in rcs:
            for a, pol in atoms:
                s = ast.unparse(a)
                if 'qubit' in s.lower() or any('qubits' in l for l in loops):
                    q = _quantifier(a, pol, loops)
                    if q and ('qubit' in s.lower() or 'self.qubits' in s or 'qubit_set' in s or q == 'universal'):
                        if 'isinstance' in s or 'pairs' in s:
                            continue
                        quants.append((q, s, r.lineno))
        uni = [q for q in quants if q[0] == 'universal']
        exi = [q for q in quants if q[0] == 'existential']
        ok = bool(uni)
        msg = ''
        if not ok:
            msg = ('qubit test is existential (`' + exi[0][1] + '`): an operation is rejected only if NONE of its qubits is on the device, '
                   'so an operation touching one device qubit and one foreign qubit is accepted') if exi else 'validator has no test that every qubit of the operation is on the device'
        ctx.ob('C07.a', key + ':qubit-test-universal', ok, msg, ci.mod.rel, (exi[0][2] if exi and not ok else fn.lineno))
        if has_pairs:
            # the pair test must be about the operation's own qubit tuple, not about a coupler element of it
            params_ = set(func_params(fn)) - {'self'}
            opvars = set(params_)
            for l in ast.walk(fn):
                if isinstance(l, ast.For) and isinstance(l.target, ast.Name) and {n.id for n in ast.walk(l.iter) if isinstance(n, ast.Name)} & params_:
                    opvars.add(l.target.id)
            whole = set()
            for st in ast.walk(fn):
                if isinstance(st, ast.Assign) and isinstance(st.targets[0], ast.Name) and isinstance(st.value, ast.Attribute) and st.value.attr == 'qubits' \
                        and isinstance(st.value.value, ast.Name) and st.value.value.id in opvars:
                    whole.add(st.targets[0].id)

            def about_op_qubits(e):
                for n in ast.walk(e):
                    if isinstance(n, ast.Name) and n.id in whole:
                        return True
                    if isinstance(n, ast.Attribute) and n.attr == 'qubits' and isinstance(n.value, ast.Name) and n.value.id in opvars:
                        return True
                return False
            pair_ok = any(any('pairs' in ast.unparse(a) and isinstance(a, ast.Compare) and isinstance(a.ops[0], ast.NotIn) and pol and about_op_qubits(a.left)
                              for a, pol in atoms) for r, atoms, loops in rcs)
            ctx.ob('C07.a', key + ':pair-test', pair_ok, '' if pair_ok else 'validator does not reject two-qubit operations on qubit pairs that are not coupled', ci.mod.rel, fn.lineno)
            # the gateset looks inside sub-circuits (Gateset unrolls CircuitOperations): the pair test must reach the operations inside as well,
            # unless the validator refuses everything that is not a plain gate operation
            refuses_nongate = any(any(isinstance(a, ast.Call) and call_name(a) == 'isinstance' and 'GateOperation' in ast.unparse(a) and not pol for a, pol in atoms) for r, atoms, loops in rcs)
            recurses = False
            for i_ in ast.walk(fn):
                if isinstance(i_, ast.If) and any(isinstance(c, ast.Call) and call_name(c) == 'isinstance' and 'CircuitOperation' in ast.unparse(c) for c in ast.walk(i_.test)):
                    for c in ast.walk(ast.Module(body=i_.body, type_ignores=[])):
                        if isinstance(c, ast.Call) and isinstance(c.func, ast.Attribute) and is_self_attr(c.func) and c.func.attr in (mn, 'validate_operation', 'validate_circuit', '_validate_operations') \
                                and any(isinstance(x, ast.Attribute) and x.attr in ('mapped_circuit', 'circuit', 'mapped_op') for a_ in c.args for x in ast.walk(a_)):
                            recurses = True
            ok_n = refuses_nongate or recurses
            ctx.ob('C07.a', key + ':pair-test:inside-sub-circuits', ok_n, '' if ok_n else
                   'the gateset test accepts a CircuitOperation by looking at the operations inside it, but the pair test only sees the outer operation: a two-qubit gate on an uncoupled pair '
                   'passes validation once wrapped in a sub-circuit that touches a third qubit', ci.mod.rel, fn.lineno)
    # GridDevice entry points funnel into _validate_operations
    gd = repo.cls('cirq_google.devices.grid_device.GridDevice')
    for mn in ('validate_operation', 'validate_circuit'):
        fn = repo.method(gd.qual, mn)
        ok = any(isinstance(c, ast.Call) and call_name(c) == '_validate_operations' for c in ast.walk(fn)) or \
            any(isinstance(c, ast.Call) and isinstance(c.func, ast.Attribute) and isinstance(c.func.value, ast.Call) and call_name(c.func.value) == 'super' for c in ast.walk(fn))
        ctx.ob('C07.a', f'{gd.qual}.{mn}:delegates', ok, '' if ok else f'{mn} no longer runs the operation checks', gd.mod.rel, fn.lineno)
    # overriding validators call super
    for cq, mn in (('cirq_pasqal.pasqal_device.PasqalVirtualDevice', 'validate_operation'), ('cirq_pasqal.pasqal_device.PasqalVirtualDevice', 'validate_moment'),
                   ('cirq_pasqal.pasqal_device.PasqalDevice', 'validate_circuit'), ('cirq_aqt.aqt_device.AQTDevice', 'validate_circuit')):
        ci = repo.cls(cq)
        fn = ci.methods.get(mn)
        if fn is None:
            continue
        ok = any(isinstance(c, ast.Call) and isinstance(c.func, ast.Attribute) and c.func.attr == mn and isinstance(c.func.value, ast.Call)
                 and call_name(c.func.value) == 'super' for c in ast.walk(fn))
        ctx.ob('C07.a', f'{cq}.{mn}:calls-super', ok, '' if ok else f'{mn} overrides the base validator without calling it: the base checks (gateset/qubits) are skipped', ci.mod.rel, fn.lineno)
    # PasqalVirtualDevice distance test
    pv = repo.cls('cirq_pasqal.pasqal_device.PasqalVirtualDevice')
    fn = repo.method(pv.qual, 'validate_operation')
    ok = False
    for r, atoms, loops in _raise_contexts(pv.mod, fn):
        if any('distance' in ast.unparse(a) and 'control_radius' in ast.unparse(a) and isinstance(a, ast.Compare) and isinstance(a.ops[0], ast.Gt) and pol for a, pol in atoms) \
                and sum('qubits' in l for l in loops) >= 2:
            ok = True
    ctx.ob('C07.a', f'{pv.qual}.validate_operation:distance-test', ok, '' if ok else 'controlled operations between qubits further apart than control_radius are not rejected for every pair', pv.mod.rel, fn.lineno)

    # ------------------------------------------------------------------ C07.b
    ctx.rule('C07.b', 'router: a mapped two-qubit op is appended to the output only under mm.is_adjacent(...); every SWAP appended to the output '
             'is followed by mm.apply_swap on the same pair; MappingManager updates both permutation arrays together and only after the '
             'adjacency check', floor=6, style='MPT')
    rc = repo.cls('cirq.transformers.routing.route_circuit_cqc.RouteCQC')
    rfn = repo.method(rc.qual, '_route')
    parents = rc.mod.parents()
    apps = [c for c in ast.walk(rfn) if isinstance(c, ast.Call) and call_name(c) == 'append' and 'routed_ops' in ast.unparse(c.func)]
    if len(apps) < 2:
        raise AnalysisError('RouteCQC._route: routed_ops appends vanished')
    n2 = 0
    for c in apps:
        arg = ast.unparse(c.args[0]) if c.args else ''
        inner = None
        for f in ast.walk(rfn):
            if isinstance(f, ast.FunctionDef) and c in list(ast.walk(f)):
                inner = f
        atoms = dominating_atoms(parents, c, inner or rfn)
        if 'mapped_op' in arg and not isinstance(c.args[0], ast.ListComp):
            n2 += 1
            ok = any(isinstance(a, ast.Call) and call_name(a) == 'is_adjacent' and pol for a, pol in atoms)
            ctx.ob('C07.b', f'{rc.qual}._route:two-qubit-append-under-adjacency', ok,
                   '' if ok else 'a mapped two-qubit operation is emitted without the adjacency test: the routed circuit has operations off the device graph', rc.mod.rel, c.lineno)
        elif 'swap' in arg.lower():
            b = block_of(parents, c)
            after = b[2][b[3] + 1:]
            ok = any(isinstance(s, ast.Expr) and isinstance(s.value, ast.Call) and call_name(s.value) == 'apply_swap' for s in after)
            ctx.ob('C07.b', f'{rc.qual}._route:swap-append-then-apply', ok,
                   '' if ok else 'a SWAP is emitted but the mapping is not updated with it: later operations are mapped with the pre-swap placement', rc.mod.rel, c.lineno)
            # same pair
            sw = None
            for s in b[2][:b[3] + 1] + after:
                for x in ast.walk(s):
                    if isinstance(x, ast.Call) and call_name(x) == 'SWAP':
                        sw = x
            ap = [s.value for s in after if isinstance(s, ast.Expr) and isinstance(s.value, ast.Call) and call_name(s.value) == 'apply_swap']
            if sw is not None and ap:
                v1 = {n.id for n in ast.walk(sw) if isinstance(n, ast.Name)}
                v2 = {n.id for n in ast.walk(ap[0]) if isinstance(n, ast.Name)}
                okp = bool((v1 & v2) - {'mm', 'ops', 'cirq'})
                ctx.ob('C07.b', f'{rc.qual}._route:swap-same-pair', okp, '' if okp else 'the pair applied to the mapping is not the pair of the emitted SWAP', rc.mod.rel, c.lineno)
    if n2 == 0:
        raise AnalysisError('RouteCQC._route: two-qubit append site not recognised')
    # reported final mapping covers every mapped qubit (spectators included)
    rcf = repo.method(rc.qual, 'route_circuit')
    rets = [r for r in ast.walk(rcf) if isinstance(r, ast.Return) and isinstance(r.value, ast.Tuple) and len(r.value.elts) == 3]
    if not rets:
        raise AnalysisError('RouteCQC.route_circuit: 3-tuple return vanished')
    third = rets[0].value.elts[2]
    env = {}
    for n in ast.walk(rcf):
        if isinstance(n, ast.Assign) and isinstance(n.targets[0], ast.Name):
            env[n.targets[0].id] = n.value
    def iter_sources(e, depth=0):
        out = []
        for x in ast.walk(e):
            if isinstance(x, ast.comprehension):
                out.append(ast.unparse(x.iter))
                for nm in ast.walk(x.iter):
                    if isinstance(nm, ast.Name) and nm.id in env and depth < 3:
                        out += iter_sources(env[nm.id], depth + 1)
        if isinstance(e, ast.Name) and e.id in env and depth < 3:
            out += iter_sources(env[e.id], depth + 1)
        return out
    srcs = iter_sources(third)
    ok = any('logical_to_physical' in s_ or 'physical_to_logical' in s_ or s_.startswith('initial_mapping') for s_ in srcs) and \
        not any('all_qubits' in s_ or s_.startswith('circuit') for s_ in srcs)
    ctx.ob('C07.b', f'{rc.qual}.route_circuit:final-mapping-covers-all-mapped-qubits', ok,
           '' if ok else f'the reported qubit permutation is enumerated from {srcs}: logical qubits that are mapped but idle are moved by swaps without being reported',
           rc.mod.rel, rets[0].lineno)
    mmc = repo.cls('cirq.transformers.routing.mapping_manager.MappingManager')
    asw = repo.method(mmc.qual, 'apply_swap')
    stores = {}
    for n in ast.walk(asw):
        if isinstance(n, ast.Subscript) and isinstance(n.ctx, ast.Store) and is_self_attr(n.value):
            stores[n.value.attr] = n
    ok = {'_logical_to_physical', '_physical_to_logical'} <= set(stores)
    ctx.ob('C07.b', f'{mmc.qual}.apply_swap:both-maps', ok, '' if ok else f'apply_swap updates only {sorted(stores)}: the two permutation arrays stop being inverse of each other', mmc.mod.rel, asw.lineno)
    raises = [n for n in ast.walk(asw) if isinstance(n, ast.Raise)]
    first_store = min((n.lineno for n in stores.values()), default=10**9)
    ok = bool(raises) and raises[0].lineno < first_store and any('adjacent' in ast.unparse(a) or 'has_edge' in ast.unparse(a) or 'dist' in ast.unparse(a)
                                                                 for a, pol in dominating_atoms(mmc.mod.parents(), raises[0], asw))
    ctx.ob('C07.b', f'{mmc.qual}.apply_swap:adjacency-check-first', ok, '' if ok else 'apply_swap no longer rejects non-adjacent pairs before permuting', mmc.mod.rel, asw.lineno)
    # the swapped index pairs are mutually reversed
    for f, n in stores.items():
        par = mmc.mod.parents().get(n)
        if isinstance(par, ast.Assign):
            l = ast.unparse(n.slice)
            r = ast.unparse(par.value.slice) if isinstance(par.value, ast.Subscript) else ''
            le = [e.strip() for e in l.strip('[]').split(',')]
            re_ = [e.strip() for e in r.strip('[]').split(',')]
            okx = len(le) == 2 and le == re_[::-1] and ast.unparse(par.value.value) == ast.unparse(n.value)
            ctx.ob('C07.b', f'{mmc.qual}.apply_swap:{f}:exchange', okx, '' if okx else f'`{ast.unparse(par)}` is not an exchange of the two entries', mmc.mod.rel, n.lineno)
    for mn, fn in mmc.methods.items():
        if mn in ('__init__', 'apply_swap'):
            continue
        w = [n for n in ast.walk(fn) if isinstance(n, (ast.Subscript, ast.Attribute)) and isinstance(n.ctx, ast.Store) and
             ('_logical_to_physical' in ast.unparse(n) or '_physical_to_logical' in ast.unparse(n))]
        if w:
            ctx.ob('C07.b', f'{mmc.qual}.{mn}:writes-maps', False, f'{mn} writes the permutation arrays outside apply_swap', mmc.mod.rel, w[0].lineno)

    # ------------------------------------------------------------------ C07.c
    ctx.rule('C07.c', 'compile loop: _decompose_operations_to_target_gateset keeps an operation exactly when the gateset validates it '
             '(keep derives from gateset.validate) and raises on stuck operations unless ignore_failures; optimize_for_target_gateset runs '
             'preprocess, decompose, postprocess in that order and forwards the context', floor=5, style='RG')
    m = repo.module('cirq-core/cirq/transformers/optimize_for_target_gateset.py')
    dec = m.defs.get('_decompose_operations_to_target_gateset')
    opt = m.defs.get('optimize_for_target_gateset')
    if dec is None or opt is None:
        raise AnalysisError('optimize_for_target_gateset functions vanished')
    dcalls = [c for c in ast.walk(dec) if isinstance(c, ast.Call) and call_name(c) == 'decompose']
    if not dcalls:
        raise AnalysisError('_decompose_operations_to_target_gateset: decompose call vanished')
    dc = dcalls[0]
    keep = kwarg(dc, 'keep')
    keep_src = ast.unparse(keep) if keep is not None else ''
    ok = keep is not None and ('gateset.validate' in keep_src or 'in gateset' in keep_src)
    if not ok and isinstance(keep, ast.Name):
        for n in ast.walk(dec):
            if isinstance(n, ast.Assign) and ast.unparse(n.targets[0]) == keep.id and ('gateset.validate' in ast.unparse(n.value) or 'in gateset' in ast.unparse(n.value)):
                ok = True
    ctx.ob('C07.c', 'decompose:keep-is-gateset-validate', ok, '' if ok else f'decomposition stops at `{keep_src}` rather than at what the target gateset accepts', m.rel, dc.lineno)
    osr = kwarg(dc, 'on_stuck_raise')
    osr_src = ast.unparse(osr) if osr is not None else ''
    ok = osr is not None and 'ignore_failures' in osr_src and 'None' in osr_src
    ctx.ob('C07.c', 'decompose:stuck-raises-unless-ignored', ok, '' if ok else f'on_stuck_raise=`{osr_src}`: undecomposable operations are silently kept although failures were not ignored', m.rel, dc.lineno)
    inter = kwarg(dc, 'intercepting_decomposer')
    ok = inter is not None and ('decomposer' in ast.unparse(inter))
    ctx.ob('C07.c', 'decompose:uses-gateset-decomposer', ok, '' if ok else 'the target gateset\'s decomposer is not consulted', m.rel, dc.lineno)
    src_lines = {}
    outer = [l for l in ast.walk(opt) if isinstance(l, ast.For) and any('preprocess_transformers' in ast.unparse(x) for x in l.body)]
    if outer:
        for i, st in enumerate(outer[0].body):
            s_ = ast.unparse(st)
            if isinstance(st, ast.For) and 'preprocess_transformers' in ast.unparse(st.iter):
                src_lines.setdefault('pre', i)
            elif '_decompose_operations_to_target_gateset' in s_ and not isinstance(st, ast.For):
                src_lines.setdefault('dec', i)
            elif isinstance(st, ast.For) and 'postprocess_transformers' in ast.unparse(st.iter):
                src_lines.setdefault('post', i)
    ok = {'pre', 'dec', 'post'} <= set(src_lines) and src_lines['pre'] < src_lines['dec'] < src_lines['post']
    ctx.ob('C07.c', 'optimize:pre-decompose-post-order', ok, '' if ok else f'pipeline stages out of order or missing inside the pass loop: {src_lines}', m.rel, opt.lineno)
    cfw = [c for c in ast.walk(opt) if isinstance(c, ast.Call) and any(k.arg == 'context' for k in c.keywords)]
    ok = len(cfw) >= 2 and all('context' in {x.id for x in ast.walk(kwarg(c, 'context')) if isinstance(x, ast.Name)} for c in cfw)
    ctx.ob('C07.c', 'optimize:context-forwarded', ok, '' if ok else 'the transformer context (tags_to_ignore, deep) is not forwarded to the pipeline stages', m.rel, opt.lineno)

    # ------------------------------------------------------------------ C07.e
    shared.placement_query_rule(ctx, 'C07.h', ['cirq-core/cirq/transformers/routing/', 'cirq-core/cirq/transformers/target_gatesets/', 'cirq-google/cirq_google/transformers/'], floor=1)
    ctx.decided.append('C07.h routing / compilation code schedules operations with the key-aware placement query')
    shared.aqt_single_qubit_shortcut_rule(ctx, 'C07.i')
    ctx.decided.append('C07.i the hard-wired single-qubit replacement of the AQT target gateset equals the gate it replaces (model powers of H)')
    ctx.rule('C07.e', 'body-for-operation substitution: a transformer may treat the body (`.circuit`) of a CircuitOperation as standing for '
             'the operation (expanding it into operations, or handing it to a rewriter as a merged component) only under a test that its '
             'own intermediate/merged tag is on the operation - otherwise repetitions and maps of a user sub-circuit are ignored', floor=4, style='RG')
    from ..flow import name_deps
    SCOPE_E = ('cirq-core/cirq/transformers/', 'cirq-google/cirq_google/transformers/', 'cirq-aqt/', 'cirq-ionq/', 'cirq-pasqal/')
    for m2 in sorted(repo.modules.values(), key=lambda mm_: mm_.rel):
        if not m2.rel.startswith(SCOPE_E) or '.circuit' not in m2.src and 'Callable' not in m2.src:
            continue
        parents2 = m2.parents()
        # body-for-operation: `<u>.circuit` consumed as a sequence of operations, where <u> is derived from `<op>.untagged`
        for fnn2 in [f for f in ast.walk(m2.tree) if isinstance(f, (ast.FunctionDef, ast.AsyncFunctionDef))]:
            cop_params = {a.arg for a in fnn2.args.posonlyargs + fnn2.args.args + fnn2.args.kwonlyargs
                          if a.annotation is not None and ast.unparse(a.annotation).strip('\'"').split('.')[-1] == 'CircuitOperation'}
            if '.circuit' not in ast.unparse(fnn2) or ('untagged' not in ast.unparse(fnn2) and not cop_params):
                continue
            dep = name_deps(fnn2, {}, source_of=lambda x: {'UNTAGGED'} if isinstance(x, ast.Attribute) and x.attr == 'untagged' else None)
            inner_fns = {id(x) for f in ast.walk(fnn2) if f is not fnn2 and isinstance(f, (ast.FunctionDef, ast.AsyncFunctionDef)) for x in ast.walk(f)}
            for n in ast.walk(fnn2):
                if id(n) in inner_fns or not (isinstance(n, ast.Attribute) and n.attr == 'circuit' and isinstance(n.ctx, ast.Load)):
                    continue
                base = n.value
                from_untagged = (isinstance(base, ast.Attribute) and base.attr == 'untagged') or (isinstance(base, ast.Name) and 'UNTAGGED' in dep.get(base.id, set())) \
                    or (isinstance(base, ast.Name) and base.id in cop_params)     # a helper that is handed the (untagged) sub-circuit operation
                if not from_untagged:
                    continue
                par = parents2.get(n)
                consumed = None
                if isinstance(par, ast.Starred):
                    consumed = 'unpacked into a list of operations'
                elif isinstance(par, (ast.For, ast.comprehension)) and par.iter is n:
                    consumed = 'iterated'
                elif isinstance(par, ast.Attribute) and par.attr in ('all_operations', 'moments', 'unfreeze', 'findall_operations') and isinstance(parents2.get(par), ast.Call):
                    consumed = f'read through .{par.attr}()'
                elif isinstance(par, ast.Subscript) and par.value is n:
                    consumed = 'indexed'
                elif isinstance(par, ast.Call) and n in par.args and (call_name(par) or '').split('.')[-1] == 'resolve_parameters':
                    consumed = 'resolved into a circuit of its own'
                if consumed is None:
                    continue
                btxt = ast.unparse(base)
                guards = list(dominating_atoms(parents2, n, fnn2))
                q = n
                while q in parents2 and not isinstance(parents2[q], ast.stmt):
                    pp = parents2[q]
                    if isinstance(pp, ast.BoolOp) and isinstance(pp.op, ast.And) and q in pp.values:
                        guards += [(v, True) for v in pp.values[:pp.values.index(q)]]
                    if isinstance(pp, ast.IfExp) and q is pp.body:
                        guards += [(a_, True) for a_ in (pp.test.values if isinstance(pp.test, ast.BoolOp) and isinstance(pp.test.op, ast.And) else [pp.test])]
                    q = pp
                ok = False
                for a, pol in list(guards):
                    # a named condition (is_merged_component = isinstance(...) and tag in op.tags) stands for its conjuncts
                    if pol and isinstance(a, ast.Name):
                        binds = [s_.value for s_ in ast.walk(fnn2) if isinstance(s_, ast.Assign) and len(s_.targets) == 1 and isinstance(s_.targets[0], ast.Name) and s_.targets[0].id == a.id]
                        if len(binds) == 1:
                            guards += [(v, True) for v in (binds[0].values if isinstance(binds[0], ast.BoolOp) and isinstance(binds[0].op, ast.And) else [binds[0]])]
                for a, pol in guards:
                    if not pol:
                        continue
                    if isinstance(a, ast.Compare) and len(a.ops) == 1 and isinstance(a.ops[0], ast.In) and ast.unparse(a.comparators[0]).endswith('.tags'):
                        ok = True      # the transformer's own tag is on the operation
                    if isinstance(a, ast.Compare) and len(a.ops) == 1 and isinstance(a.ops[0], ast.Eq):
                        l, r = ast.unparse(a.left), a.comparators[0]
                        if l == btxt and isinstance(r, ast.Call) and ast.unparse(r.func).split('.')[-1] == 'CircuitOperation' and len(r.args) == 1 and not r.keywords \
                                and ast.unparse(r.args[0]) == f'{btxt}.circuit':
                            ok = True  # a plain wrapper: equal to CircuitOperation(<its circuit>), so no repetitions / maps / resolver
                ctx.ob('C07.e', f'{m2.name}.{fnn2.name}:body-expansion', ok,
                       '' if ok else f'`{ast.unparse(n)}` is {consumed} in place of the operation without a test of the transformer\'s own tag (`tag in op.tags`) and without a test that '
                       f'the operation is a plain wrapper (`{btxt} == CircuitOperation({btxt}.circuit)`): repetitions, qubit map and resolver of a user sub-circuit are ignored',
                       m2.rel, n.lineno)
        for n in ast.walk(m2.tree):
            # a value handed to a callable that is documented (annotated) to receive a CircuitOperation standing for a merged component
            if isinstance(n, ast.Call) and isinstance(n.func, ast.Name) and n.args:
                chain = []
                fnn = n
                while fnn in parents2:
                    fnn = parents2[fnn]
                    if isinstance(fnn, (ast.FunctionDef, ast.Lambda)):
                        chain.append(fnn)
                cb_params = set()
                co_params = set()
                for f_ in chain:
                    for a_ in f_.args.args + f_.args.kwonlyargs:
                        ann = ast.unparse(a_.annotation) if getattr(a_, 'annotation', None) is not None else ''
                        if re.search(r'Callable\[\[[^\]]*CircuitOperation\]', ann):
                            cb_params.add(a_.arg)
                        elif ann.endswith('CircuitOperation'):
                            co_params.add(a_.arg)
                if n.func.id in cb_params:
                    inner_fn = next((f_ for f_ in chain if isinstance(f_, ast.FunctionDef)), None)
                    dom = dominating_atoms(parents2, n, inner_fn)

                    def _arms(e, guards):
                        if isinstance(e, ast.IfExp):
                            return _arms(e.body, guards + [(e.test, True)]) + _arms(e.orelse, guards + [(e.test, False)])
                        if isinstance(e, ast.Call) and call_name(e) == 'cast' and len(e.args) == 2:
                            return _arms(e.args[1], guards)
                        return [(e, guards)]

                    def _tag_guard(guards):
                        for t_, pol in guards:
                            for a_ in (t_.values if isinstance(t_, ast.BoolOp) and isinstance(t_.op, ast.And) and pol else [t_]):
                                if isinstance(a_, ast.Compare) and len(a_.ops) == 1 and isinstance(a_.ops[0], ast.In) and pol \
                                        and ast.unparse(a_.comparators[0]).endswith('.tags'):
                                    return True
                                if isinstance(a_, ast.Compare) and len(a_.ops) == 1 and isinstance(a_.ops[0], ast.NotIn) and not pol \
                                        and ast.unparse(a_.comparators[0]).endswith('.tags'):
                                    return True
                        return False

                    bad = []
                    for e, guards in _arms(n.args[0], []):
                        fresh = isinstance(e, ast.Call) and ast.unparse(e.func).split('.')[-1] == 'CircuitOperation'
                        passthrough = isinstance(e, ast.Name) and e.id in co_params
                        if not (fresh or passthrough or _tag_guard(guards + list(dom))):
                            bad.append(ast.unparse(e))
                    ok = not bad
                    fname = getattr(inner_fn, 'name', '?')
                    ctx.ob('C07.e', f'{m2.name}.{fname}:{n.func.id}(merged-component)', ok,
                           '' if ok else f'`{bad[0]}` is handed to `{n.func.id}` (documented to receive the CircuitOperation of a merged component) '
                           'without a test that the transformer\'s own tag is on the operation and without wrapping it in a fresh CircuitOperation: '
                           'a user sub-circuit with repetitions / maps is then taken for its body', m2.rel, n.lineno)

    # ------------------------------------------------------------------ C07.d
    ctx.rule('C07.d', 'every CompilationTargetGateset subclass: each constructor option stored on self is read outside __init__ and takes part '
             'in the value (equality) or the JSON/repr of the gateset', floor=8, style='COH')
    base = repo.cls('cirq.transformers.target_gatesets.compilation_target_gateset.CompilationTargetGateset')
    for ci in sorted(repo.subclasses(base), key=lambda c: c.qual):
        if '.contrib.' in ci.qual:
            continue
        init = ci.methods.get('__init__')
        if init is None:
            continue
        stored = F.self_writes(init)
        params = [a.arg for a in init.args.args[1:] + init.args.kwonlyargs]
        p2f = F.init_param_to_field(repo, ci)
        for p in params:
            # fields the option ends up in - stored here or by a base class the option is forwarded to
            own = {f for f in p2f.get(p, set()) if '.' not in f}
            if not own:
                continue
            readers = set()
            for c in repo.mro(ci):
                for mn, fn in c.methods.items():
                    if mn == '__init__':
                        continue
                    if F.self_reads(repo, ci, fn, depth=0) & own:
                        readers.add(mn)
            ok = bool(readers)
            ctx.ob('C07.d', f'{ci.qual}:{p}:used', ok, '' if ok else f'option `{p}` is stored in {sorted(own)} but never read: it has no effect on compilation', ci.mod.rel, init.lineno)
            desc = readers & {'_value_equality_values_', '__repr__', '_json_dict_', '__eq__'}
            okd = bool(desc) or not ok
            ctx.ob('C07.d', f'{ci.qual}:{p}:in-value', okd, '' if okd else f'option `{p}` affects compilation ({sorted(readers)}) but is absent from equality/repr/JSON: two gatesets compiling differently compare equal', ci.mod.rel, init.lineno)

    _sycamore_dispatch_rule(ctx, repo)
    _pasqal_distance_rule(ctx, repo)


def _sycamore_dispatch_rule(ctx, repo):
    """C07.g - the known-gate fast path of the Sycamore compiler, by interpretation of the dispatcher on model gates."""
    import numpy as np
    from .. import fdx
    from . import c03, decomp
    ctx.decided.append('C07.g known_2q_op_to_sycamore_operations (interpreted on model gates): a tabulated fixed decomposition (CZ, SWAP, ISWAP) is chosen only for exponents at which '
                       'the gate equals the tabulated gate up to global phase (the family\'s own eigen-shifts decide), and parametrised helpers receive this gate\'s angle')
    ctx.rule('C07.g', 'Sycamore known-gate dispatch: for every probe exponent, if the dispatcher hands back the precomputed decomposition of G**1 then G**e == G**1 up to global phase; '
             'the cphase / rzz helpers are called with e*pi resp. e*pi/2', floor=30, style='FDX')
    m = repo.module('cirq-google/cirq_google/transformers/analytical_decompositions/two_qubit_to_sycamore.py')
    fn = m.defs.get('known_2q_op_to_sycamore_operations')
    if not isinstance(fn, ast.FunctionDef):
        raise AnalysisError('known_2q_op_to_sycamore_operations vanished')

    class Gm:
        def __init__(self, names, **attrs):
            self.names = names
            self.__dict__.update(attrs)

    class Lib:
        """stands for a library gate / op expression that is only passed through"""
        def __init__(self, what):
            self.what = what

        def __call__(self, *a):
            return Lib(f'{self.what}({",".join(map(str, a))})')

        def __pow__(self, e):
            return Lib(f'{self.what}**{e}')

    FAMILIES = {
        'CZPowGate': ('cirq.ops.common_gates.CZPowGate', {'_decompose_cz_into_syc'}),
        'SwapPowGate': ('cirq.ops.swap_gates.SwapPowGate', {'_decompose_swap_into_syc'}),
        'ISwapPowGate': ('cirq.ops.swap_gates.ISwapPowGate', {'_decompose_iswap_into_syc'}),
        'CNotPowGate': ('cirq.ops.common_gates.CXPowGate', set()),
        'ZZPowGate': ('cirq.ops.parity_gates.ZZPowGate', set()),
    }
    ALIASES = {'CNotPowGate': {'CNotPowGate', 'CXPowGate'}}
    comps = {}

    def same_up_to_phase(qual, e):
        if qual not in comps:
            comps[qual], _ = c03._components(repo, repo.cls(qual), 2)
        u = sum(np.exp(1j * np.pi * e * t) * mtx for t, mtx in comps[qual])
        v = sum(np.exp(1j * np.pi * 1 * t) * mtx for t, mtx in comps[qual])
        k = np.argmax(np.abs(v))
        ph = u.flat[k] / v.flat[k]
        return abs(abs(ph) - 1) < 1e-9 and np.allclose(u, ph * v, atol=1e-9)
    PROBES = (1, -1, 3, 5, 2, 0, 0.5, -3, 7)
    for fam, (qual, fixed) in FAMILIES.items():
        for e in PROBES:
            names = ALIASES.get(fam, {fam})
            g = Gm(names, exponent=e, _exponent=e, global_shift=0.0, phase_exponent=0.0)
            op = {'gate': g, 'qubits': ('q0', 'q1'), 'untagged': Gm({'GateOperation'}), 'tags': ()}
            called = []

            def call_hook(call, it):
                s = ast.unparse(call.func)
                last = s.split('.')[-1]
                if last in ('has_unitary',):
                    return True
                if last == 'num_qubits':
                    return 2
                if last.startswith('_decompose_') or last in ('_rzz', '_swap_rzz'):
                    args = [it.ev(a) for a in call.args]
                    called.append((last, args))
                    return ('helper', last)
                return NotImplemented

            def attr_hook(node, it):
                if isinstance(node.value, ast.Name) and node.value.id == 'cirq':
                    if not node.attr[0].isupper():
                        return NotImplemented          # protocol functions are answered by the call hook
                    return node.attr if node.attr.endswith(('Gate', 'Operation')) else Lib('cirq.' + node.attr)
                return NotImplemented

            def isinst(v, t):
                ts = t if isinstance(t, tuple) else (t,)
                return isinstance(v, Gm) and any(x in v.names for x in ts if isinstance(x, str))
            it = fdx.NumInterp({'op': op, 'isinstance': isinst}, call_hook=call_hook, attr_hook=attr_hook)
            orig_attr = it.attr_hook

            def attr2(node, itp, _o=orig_attr):
                r = _o(node, itp)
                if r is not NotImplemented:
                    return r
                try:
                    v = itp.ev(node.value)
                except fdx.Unsupported:
                    return NotImplemented
                if isinstance(v, (Gm, Lib)) and hasattr(v, node.attr):
                    return getattr(v, node.attr)
                return NotImplemented
            it.attr_hook = attr2
            it.resolver = c03.make_resolver(repo, m, fn)      # module-level predicates (helper guards) are interpreted too
            try:
                it.call(fn)
            except fdx.Unsupported as ex:
                raise AnalysisError(f'known_2q_op_to_sycamore_operations is outside the interpretable subset: {ex}')
            key = f'sycamore-known-gate:{fam}:e={e}'
            ok, msg = True, ''
            for h, args in called:
                if h in fixed and not same_up_to_phase(qual, e):
                    ok = False
                    msg = f'{fam}**{e} is compiled with the precomputed decomposition of {fam}**1 ({h}), but the two gates differ by more than a global phase'
                if h == '_decompose_cphase_into_syc' and fam in ('CZPowGate', 'CNotPowGate') and abs(float(args[0]) - e * np.pi) > 1e-9:
                    ok = False
                    msg = f'{fam}**{e}: cphase helper called with angle {args[0]} instead of {e}*pi'
                if h == '_rzz' and abs(float(args[0]) - e * np.pi / 2) > 1e-9:
                    ok = False
                    msg = f'{fam}**{e}: rzz helper called with angle {args[0]} instead of {e}*pi/2'
            if e == 1 and not called:
                raise AnalysisError(f'C07.g: the dispatcher interpretation did not reach any helper for {fam}**1 (model out of date)')
            ctx.ob('C07.g', key, ok, msg, m.rel, fn.lineno, construct=f'sycamore-known-gate:{fam}')


def _pasqal_distance_rule(ctx, repo):
    """C07.f - the distance the Pasqal virtual device compares with control_radius is the Euclidean distance of the qubit coordinates."""
    import numpy as np
    from .. import fdx
    ctx.decided.append('C07.f PasqalVirtualDevice.distance (interpreted on model qubits of every supported kind) is the Euclidean distance of the coordinates, '
                       'and ThreeDQubit.distance likewise: the pair test `distance > control_radius` is about the real geometry')
    ctx.rule('C07.f', 'device geometry: distance(p, q) == sqrt(sum of squared coordinate differences) for grid, line, 2-d and 3-d qubits at probe positions '
             '(including atoms that differ only in z)', floor=8, style='FDX')
    dev = repo.cls('cirq_pasqal.pasqal_device.PasqalVirtualDevice')
    fn = dev.methods.get('distance')
    if fn is None:
        raise AnalysisError('PasqalVirtualDevice.distance vanished')

    class Qm:
        def __init__(self, kind, **c):
            self.kind = kind
            self.__dict__.update(c)
            self.coords = c
    KINDS = {'GridQubit': {'GridQubit'}, 'LineQubit': {'LineQubit'}, 'TwoDQubit': {'TwoDQubit', 'ThreeDQubit'}, 'ThreeDQubit': {'ThreeDQubit'}}

    def mk(kind, *v):
        if kind == 'GridQubit':
            return Qm(kind, row=v[0], col=v[1])
        if kind == 'LineQubit':
            return Qm(kind, x=v[0])
        if kind == 'TwoDQubit':
            return Qm(kind, x=v[0], y=v[1], z=0)
        return Qm(kind, x=v[0], y=v[1], z=v[2])
    probes = [('GridQubit', (0, 0), (3, 4)), ('GridQubit', (2, 5), (2, 1)), ('LineQubit', (1,), (7,)), ('LineQubit', (4,), (4,)),
              ('TwoDQubit', (0.5, 1.5), (3.5, 5.5)), ('ThreeDQubit', (0, 0, 0), (1, 2, 2)), ('ThreeDQubit', (0.5, 0.5, 1.0), (0.5, 0.5, -2.0)),
              ('ThreeDQubit', (0, 0, 0), (0.5, 0.5, 1.0)), ('ThreeDQubit', (1, 1, 3), (1, 2, 3))]

    def run_one(owner_fn, env, extra_hook=None):
        def call_hook(call, it):
            s = ast.unparse(call.func)
            if s.endswith('qubit_list'):
                return [env['p'], env['q']] if 'p' in env else []
            if extra_hook is not None:
                return extra_hook(call, it)
            return NotImplemented

        def isinst(v, t):
            ts = t if isinstance(t, tuple) else (t,)
            return isinstance(v, Qm) and any(x in KINDS[v.kind] for x in ts)

        def attr_hook(node, it):
            if isinstance(node.value, ast.Name) and node.value.id in env and isinstance(env[node.value.id], Qm) and hasattr(env[node.value.id], node.attr):
                return getattr(env[node.value.id], node.attr)
            return NotImplemented
        e2 = dict(env)
        e2['isinstance'] = isinst
        for k in ('GridQubit', 'LineQubit', 'TwoDQubit', 'ThreeDQubit'):
            e2[k] = k
        it = fdx.NumInterp(e2, call_hook=call_hook, attr_hook=attr_hook)
        try:
            return it.call(owner_fn)
        except fdx.Unsupported as ex:
            raise AnalysisError(f'{owner_fn.name} is outside the interpretable subset: {ex}')
    for kind, a, b in probes:
        p, q = mk(kind, *a), mk(kind, *b)
        want = float(np.sqrt(sum((p.coords[c] - q.coords[c]) ** 2 for c in p.coords)))
        got = run_one(fn, {'self': {'qubits': [p, q]}, 'p': p, 'q': q})
        ok = got is not None and abs(float(got) - want) < 1e-9
        ctx.ob('C07.f', f'{dev.qual}.distance:{kind}:{a}-{b}', ok, '' if ok else f'distance of {kind}{a} and {kind}{b} is computed as {got} (Euclidean distance {want:.6f}): '
               'atoms further apart than control_radius pass the pair test', dev.mod.rel, fn.lineno, construct=f'{dev.qual}.distance:{kind}')
    tq = repo.cls('cirq_pasqal.pasqal_qubits.ThreeDQubit')
    tfn = tq.methods.get('distance')
    if tfn is None:
        raise AnalysisError('ThreeDQubit.distance vanished')
    for a, b in (((0, 0, 0), (1, 2, 2)), ((0.5, 0.5, 1.0), (0.5, 0.5, -2.0))):
        p, q = mk('ThreeDQubit', *a), mk('ThreeDQubit', *b)
        want = float(np.sqrt(sum((p.coords[c] - q.coords[c]) ** 2 for c in p.coords)))
        got = run_one(tfn, {'self': p, 'other': q, 'sqrt': np.sqrt})
        ok = got is not None and abs(float(got) - want) < 1e-9
        ctx.ob('C07.f', f'{tq.qual}.distance:{a}-{b}', ok, '' if ok else f'ThreeDQubit.distance gives {got}, Euclidean distance is {want:.6f}', tq.mod.rel, tfn.lineno,
               construct=f'{tq.qual}.distance')


def _gateset_fallback_is_exhaustive(ctx, repo, rid='C07.j'):
    """Gateset.__contains__: the final, exhaustive search ranges over the complete family collection, not over an index keyed by gate."""
    ci = repo.cls('cirq.ops.gateset.Gateset')
    ctx.decided.append(f'{rid} the exhaustive fallback of Gateset.__contains__ iterates a field that holds every family handed to the constructor (never the values of an index keyed by gate)')
    ctx.rule(rid, 'exhaustive fallback over all families: the families iterated by the last resort of Gateset.__contains__ come from a field that __init__ assigns from the complete list of '
             'families (frozenset / tuple / list of it); the per-gate indexes (`self.<d>[g.gate] = g`) keep one family per gate, so two families of the same gate - the phase-ignoring '
             'and the exact CZ of every Google GridDevice - collapse and an operation one of them accepts is refused', floor=1, style='EFF')
    init, cont = ci.methods.get('__init__'), ci.methods.get('__contains__')
    if init is None or cont is None:
        raise AnalysisError('Gateset.__init__ / __contains__ vanished')

    def is_self_attr(t):
        return isinstance(t, ast.Attribute) and isinstance(t.value, ast.Name) and t.value.id == 'self'
    keyed = {t.value.attr for st in ast.walk(init) if isinstance(st, ast.Assign) for t in st.targets
             if isinstance(t, ast.Subscript) and is_self_attr(t.value)}
    # fields whose value in __init__ is computed from a keyed index (values() of it, a union of such)
    changed = True
    while changed:
        changed = False
        for st in ast.walk(init):
            if isinstance(st, (ast.Assign, ast.AnnAssign)) and st.value is not None:
                for t in (st.targets if isinstance(st, ast.Assign) else [st.target]):
                    if is_self_attr(t) and t.attr not in keyed and any(is_self_attr(x) and x.attr in keyed for x in ast.walk(st.value)):
                        keyed.add(t.attr)
                        changed = True
    # the exhaustive searches of __contains__: any(... for f in <source>) / for f in <source> whose body tests `item in f`
    n = 0
    for x in ast.walk(cont):
        gens = []
        if isinstance(x, ast.Call) and call_name(x) == 'any' and x.args and isinstance(x.args[0], (ast.GeneratorExp, ast.ListComp)):
            gens = [(g.iter, x.args[0].elt) for g in x.args[0].generators]
        elif isinstance(x, ast.For):
            gens = [(x.iter, ast.Module(body=x.body, type_ignores=[]))]
        for src, body in gens:
            fields = {a.attr for a in ast.walk(src) if is_self_attr(a)}
            if not fields or not any(isinstance(c, ast.Compare) and any(isinstance(o, ast.In) for o in c.ops) for c in ast.walk(body)):
                continue
            # the minuend / base collection is the first self field of the expression
            base = next(a.attr for a in ast.walk(src) if is_self_attr(a))
            n += 1
            bad = base in keyed
            ctx.ob(rid, f'{ci.qual}.__contains__:search-over-{base}', not bad, '' if not bad else
                   f'`{ast.unparse(src)[:80]}`: `{base}` is (built from) a dictionary keyed by gate, which keeps one family per gate; the search is not exhaustive', ci.mod.rel, x.lineno)
    if n == 0:
        raise AnalysisError('Gateset.__contains__: no search over the stored families found')
