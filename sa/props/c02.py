"""C02 - measurement outcomes follow the Born rule exactly, incl. feed-forward.

Decided: sampling a state never changes it; copies of simulator states are isolated; per-repetition
replay starts from a copy; the sample-many fast path is taken only for all-measurement suffixes; what is
recorded is the measured value after confusion map and invert mask under the given key; the
product-state sampler returns columns in the requested order (finite-domain extraction); measurement
gates and classical conditions keep every field when rebuilt.  Not decided: probabilities, collapse arithmetic.
"""
from . import simrules, shared


def run(ctx):
    repo = ctx.repo
    simrules.unsigned_digit_arrays_rule(ctx, 'C02.o')
    simrules.confusion_read_write_rule(ctx, 'C02.p')
    ctx.decided += [
        'C02.a sample() of every state representation is side-effect free',
        'C02.b copy() duplicates every field mutated in place (CH form, tableau, buffered state vector / density matrix, classical data, simulation states)',
        'C02.c each repetition / sweep point starts from a copy; fast path guarded by the all-measurement test',
        'C02.e recorded digits depend on measured bits, confusion map and invert mask; key, mask and confusion map reach measure(); all conditions guard the sub-operation',
        'C02.g product-state sampling returns column j = sample of qubits[j] (all groupings/orders of three qubits)',
        'C02.f measurement gates and key conditions keep every stored field in with_key / with_bits_flipped / replace_key / key-protocol rebuilds',
    ]
    ctx.not_decided += ['outcome probabilities and collapse/renormalisation arithmetic', 'stabilizer measurement', 'confusion-map sampling arithmetic', 'condition resolution semantics']
    simrules.sample_pure_rule(ctx, 'C02.a')
    simrules.unchecked_factor_rule(ctx, 'C02.j')
    ctx.decided.append('C02.j sub-states are split without validation only after computational-basis measurements and resets')
    shared.seed_restart_rule(ctx, 'C02.k', ['cirq-core/cirq/'], floor=8)
    ctx.decided.append('C02.k a seed parameter is parsed once per call, never handed raw to something inside a loop (independent draws stay independent for integer seeds)')
    simrules.copy_isolation_rule(ctx, 'C02.b')
    simrules.latest_record_rule(ctx, 'C02.l')
    simrules.run_records_rule(ctx, 'C02.m')
    ctx.decided.append('C02.m samplers assemble run() results from all records of the classical data store, not from the latest-record view')
    ctx.decided.append('C02.l a single record picked for a repeated key is the latest one, as classical controls read it')
    simrules.replay_isolation_rule(ctx, 'C02.c')
    simrules.measure_chain_rule(ctx, 'C02.e')
    simrules.product_sample_order_rule(ctx, 'C02.g')
    simrules.confusion_before_inversion_rule(ctx, 'C02.h')
    simrules.nested_copy_rule(ctx, 'C02.b2')
    simrules.confusion_key_positions_rule(ctx, 'C02.n')
    simrules.pauli_measurement_decomposition_rule(ctx, 'C02.i')
    ctx.decided.append('C02.i PauliMeasurementGate decomposes into V^-1 . measure . V with V mapping the observable to Z (interpreted for every mask on up to 3 qubits)')
    ctx.decided.append('C02.b2 the classical measurement store copies its per-key record lists, not just the dictionaries')
    ctx.decided.append('C02.h the fast path and the per-repetition path apply confusion map and invert mask in the same (documented) order')
    mg = repo.cls('cirq.ops.measurement_gate.MeasurementGate')
    pm = repo.cls('cirq.ops.pauli_measurement_gate.PauliMeasurementGate')
    cond = repo.cls('cirq.value.condition.Condition')
    shared.rebuild_rule(ctx, 'C02.f', floor=6, scope=lambda c: mg in repo.mro(c) or pm in repo.mro(c) or cond in repo.mro(c))
