"""C09 - noisy and mixed-state simulation implements the channel semantics.

Decided: density-matrix and trajectory kernels commit what they computed, trajectories are renormalised
before commit and drawn with the mixture's own probabilities; an initial density matrix is never adopted
in place; both ways of applying a noise model call the hook with the circuit's own qubits; copies are
isolated; channel classes keep their fields in JSON/equality (C11).  Not decided: Kraus completeness,
representation conversions, axis arithmetic, probability tolerances.
"""
import ast

from ..core import AnalysisError, call_name, is_self_attr, kwarg
from . import simrules


def run(ctx):
    repo = ctx.repo
    simrules.measured_qubits_rule(ctx, 'C09.f')
    simrules.ancilla_initial_state_rule(ctx, 'C09.g')
    simrules.noise_before_deferral_rule(ctx, 'C09.h')
    simrules.order_independent_reduction_rule(ctx, 'C09.i')
    simrules.noise_loop_no_break_rule(ctx, 'C09.j')
    ctx.decided.append('C09.j noise models look at every operation of a moment (no early exit from the accumulating loop)')
    simrules.repeated_key_map_rule(ctx, 'C09.k')
    simrules.homogeneous_moment_predicate_rule(ctx, 'C09.l')
    simrules.configured_duration_first_rule(ctx, 'C09.m')
    simrules.term_starts_from_stash_rule(ctx, 'C09.o')
    from . import shared as _sh
    _sh.dimension_aware_sizing_rule(ctx, 'C09.n', ['cirq-core/cirq/'], floor=2)
    ctx.decided.append('C09.k a noise model that sets measurements aside by key keeps every measurement of a repeated key')
    ctx.decided.append('C09.i noise models reduce over the operations of a moment order-independently (e.g. the moment duration is the running maximum of the gate durations)')
    ctx.decided.append('C09.h final_density_matrix applies the noise model to the circuit as written, before measurements are deferred, and not again afterwards')
    ctx.decided.append('C09.g final_density_matrix: an integer initial state is rescaled when defer_measurements appends ancillas')
    ctx.decided.append('C09.f simulating with a noise model: noise that follows a deferred terminal measurement is recognised per qubit and never reaches the sampled state')
    ctx.decided += [
        'C09.a buffer-commit discipline of _BufferedDensityMatrix and _BufferedStateVector (incl. create() copying an aliased input)',
        'C09.b trajectory sampling: buffer divided by sqrt(weight) before commit; mixture index drawn with the mixture\'s own probabilities and returned',
        'C09.c with_noise and the simulators generate noise for sorted(all_qubits()) of the whole program - also when the simulator iterates over a prefix / suffix of it',
        'C09.e copy isolation of simulator states (shared with C02.b)',
    ]
    ctx.not_decided += ['Kraus completeness / trace preservation', 'channel representation conversions (Kraus, mixture, superoperator, Choi)', 'left/right axis arithmetic', 'probability tolerances of channel constructors']
    simrules.buffer_commit_rule(ctx, 'C09.a', ['cirq.sim.density_matrix_simulation_state._BufferedDensityMatrix',
                                                'cirq.sim.state_vector_simulation_state._BufferedStateVector'])
    simrules.noise_hook_rule(ctx, 'C09.c')
    simrules.copy_isolation_rule(ctx, 'C09.e')
    ctx.rule('C09.b', 'trajectories: in _BufferedStateVector.apply_channel the buffer is divided by sqrt(weight) before it is committed; in apply_mixture '
             'the draw uses p= the probabilities unzipped from the same mixture whose unitaries are indexed by the draw, and the drawn index is returned', floor=3, style='MPT')
    bs = repo.cls('cirq.sim.state_vector_simulation_state._BufferedStateVector')
    ac = repo.method(bs.qual, 'apply_channel')
    from ..flow import name_deps

    def src(x):
        if isinstance(x, ast.Call) and call_name(x) == 'norm':
            return {'<norm>'}
        if isinstance(x, ast.Call) and call_name(x) in ('random', 'random_sample', 'uniform', 'rand'):
            return {'<uniform>'}
        if isinstance(x, ast.Call) and is_self_attr(x.func) and x.func.attr in bs.methods and x.func.attr != 'apply_channel':
            # an own method that returns the squared norm of the branch it prepared (or the draw) stands for that value
            out = set()
            for r in ast.walk(bs.methods[x.func.attr]):
                if isinstance(r, ast.Return) and r.value is not None:
                    for y in ast.walk(r.value):
                        if isinstance(y, ast.Call) and call_name(y) == 'norm':
                            out.add('<norm>')
                        if isinstance(y, ast.Call) and call_name(y) in ('random', 'random_sample', 'uniform', 'rand'):
                            out.add('<uniform>')
            return out or None
        return None
    dep = name_deps(ac, {}, source_of=src)

    def labels(e):
        out = set()
        for x in ast.walk(e):
            if isinstance(x, ast.Name):
                out |= dep.get(x.id, set())
            out |= src(x) or set()
        return out
    div = [n for n in ast.walk(ac) if isinstance(n, ast.AugAssign) and isinstance(n.op, ast.Div) and is_self_attr(n.target) and 'buffer' in n.target.attr]
    sw = [c for c in ast.walk(ac) if isinstance(c, ast.Call) and call_name(c) == '_swap_target_tensor_for']
    ok = bool(div) and bool(sw) and div[-1].lineno < sw[-1].lineno and any(isinstance(c, ast.Call) and call_name(c) == 'sqrt' and '<norm>' in labels(c) for c in ast.walk(div[-1].value))
    ctx.ob('C09.b', f'{bs.qual}.apply_channel:renormalise-before-commit', ok, '' if ok else 'the selected trajectory is committed without dividing by sqrt(weight): the state is no longer normalised', bs.mod.rel, ac.lineno)
    # a uniform draw is decremented by the branch weights (squared norms) and the branch is taken when it drops below zero
    ok = any(isinstance(n, ast.AugAssign) and isinstance(n.op, ast.Sub) and isinstance(n.target, ast.Name) and '<uniform>' in dep.get(n.target.id, set())
             and '<norm>' in labels(n.value) for n in ast.walk(ac))
    ctx.ob('C09.b', f'{bs.qual}.apply_channel:draw-by-weights', ok, '' if ok else 'the branch is not selected by subtracting the branch weights from a uniform draw', bs.mod.rel, ac.lineno)
    am = repo.method(bs.qual, 'apply_mixture')
    ch = [c for c in ast.walk(am) if isinstance(c, ast.Call) and call_name(c) == 'choice']
    unz = [n for n in ast.walk(am) if isinstance(n, ast.Assign) and isinstance(n.value, ast.Call) and call_name(n.value) == 'zip' and isinstance(n.targets[0], ast.Tuple)]
    ok = bool(ch) and bool(unz)
    msg = '' if ok else 'mixture draw vanished'
    if ok:
        pn, un = [e.id for e in unz[0].targets[0].elts]
        p = kwarg(ch[0], 'p')
        ok = p is not None and ast.unparse(p) == pn and un in ast.unparse(ch[0].args[0]) if ch[0].args else False
        idxv = None
        for n in ast.walk(am):
            if isinstance(n, ast.Assign) and n.value is ch[0]:
                idxv = n.targets[0].id
        used = any(isinstance(s, ast.Subscript) and ast.unparse(s.value) == un and ast.unparse(s.slice) == idxv for s in ast.walk(am))
        ret = any(isinstance(r, ast.Return) and r.value is not None and ast.unparse(r.value) == idxv for r in ast.walk(am))
        ok = ok and used and ret
        msg = '' if ok else f'the draw does not use p={pn} over range(len({un})), index {un}[{idxv}] and return {idxv}'
    ctx.ob('C09.b', f'{bs.qual}.apply_mixture:draw', ok, msg, bs.mod.rel, am.lineno)
