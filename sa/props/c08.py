"""C08 - gate algebra and predicates are sound with respect to matrices.

Decided: `controlled()` short-cuts pin every matrix-determining field they drop; a "yes" of
_has_stabilizer_effect_ is always true of the matrix (checked on probe exponents against the
extracted eigen tables); rebuilding a gate never drops a stored field; EigenGate subclasses with
extra constructor parameters override _with_exponent; exact and approximate equality read the
same fields.  Not decided: commutes, approx_eq numerics, trace-distance bounds, phase_by.
"""
from __future__ import annotations

import ast
import itertools

import numpy as np

from ..core import AnalysisError, ClassInfo, call_name, const, dotted, is_self_attr
from ..flow import dominating_atoms
from .. import coh, fdx, fold
from .. import fields as F
from . import shared
from . import c03

shared.exempt('cirq.ops.common_gates.XPowGate', 'with_canonical_global_phase', 'global_shift', 'purpose of the method: returns the gate with its canonical global shift')
shared.exempt('cirq.ops.common_gates.YPowGate', 'with_canonical_global_phase', 'global_shift', 'purpose of the method')
shared.exempt('cirq.ops.common_gates.ZPowGate', 'with_canonical_global_phase', 'global_shift', 'purpose of the method')
shared.exempt('cirq.ops.matrix_gates.MatrixGate', '__pow__', 'name', 'the name labels the original matrix; a power is a different matrix and is shown by its entries')
shared.exempt('cirq.ops.matrix_gates.MatrixGate', '_phase_by_', 'name', 'same: the name labels the original matrix only')

shared.exempt('cirq.ops.pauli_string_phasor.PauliStringPhasor', 'conjugated_by', 'qubits', 'explicit identity-padding qubits are not carried through conjugation; the new Pauli string defines the qubits and the unitary on the joint space is unchanged')
PAULIS1 = {'I': np.eye(2, dtype=complex), 'X': c03.PX, 'Y': c03.PY, 'Z': c03.PZ}


def _is_clifford(u) -> bool:
    n = int(round(np.log2(u.shape[0])))
    if 2 ** n != u.shape[0]:
        return False
    strings = []
    for names in itertools.product('IXYZ', repeat=n):
        m = PAULIS1[names[0]]
        for c in names[1:]:
            m = np.kron(m, PAULIS1[c])
        strings.append(m)
    for q in range(n):
        for g in 'XZ':
            names = ['I'] * n
            names[q] = g
            p = PAULIS1[names[0]]
            for c in names[1:]:
                p = np.kron(p, PAULIS1[c])
            img = u @ p @ u.conj().T
            if not any(np.allclose(img, s * m, atol=1e-8) for m in strings for s in (1, -1)):
                return False
    return True


PROBES = [0, 0.25, 1 / 3, 0.5, 0.75, 1, 1.25, 1.5, 2, 2.5, 3, -0.5, -1, 0.1, 4]


def run(ctx):
    repo = ctx.repo
    shared.mapping_order_in_equality_rule(ctx, 'C08.t')
    shared.frozen_dataclass_eq_hash_rule(ctx, 'C08.u')
    shared.paired_sort_rule(ctx, 'C08.v')
    shared.approximate_getter_follows_exact_rule(ctx, 'C08.w')
    ctx.decided += [
        'C08.a controlled() overrides that build a gate of another class pin (by a dominating equality test) every matrix-determining field they do not pass on',
        'C08.b _has_stabilizer_effect_ never answers True for an exponent at which the gate matrix is not Clifford (probe exponents, extracted eigen tables)',
        'C08.c self-reconstruction completeness for every Gate/Operation method that returns a new instance of its class; EigenGate subclasses with extra '
        'constructor parameters override _with_exponent',
        'C08.d exact and approximate value-equality read the same fields',
    ]
    ctx.not_decided += ['commutes / approx_eq / equal_up_to_global_phase numerics', 'trace distance bounds', 'phase_by', 'controlled matrices of ControlledGate']
    Gate = repo.cls('cirq.ops.raw_types.Gate')
    Op = repo.cls('cirq.ops.raw_types.Operation')
    Eigen = repo.cls('cirq.ops.eigen_gate.EigenGate')

    # ------------------------------------------------------------------ C08.a
    ctx.rule('C08.a', 'controlled() short-cut soundness: when the override returns a gate of a different class, every constructor field of '
             'self other than the exponent (global_shift, dimension, ...) is either passed on or pinned to its default by a dominating test', floor=9, style='RG')
    for ci in sorted(repo.classes.values(), key=lambda c: c.qual):
        fn = ci.methods.get('controlled')
        if fn is None or Gate not in repo.mro(ci) or ci is Gate or '.testing.' in ci.qual:
            continue
        info = coh.init_info(repo, ci)
        if info is None or info[1] is None:
            continue
        owner, initfn, params, defaults, varkw = info
        p2f = F.init_param_to_field(repo, ci)
        parents = ci.mod.parents()
        built = []
        for c in ast.walk(fn):
            if isinstance(c, ast.Call):
                d = dotted(c.func)
                r = repo.resolve_in_func(ci.mod, fn, d) if d else None
                if isinstance(r, ClassInfo) and Gate in repo.mro(r) and r is not ci and r.name not in ('ControlledGate',):
                    built.append((r, c))
        if not built:
            continue
        # locals -> self fields they derive from
        ldep = {}
        for _ in range(3):
            for n in ast.walk(fn):
                if isinstance(n, ast.Assign) and isinstance(n.targets[0], ast.Name):
                    deps = {x.attr for x in ast.walk(n.value) if is_self_attr(x)}
                    for x in ast.walk(n.value):
                        if isinstance(x, ast.Name) and x.id in ldep:
                            deps |= ldep[x.id]
                    ldep.setdefault(n.targets[0].id, set()).update(deps)
        for r, c in built:
            passed_src = ' '.join(ast.unparse(a) for a in list(c.args) + [k.value for k in c.keywords])
            for a in list(c.args) + [k.value for k in c.keywords]:
                for x in ast.walk(a):
                    if isinstance(x, ast.Name) and x.id in ldep:
                        passed_src += ' ' + ' '.join(f'self.{f}' for f in ldep[x.id])
            atoms = dominating_atoms(parents, c, fn)
            pinned = {}
            for a, pol in atoms:
                if isinstance(a, ast.Compare) and len(a.ops) == 1 and is_self_attr(a.left):
                    eq = (isinstance(a.ops[0], ast.Eq) and pol) or (isinstance(a.ops[0], ast.NotEq) and not pol)
                    if eq:
                        try:
                            pinned[a.left.attr] = const(a.comparators[0])
                        except ValueError:
                            pass
            for p in params:
                if p == 'exponent' or not p2f.get(p):
                    continue
                flds = p2f[p] | {p}
                if any(f'self.{f}' in passed_src for f in flds):
                    continue
                d = defaults.get(p)
                try:
                    dv = const(d) if d is not None else None
                except ValueError:
                    dv = None
                ok = any(f in pinned and pinned[f] == dv for f in flds)
                ctx.ob('C08.a', f'{ci.qual}.controlled:{r.name}:{p}', ok,
                       '' if ok else f'{ci.name}.controlled() returns {r.name}(...) without passing `{p}` and without a dominating test that '
                       f'self.{sorted(p2f[p])[0]} == {dv!r}: for a {ci.name} with another {p} the specialised gate has a different matrix/shape',
                       ci.mod.rel, c.lineno, construct=f'{ci.qual}.controlled:{r.name}')

    # ------------------------------------------------------------------ C08.b
    ctx.rule('C08.b', 'stabilizer-effect soundness: for every class defining both _has_stabilizer_effect_ and literal eigen-components, and every '
             'probe exponent, a True answer implies U(exponent) conjugates Paulis to Paulis (U from the extracted table)', floor=10, style='TBL')
    for (cq, dim), ref in c03.REFERENCE.items():
        if dim not in (None, 2):
            continue
        ci = repo.cls(cq)
        r = repo.find_method(ci, '_has_stabilizer_effect_')
        if r is None:
            continue
        try:
            comps, how = c03._components(repo, ci, dim)
        except fold.NotLiteral as ex:
            raise AnalysisError(f'eigen-components of {cq} can no longer be extracted ({ex})')
        bad = None
        nonparam = None
        for e in PROBES:
            env_self = {'_exponent': e, 'exponent': e, '_dimension': 2, 'dimension': 2, '_global_shift': 0, 'global_shift': 0}

            def call_hook(call, it):
                s = ast.unparse(call.func)
                if s.endswith('_is_parameterized_') or s.endswith('is_parameterized'):
                    return False
                return NotImplemented
            it = fdx.Interp({'self': env_self}, {}, None, call_hook)
            try:
                ans = it.call(r[1])
            except (fdx.Unsupported, fdx.Raised) as ex:
                raise AnalysisError(f'cannot interpret {cq}._has_stabilizer_effect_: {ex}')
            if ans is True:
                u = sum(np.exp(1j * np.pi * t * e) * m for t, m in comps)
                if not _is_clifford(u):
                    bad = bad or e
        ctx.ob('C08.b', f'{cq}._has_stabilizer_effect_', bad is None,
               '' if bad is None else f'answers True at exponent {bad}, where the gate matrix does not map Paulis to Paulis', r[0].mod.rel, r[1].lineno)
        # parameterized / non-qubit variants must not answer True
        src = ast.unparse(r[1])
        if 'X' in ci.name[:1] or 'Z' in ci.name[:1]:
            if '_dimension' in {f for f in F.init_param_to_field(repo, ci).get('dimension', set())}:
                ok = '_dimension' in src or 'dimension' in src
                ctx.ob('C08.b', f'{cq}._has_stabilizer_effect_:qudit-guard', ok, '' if ok else 'qudit variants (dimension != 2) can answer True', r[0].mod.rel, r[1].lineno)

    # ------------------------------------------------------------------ C08.c
    shared.rebuild_rule(ctx, 'C08.c', floor=80, scope=lambda c: Gate in repo.mro(c) or Op in repo.mro(c))
    ctx.rule('C08.c2', 'every EigenGate subclass whose constructor has parameters besides exponent/global_shift overrides _with_exponent '
             '(EigenGate._with_exponent rebuilds with exponent and global_shift only)', floor=5, style='COH')
    for ci in sorted(repo.subclasses(Eigen), key=lambda c: c.qual):
        if '.testing.' in ci.qual or '.contrib.' in ci.qual:
            continue
        info = coh.init_info(repo, ci)
        if info is None or info[1] is None or info[0] is Eigen:
            continue
        extra = [p for p in info[2] if p not in ('exponent', 'global_shift')]
        required_differs = any(info[3].get(p) is None for p in extra) or 'exponent' not in info[2]
        if not extra and 'exponent' in info[2]:
            continue
        r = repo.find_method(ci, '_with_exponent')
        ok = r is not None and r[0] is not Eigen
        ctx.ob('C08.c2', ci.qual, ok, '' if ok else f'constructor takes {extra} but _with_exponent is inherited from EigenGate: `gate**t` rebuilds the gate without them',
               ci.mod.rel, ci.node.lineno)

    # ------------------------------------------------------------------ C08.c3
    ctx.rule('C08.c3', 'factory-parameter rebuild: a helper that rebuilds a gate through a class passed in as an argument (`gate_class(exponent=...)`) '
             'passes, at every call site, each state-backing constructor parameter of the class actually passed (the global shift excepted where '
             'extracting it is the helper\'s documented purpose)', floor=3, style='COH')
    PURPOSE = {('cirq.ops.common_gates._extract_phase', 'global_shift'): "documented: 'Extracts the global phase field to its own gate'"}
    from ..core import FuncInfo
    for fi in sorted(repo.funcs.values(), key=lambda f: f.qual):
        if '.testing.' in fi.qual or '.contrib.' in fi.qual:
            continue
        fparams = [a.arg for a in fi.node.args.args]
        factory = {}
        for c in ast.walk(fi.node):
            if isinstance(c, ast.Call) and isinstance(c.func, ast.Name) and c.func.id in fparams and c.keywords and not c.args:
                ann = None
                for a in fi.node.args.args:
                    if a.arg == c.func.id and a.annotation is not None:
                        ann = ast.unparse(a.annotation)
                if ann and ('type' in ann.lower()):
                    factory[c.func.id] = c
        if not factory:
            continue
        # call sites
        for mod in repo.modules.values():
            for n in ast.walk(mod.tree):
                if isinstance(n, ast.Call) and (dotted(n.func) or '').split('.')[-1] == fi.name:
                    r = repo.resolve(mod, dotted(n.func))
                    if not (isinstance(r, FuncInfo) and r.node is fi.node):
                        continue
                    for pname, ctor_call in factory.items():
                        idx = fparams.index(pname)
                        arg = n.args[idx] if idx < len(n.args) else None
                        if arg is None:
                            continue
                        K = repo.resolve_class(mod, arg)
                        if K is None:
                            continue
                        info = coh.init_info(repo, K)
                        if info is None or info[1] is None:
                            continue
                        p2f = F.init_param_to_field(repo, K)
                        passed = {k.arg for k in ctor_call.keywords if k.arg}
                        for k in ctor_call.keywords:
                            if k.arg is None and isinstance(k.value, ast.Name):
                                for a_ in ast.walk(fi.node):
                                    if isinstance(a_, ast.Assign) and isinstance(a_.targets[0], ast.Name) and a_.targets[0].id == k.value.id:
                                        for d_ in ast.walk(a_.value):
                                            if isinstance(d_, ast.Dict):
                                                passed |= {kk.value for kk in d_.keys if isinstance(kk, ast.Constant)}
                        miss = [p for p in info[2] if p2f.get(p) and p not in passed and (fi.qual, p) not in PURPOSE]
                        ctx.ob('C08.c3', f'{fi.qual}({K.name})' + (':' + ','.join(miss) if miss else ''), not miss,
                               '' if not miss else f'{fi.name} rebuilds the gate as {K.name}({", ".join(sorted(passed))}=...) and drops `{miss[0]}` of the {K.name} it was given',
                               mod.rel, n.lineno, construct=f'{fi.qual}({K.name})')

    # ------------------------------------------------------------------ C08.d
    ctx.rule('C08.d', '_value_equality_values_ and _value_equality_approximate_values_ of one class read the same fields', floor=2, style='COH')
    for ci in sorted(repo.classes.values(), key=lambda c: c.qual):
        a = ci.methods.get('_value_equality_values_')
        b = ci.methods.get('_value_equality_approximate_values_')
        if a is None or b is None or '.testing.' in ci.qual:
            continue
        fa = F.self_reads(repo, ci, a, depth=1)
        fb = F.self_reads(repo, ci, b, depth=1)
        norm = lambda s: {f.replace('_canonical_exponent', '_exponent') for f in s}
        ok = norm(fa) == norm(fb)
        ctx.ob('C08.d', ci.qual, ok, '' if ok else f'exact equality reads {sorted(fa)} but approximate equality reads {sorted(fb)}', ci.mod.rel, a.lineno)

    # every stored constructor parameter of a gate / operation takes part in its value equality
    ctx.decided.append('C08.d2 value equality of gates and operations looks at every constructor parameter that backs stored state (two gates that differ in such a '
                       'parameter have different matrices but would compare - and hash - equal)')
    ctx.rule('C08.d2', 'equality completeness: for every Gate / Operation class with _value_equality_values_, each constructor parameter that is stored is read by the equality values '
             '(tolerances and caches excepted, see table)', floor=50, style='COH')
    EQ_PARAM_EXEMPT = {
        ('cirq.ops.pauli_sum_exponential.PauliSumExponential', 'atol'): 'tolerance of the commutation check made in __init__, not part of the value',
    }
    for ci in sorted(repo.classes.values(), key=lambda c: c.qual):
        if '.testing.' in ci.qual or '.contrib.' in ci.qual:
            continue
        ve = ci.methods.get('_value_equality_values_')
        if ve is None or not (repo.is_subclass(ci, Gate) or repo.is_subclass(ci, Op)):
            continue
        p2f = F.init_param_to_field(repo, ci)
        rd = F.self_reads(repo, ci, ve, depth=2)
        if not p2f or '<self>' in rd:
            continue
        miss = []
        for p_, fs in p2f.items():
            fs = {f for f in fs if '.' not in f}
            if not fs or (ci.qual, p_) in EQ_PARAM_EXEMPT:
                continue
            if fs & rd or F.norm_field(repo, ci, p_) in rd or any(p_ == r.lstrip('_') for r in rd):
                continue
            miss.append(p_)
        ctx.ob('C08.d2', ci.qual + (':' + ','.join(miss) if miss else ''), not miss,
               '' if not miss else f'{ci.name}.__init__ stores {miss}, but _value_equality_values_ ignores {"it" if len(miss) == 1 else "them"}: '
               f'two {ci.name}s that differ only there compare and hash equal although they are different operations', ci.mod.rel, ve.lineno, construct=ci.qual)
    _commutes_rules(ctx, repo)


def _commutes_rules(ctx, repo):
    """C08.e - `commutes` never answers True on evidence that is blind to the global phase."""
    from . import c03
    ctx.decided.append('C08.e no _commutes_ implementation derives a True answer from equality of Clifford tableaux (tableaux identify gates only up to global phase: '
                       'X and Z have equal products in both orders); the classes ZPowGate._commutes_on_qids_ declares as commuting are all diagonal')
    ctx.rule('C08.e', 'commutes soundness: a True answer of _commutes_ / _commutes_on_qids_ is not a comparison of CliffordTableau products (phase-blind), '
             'and a family declared to commute with Z-type gates has only diagonal eigen-components', floor=16, style='COH')

    def tableau_equalities(expr, ci, depth=0):
        """Compare(==) nodes whose operands are tableau products, looking through one level of self.method() calls"""
        out = []
        for n in ast.walk(expr):
            if isinstance(n, ast.Compare) and any(isinstance(o, ast.Eq) for o in n.ops):
                src = ast.unparse(n)
                if 'clifford_tableau' in src or '.then(' in src:
                    out.append(n)
            if isinstance(n, ast.Call) and isinstance(n.func, ast.Attribute) and isinstance(n.func.value, ast.Name) and n.func.value.id == 'self' and depth < 2:
                m = repo.find_method(ci, n.func.attr)
                if m is not None:
                    mfn = m[1] if isinstance(m, tuple) else m
                    names = {}
                    for st in ast.walk(mfn):
                        if isinstance(st, ast.Assign) and len(st.targets) == 1 and isinstance(st.targets[0], ast.Name):
                            names[st.targets[0].id] = st.value
                    for r in ast.walk(mfn):
                        if isinstance(r, ast.Return) and r.value is not None:
                            # substitute locals by their definitions (one level) to see what is compared
                            txt = r.value
                            cmp_ = [c for c in ast.walk(txt) if isinstance(c, ast.Compare) and any(isinstance(o, ast.Eq) for o in c.ops)]
                            for c in cmp_:
                                operands = [c.left] + list(c.comparators)
                                defs = [names.get(o.id) if isinstance(o, ast.Name) else o for o in operands]
                                if any(d is not None and ('.then(' in ast.unparse(d) or 'clifford_tableau' in ast.unparse(d)) for d in defs):
                                    out.append(c)
                            out += tableau_equalities(r.value, ci, depth + 1)
        return out
    n_impl = 0
    for ci in sorted(repo.classes.values(), key=lambda c: c.qual):
        if '.testing.' in ci.qual or '.contrib.' in ci.qual:
            continue
        for mn in ('_commutes_', '_commutes_on_qids_'):
            fn = ci.methods.get(mn)
            if fn is None:
                continue
            n_impl += 1
            bad = []
            for r in ast.walk(fn):
                if isinstance(r, ast.Return) and r.value is not None and not (isinstance(r.value, ast.Constant) and r.value.value in (False, None)) \
                        and not (isinstance(r.value, ast.Name) and r.value.id == 'NotImplemented'):
                    bad += tableau_equalities(r.value, ci)
            ctx.ob('C08.e', f'{ci.qual}.{mn}:phase-exact', not bad,
                   '' if not bad else f'{mn} answers True when two Clifford tableau products are equal ({ast.unparse(bad[0])[:80]}): the tableau drops the global phase, '
                   'so anticommuting gates (X, Z) are reported as commuting', ci.mod.rel, fn.lineno)
    # families declared diagonal
    z = repo.cls('cirq.ops.common_gates.ZPowGate')
    fn = z.methods.get('_commutes_on_qids_')
    if fn is None:
        raise AnalysisError('ZPowGate._commutes_on_qids_ vanished')
    tups = [n for n in ast.walk(fn) if isinstance(n, ast.Call) and call_name(n) == 'isinstance' and len(n.args) == 2 and isinstance(n.args[1], ast.Tuple)]
    if not tups:
        raise AnalysisError('ZPowGate._commutes_on_qids_: class tuple vanished')
    for e in tups[0].args[1].elts:
        K = repo.resolve_in_func(z.mod, fn, ast.unparse(e))
        if K is None or not hasattr(K, 'qual'):
            raise AnalysisError(f'ZPowGate._commutes_on_qids_: cannot resolve {ast.unparse(e)}')
        comps, _ = c03._components(repo, K, 2 if (K.qual, 2) in c03.REFERENCE else None)
        diag = all(np.allclose(m, np.diag(np.diag(m))) for _, m in comps)
        ctx.ob('C08.e', f'{z.qual}._commutes_on_qids_:{K.name}:diagonal', diag, '' if diag else f'{K.name} is declared to commute with every Z-type gate but its eigen-components are not diagonal',
               z.mod.rel, fn.lineno)

    _trace_distance_rules(ctx, repo)
    _phase_by_rules(ctx, repo)
    _phased_xz_canonical(ctx, repo)
    period_soundness_rule(ctx, 'C08.o')
    _predicates_compare_values(ctx, repo)
    _interchangeable_means_symmetric(ctx, repo)
    from . import c13 as _c13
    _c13._clifford_pow_is_repeated_product(ctx, repo, rid='C08.s')
    shared.qudit_blind_dispatch_rule(ctx, 'C08.p', ['cirq-core/cirq/ops/', 'cirq-core/cirq/protocols/', 'cirq-google/', 'cirq-aqt/', 'cirq-ionq/', 'cirq-pasqal/'], floor=6)
    ctx.decided.append('C08.p code that recognises X/Z power gates by class looks at their dimension or is tabled as unreachable for qudits')
    ctx.decided.append('C08.o exponent periods used for canonicalisation are multiples of every eigenphase period (PhasedXPowGate._period and the EigenGate helper, interpreted on a rational grid of shifts)')
    _mutable_equality_cache(ctx, repo)
    _qudit_shortcuts(ctx, repo)
    ctx.decided.append('C08.i no statement discards the result of a value-semantics method (inverse / then / with_* / replace ...): `t.inverse()` without rebinding is a no-op')
    shared.discarded_value_rule(ctx, 'C08.i')
    ctx.decided.append('C08.j predicates and builders write the private fields of another object only when that object was created in the same function (EigenGate._equal_up_to_global_phase_ zeroes _global_shift on the result of _with_exponent, which therefore must never be self)')
    shared.foreign_store_rule(ctx, 'C08.j')
    ctx.decided.append('C08.k no branch that handles negative values (inversion for negative exponents) is made unreachable by a preceding abs()')
    shared.impossible_sign_test_rule(ctx, 'C08.k')


def _true_trace_distance(angles):
    """max over states of the trace distance between rho and U rho U^dag for a unitary with these eigen-phases:
    sqrt(1 - d^2), d = distance from the origin to the convex hull of exp(i angle_k)."""
    a = np.sort(np.mod(np.asarray(angles, dtype=float), 2 * np.pi))
    if len(a) == 0:
        return 0.0
    gaps = list(np.diff(a)) + [2 * np.pi - (a[-1] - a[0])]
    span = 2 * np.pi - max(gaps)          # smallest arc containing every eigen-phase
    if span >= np.pi - 1e-12:
        return 1.0
    return float(np.sin(span / 2))


def _trace_distance_rules(ctx, repo):
    from . import c03
    from .. import fold
    ctx.decided.append('C08.f every _trace_distance_bound_ override of an eigen-gate family (interpreted at probe exponents) is at least the exact maximum trace distance '
                       'computed from the family\'s own eigen-shifts; trace_distance_from_angle_list (interpreted on probe angle lists) is that exact value')
    ctx.rule('C08.f', 'trace-distance bound soundness: bound(exponent) >= sin(span/2) (1 if the eigen-phases span at least half the circle) for every probe exponent, '
             'where span is the smallest arc containing exp(i pi exponent shift_k) over the extracted eigen-shifts', floor=15, style='FDX')
    Eigen = repo.cls('cirq.ops.eigen_gate.EigenGate')
    PROBES = (0, 0.125, 0.25, 0.5, 0.75, 1, 1.25, 1.5, 2, -0.3, 3.7, 0.999)
    n_cls = 0
    for ci in sorted(repo.subclasses(Eigen), key=lambda c: c.qual):
        if '.testing.' in ci.qual or '.contrib.' in ci.qual:
            continue
        fn = ci.methods.get('_trace_distance_bound_')
        if fn is None or '_eigen_components' not in ci.methods:
            continue
        try:
            comps, _ = c03._components(repo, ci, 2)
        except (fold.NotLiteral, AnalysisError) as e:
            ctx.unres('C08.f', ci.qual, f'eigen-components not extractable: {e}', ci.mod.rel, fn.lineno)
            continue
        shifts = [complex(t).real for t, _ in comps]
        n_cls += 1
        worst = None
        for e in PROBES:
            self_obj = {'_exponent': e, 'exponent': e, '_global_shift': 0.0, '_dimension': 2, 'dimension': 2}

            def call_hook(call, it):
                s = ast.unparse(call.func)
                if s.endswith('is_parameterized') or s.endswith('_is_parameterized_'):
                    return False
                return NotImplemented
            it = fdx.NumInterp({'self': self_obj}, call_hook=call_hook)
            try:
                got = it.call(fn)
            except fdx.Unsupported as ex:
                raise AnalysisError(f'{ci.qual}._trace_distance_bound_ is outside the interpretable subset: {ex}')
            want = _true_trace_distance([np.pi * e * s for s in shifts])
            if got is None:
                continue
            if float(got) < want - 1e-9 and worst is None:
                worst = (e, float(got), want)
        ctx.ob('C08.f', f'{ci.qual}._trace_distance_bound_', worst is None,
               '' if worst is None else f'at exponent {worst[0]} the override returns {worst[1]:.6f} but the eigen-shifts {shifts} give a maximum trace distance of {worst[2]:.6f}: '
               'not an upper bound', ci.mod.rel, fn.lineno)
        # qudit-capable families: the same override is asked about dimension 3 and 4
        if any(isinstance(x, ast.Attribute) and x.attr in ('_dimension', 'dimension') for x in ast.walk(ci.node)):
            for dim in (3, 4):
                try:
                    comps_d, _ = c03._components(repo, ci, dim)
                except (fold.NotLiteral, AnalysisError, fdx.Unsupported) as e:
                    ctx.unres('C08.f', f'{ci.qual}:dimension={dim}', f'eigen-components not extractable: {e}', ci.mod.rel, fn.lineno)
                    continue
                shifts_d = [complex(t).real for t, _ in comps_d]
                worst = None
                for e in PROBES:
                    self_obj = {'_exponent': e, 'exponent': e, '_global_shift': 0.0, '_dimension': dim, 'dimension': dim}
                    it = fdx.NumInterp({'self': self_obj}, call_hook=lambda call, it_: False if ast.unparse(call.func).endswith(('is_parameterized', '_is_parameterized_')) else NotImplemented)
                    try:
                        got = it.call(fn)
                    except fdx.Unsupported as ex:
                        raise AnalysisError(f'{ci.qual}._trace_distance_bound_ is outside the interpretable subset: {ex}')
                    if got is None:
                        continue
                    want = _true_trace_distance([np.pi * e * s_ for s_ in shifts_d])
                    if float(got) < want - 1e-9 and worst is None:
                        worst = (e, float(got), want)
                ctx.ob('C08.f', f'{ci.qual}._trace_distance_bound_:dimension={dim}', worst is None, '' if worst is None else
                       f'for dimension {dim} at exponent {worst[0]} the override returns {worst[1]:.6f}, but the eigen-phases of the qudit gate reach a trace distance of {worst[2]:.6f}',
                       ci.mod.rel, fn.lineno)
    if n_cls < 8:
        raise AnalysisError(f'only {n_cls} eigen-gate families with a _trace_distance_bound_ override could be analysed')
    # the generic helper
    tm = repo.module('cirq-core/cirq/protocols/trace_distance_bound.py')
    hf = tm.defs.get('trace_distance_from_angle_list')
    if hf is None:
        raise AnalysisError('trace_distance_from_angle_list vanished')
    rng = np.random.RandomState(7)
    lists = [[0.0], [0.0, np.pi], [0.0, 0.3], [0.1, 0.2, 3.0], [0, np.pi / 2, np.pi], [-1.0, 1.0], [0.0, 2.0, 4.0], [0.5, 0.5], [0.0, np.pi - 1e-3]]
    lists += [list(rng.uniform(0, 2 * np.pi, size=k)) for k in (2, 3, 4, 6) for _ in range(4)]
    lists += [list(rng.uniform(0, 1.0, size=k)) for k in (2, 3, 5) for _ in range(3)]
    bad = None
    for al in lists:
        it = fdx.NumInterp({'angle_list': list(al)})
        try:
            got = it.call(hf)
        except fdx.Unsupported as ex:
            raise AnalysisError(f'trace_distance_from_angle_list is outside the interpretable subset: {ex}')
        want = _true_trace_distance(al)
        if float(got) < want - 1e-9 and bad is None:
            bad = (al, float(got), want)
    ctx.ob('C08.f', 'cirq.protocols.trace_distance_bound.trace_distance_from_angle_list', bad is None,
           '' if bad is None else f'for eigen-phases {np.round(bad[0], 3).tolist()} the helper returns {bad[1]:.6f} < the exact maximum trace distance {bad[2]:.6f}', tm.rel, hf.lineno)
    # ParallelGate: k copies of a one-qubit rotation with eigen-phases +-phi have eigen-phases (k - 2j) phi
    pg = repo.cls('cirq.ops.parallel_gate.ParallelGate')
    pfn = pg.methods.get('_trace_distance_bound_')
    if pfn is None:
        raise AnalysisError('ParallelGate._trace_distance_bound_ vanished')
    worst = None
    for phi in (0.05, 0.2, np.pi / 8, 0.5, np.pi / 5, 0.3 * np.pi, 0.35 * np.pi, np.pi / 2):
        for k in range(1, 10):
            sub_bound = float(np.sin(phi))

            def call_hook(call, it, sub_bound=sub_bound):
                s_ = ast.unparse(call.func)
                if s_.endswith('is_parameterized'):
                    return False
                if s_.endswith('trace_distance_bound'):
                    return sub_bound
                return NotImplemented

            def attr_hook(node, it):
                if isinstance(node.value, ast.Name) and node.value.id == 'self':
                    return {'_num_copies': k, 'num_copies': k, 'sub_gate': 'G', '_sub_gate': 'G'}.get(node.attr, NotImplemented)
                return NotImplemented
            it = fdx.NumInterp({'self': 'P'}, call_hook=call_hook, attr_hook=attr_hook)
            try:
                got = it.call(pfn)
            except fdx.Unsupported as ex:
                raise AnalysisError(f'ParallelGate._trace_distance_bound_ is outside the interpretable subset: {ex}')
            want = _true_trace_distance([(k - 2 * j) * phi for j in range(k + 1)])
            if got is not None and float(got) < want - 1e-9 and worst is None:
                worst = (k, phi, float(got), want)
    ctx.ob('C08.f', f'{pg.qual}._trace_distance_bound_', worst is None, '' if worst is None else
           f'{worst[0]} parallel copies of a rotation by half-angle {worst[1]:.3f} (single bound {np.sin(worst[1]):.3f}) get the bound {worst[2]:.6f}, but the product reaches a trace distance of '
           f'{worst[3]:.6f}: not an upper bound', pg.mod.rel, pfn.lineno)
    # controlled wrappers: the identity block contributes the eigen-phase 0, so a global phase of the sub-operation becomes a relative one
    probes_u = {
        'i*I': 1j * np.eye(2), 'X**0.01 * exp(i pi/4)': np.exp(1j * np.pi / 4) * (np.cos(0.005 * np.pi) * np.eye(2) - 1j * np.sin(0.005 * np.pi) * np.array([[0, 1], [1, 0]])),
        'Z': np.diag([1, -1]).astype(complex), 'T': np.diag([1, np.exp(1j * np.pi / 4)]), '-I': -np.eye(2).astype(complex), 'I': np.eye(2).astype(complex),
        'exp(0.3i) S': np.exp(0.3j) * np.diag([1, 1j]),
    }
    for cq, sub in (('cirq.ops.controlled_operation.ControlledOperation', 'sub_operation'), ('cirq.ops.controlled_gate.ControlledGate', 'sub_gate')):
        ci = repo.cls(cq)
        fn = ci.methods.get('_trace_distance_bound_')
        if fn is None:
            raise AnalysisError(f'{cq}._trace_distance_bound_ vanished')
        worst = None
        for nm, u in probes_u.items():
            def call_hook(call, it, _u=u):
                s_ = ast.unparse(call.func)
                if s_.endswith('is_parameterized') or s_.endswith('_is_parameterized_'):
                    return False
                if s_.endswith('.unitary'):
                    return np.array(_u, dtype=complex)
                if s_.endswith('has_unitary'):
                    return True
                if s_.endswith('trace_distance_from_angle_list'):
                    return _true_trace_distance(list(np.asarray(it.ev(call.args[0]), dtype=float)))
                if s_.endswith('trace_distance_bound'):
                    return _true_trace_distance(list(np.angle(np.linalg.eigvals(np.array(_u, dtype=complex)))))   # what the wrapped value reports for itself
                return NotImplemented
            # the control model: one qutrit control that accepts the values 0 and 1 - two accepted assignments (as many as a qubit control has in all), yet the
            # value 2 leaves the target alone, so controlled-U always has an identity block
            cv_model = {'_conjunctions': [(0,), (1,)]}

            def call_hook2(call, it, _h=call_hook, _cv=cv_model):
                r_ = _h(call, it)
                if r_ is not NotImplemented:
                    return r_
                s2_ = ast.unparse(call.func)
                if s2_.endswith('control_values.expand'):
                    return _cv
                if s2_.endswith('.num_controls'):
                    return 1
                return NotImplemented
            it = fdx.NumInterp({'self': {sub: 'SUB', '_' + sub: 'SUB', 'controls': ('c0',), '_controls': ('c0',), 'control_values': cv_model, '_control_values': cv_model,
                                         'control_qid_shape': (3,), '_control_qid_shape': (3,)}}, call_hook=call_hook2)
            try:
                got = it.call(fn)
            except fdx.Unsupported as ex:
                raise AnalysisError(f'{cq}._trace_distance_bound_ is outside the interpretable subset: {ex}')
            want = _true_trace_distance(list(np.angle(np.linalg.eigvals(np.array(u, dtype=complex)))) + [0.0])
            if got is not None and got is not NotImplemented and float(got) < want - 1e-9 and worst is None:
                worst = (nm, float(got), want)
        ctx.ob('C08.f', f'{cq}._trace_distance_bound_', worst is None,
               '' if worst is None else f'for the sub-operation {worst[0]} the controlled wrapper reports {worst[1]:.4f}, but controlled-U has the eigen-phases of U and 0 (identity block): '
               f'the true maximum trace distance is {worst[2]:.4f}', ci.mod.rel, fn.lineno)
    eg = Eigen.methods.get('_trace_distance_bound_')
    ok = eg is not None and any(isinstance(c, ast.Call) and call_name(c) == 'trace_distance_from_angle_list' for c in ast.walk(eg)) and '_eigen_shifts' in ast.unparse(eg) \
        and '_exponent' in ast.unparse(eg)
    ctx.ob('C08.f', 'cirq.ops.eigen_gate.EigenGate._trace_distance_bound_', ok, '' if ok else 'the default bound is no longer computed from the eigen-shifts times the exponent', Eigen.mod.rel, getattr(eg, 'lineno', 1))


def _phase_by_rules(ctx, repo):
    """C08.h - phase_by of X / Y powers (interpreted, helper included) conjugates by the Z rotation up to global phase."""
    from . import c03
    ctx.decided.append('C08.h XPowGate / YPowGate._phase_by_ (interpreted together with the helper that picks X, Y or PhasedX) return a gate equal to Z^(2t) G Z^(-2t) up to '
                       'global phase for probe exponents and phase turns, including the half-turn and quarter-turn shortcuts')
    ctx.rule('C08.h', 'phase_by soundness: for G in {X**e, Y**e} and probe phase turns t the gate returned by _phase_by_(t, 0) has the matrix Z**(2t) G Z**(-2t) up to a global phase',
             floor=40, style='FDX')
    cg = repo.module('cirq-core/cirq/ops/common_gates.py')
    X, Y = repo.cls('cirq.ops.common_gates.XPowGate'), repo.cls('cirq.ops.common_gates.YPowGate')
    cx, _ = c03._components(repo, X, 2)
    cy, _ = c03._components(repo, Y, 2)

    def mat(comps, e):
        return sum(np.exp(1j * np.pi * e * t) * m for t, m in comps)

    def zrot(h):
        return np.diag([1, np.exp(1j * np.pi * h)])

    class GV:
        def __init__(self, kind, exponent, phase_exponent=0.0):
            self.kind, self.exponent, self.phase_exponent = kind, exponent, phase_exponent

        def matrix(self):
            if self.kind == 'X':
                return mat(cx, self.exponent)
            if self.kind == 'Y':
                return mat(cy, self.exponent)
            p_ = self.phase_exponent
            return zrot(p_) @ mat(cx, self.exponent) @ zrot(-p_)
    for ci, comps, nm in ((X, cx, 'X'), (Y, cy, 'Y')):
        fn = ci.methods.get('_phase_by_')
        if fn is None:
            raise AnalysisError(f'{ci.qual}._phase_by_ vanished')
        for e in (0.3, 0.5, 1, -0.7):
            for t in (0, 0.125, 0.25, -0.25, 0.5, -0.5, 0.375, 0.75, 1.0):
                def call_hook(call, it):
                    s_ = ast.unparse(call.func).split('.')[-1]
                    kws = {k.arg: it.ev(k.value) for k in call.keywords}
                    if s_ == 'XPowGate':
                        return GV('X', kws.get('exponent', 1.0))
                    if s_ == 'YPowGate':
                        return GV('Y', kws.get('exponent', 1.0))
                    if s_ == 'PhasedXPowGate':
                        return GV('PhX', kws.get('exponent', 1.0), kws.get('phase_exponent', 0.0))
                    if s_ == 'canonicalize_half_turns':
                        h = float(it.ev(call.args[0]))
                        h = h % 2
                        return h - 2 if h > 1 else h
                    if s_ == 'is_constant':
                        return True
                    return NotImplemented
                it = fdx.NumInterp({'self': {'_exponent': e, 'exponent': e, '_global_shift': 0.0, '_dimension': 2}, 'phase_turns': t, 'qubit_index': 0,
                                    'isinstance': lambda v, tt: False}, call_hook=call_hook)
                it.resolver = c03.make_resolver(repo, cg, fn)
                try:
                    g = it.call(fn)
                except fdx.Unsupported as ex:
                    raise AnalysisError(f'{ci.qual}._phase_by_ is outside the interpretable subset: {ex}')
                want = zrot(2 * t) @ mat(comps, e) @ zrot(-2 * t)
                ok = isinstance(g, GV)
                if ok:
                    got = g.matrix()
                    ov = abs(np.trace(want.conj().T @ got)) / 2
                    ok = abs(ov - 1) < 1e-9
                ctx.ob('C08.h', f'{ci.qual}._phase_by_:e={e}:t={t}', ok,
                       '' if ok else f'phase_by({nm}**{e}, {t}) returns {g.kind if isinstance(g, GV) else g}(exponent={getattr(g, "exponent", None)}, phase_exponent={getattr(g, "phase_exponent", None)}), '
                       f'which is not Z**{2 * t} {nm}**{e} Z**{-2 * t} up to phase', ci.mod.rel, fn.lineno, construct=f'{ci.qual}._phase_by_')


def _phased_xz_canonical(ctx, repo):
    """C08.l - PhasedXZGate._canonical (the basis of its equality) keeps the matrix up to global phase."""
    from . import c19
    ctx.decided.append('C08.l PhasedXZGate._canonical, on which equality and hashing of the gate rest, returns a gate with the same matrix up to global phase (probe grid of x, z, a)')
    ctx.rule('C08.l', 'canonical form is the same gate: interpreting PhasedXZGate._canonical on model gates, Z^z\' Z^a\' X^x\' Z^-a\' of the returned exponents equals Z^z Z^a X^x Z^-a up to '
             'global phase for each probe triple - otherwise gates that compare equal would act differently', floor=60, style='FDX')
    ci = repo.cls('cirq.ops.phased_x_z_gate.PhasedXZGate')
    fn = repo.method(ci.qual, '_canonical')
    import numpy as np
    for x, z, a in c19.PXZ_PROBES:
        g = c19._PXZ(x, z, a)
        try:
            out = c19.pxz_interp(repo, fn, g, [])
        except (fdx.Unsupported, fdx.Raised) as ex:
            raise AnalysisError(f'cannot interpret PhasedXZGate._canonical: {ex}')
        if not isinstance(out, c19._PXZ):
            raise AnalysisError('PhasedXZGate._canonical no longer returns a PhasedXZGate')
        ov = abs(np.trace(g.matrix().conj().T @ out.matrix())) / 2
        ok = abs(ov - 1) < 1e-9
        ctx.ob('C08.l', f'{ci.qual}._canonical:x={x}:z={z}:a={a}', ok, '' if ok else
               f'PhasedXZGate(x={x}, z={z}, a={a}) is canonicalised to (x={out._x_exponent:g}, z={out._z_exponent:g}, a={out._axis_phase_exponent:g}), a different rotation (overlap {ov:.4f})',
               ci.mod.rel, fn.lineno)


def _mutable_equality_cache(ctx, repo):
    """C08.m - a mutable (unhashable) value-equality class does not inherit a cached values getter from a hashable base."""
    ctx.decided.append('C08.m value_equality caches the values getters it installs on hashable classes; a class decorated unhashable=True below such a class defines its own '
                       '_value_equality_values_ and - when approximate - its own _value_equality_approximate_values_, so ==, approx_eq and hash never see values from before a mutation')
    ctx.rule('C08.m', 'no stale equality values: for every class decorated @value_equality(unhashable=True, ...) that has a base class decorated @value_equality without unhashable, the class '
             'body defines _value_equality_values_, and defines _value_equality_approximate_values_ if either decorator says approximate=True (the decorator keeps an inherited getter, which '
             'is the base class\'s cached one)', floor=1, style='COH')

    def deco(ci):
        for d in ci.node.decorator_list:
            nm = dotted(d.func if isinstance(d, ast.Call) else d) or ''
            if nm.split('.')[-1] == 'value_equality':
                kw = {k.arg: (k.value.value if isinstance(k.value, ast.Constant) else None) for k in d.keywords} if isinstance(d, ast.Call) else {}
                return kw
        return None
    n = 0
    for ci in sorted(repo.classes.values(), key=lambda c: c.qual):
        if '.testing.' in ci.qual or ci.mod.rel.endswith('_test.py'):
            continue
        d = deco(ci)
        if not d or not d.get('unhashable'):
            continue
        bases = [b for b in repo.mro(ci)[1:] if deco(b) is not None and not deco(b).get('unhashable')]
        if not bases:
            continue
        n += 1
        approx = d.get('approximate') or any(deco(b).get('approximate') for b in bases)
        own = {f.name for f in ci.node.body if isinstance(f, ast.FunctionDef)} | {t.id for s in ci.node.body if isinstance(s, ast.Assign) for t in s.targets if isinstance(t, ast.Name)}
        miss = [m for m in (['_value_equality_values_'] + (['_value_equality_approximate_values_'] if approx else [])) if m not in own]
        ctx.ob('C08.m', f'{ci.qual}:own-equality-getters', not miss, '' if not miss else
               f'{ci.name} is mutable (unhashable) but inherits {miss} from {bases[0].name}, where the decorator wrapped it in a per-instance cache: after an in-place change '
               f'{"cirq.approx_eq" if "_approximate_" in miss[0] else "=="} still compares the old values', ci.mod.rel, ci.node.lineno)
    if n == 0:
        raise AnalysisError('C08.m: no unhashable value-equality class below a hashable one found')


QUDIT_EXEMPT = {
    ('cirq.ops.common_gates.XPowGate', 'in_su2'): 'SU(2) is a qubit notion by definition (documented as such)',
    ('cirq.ops.common_gates.ZPowGate', 'in_su2'): 'SU(2) is a qubit notion by definition (documented as such)',
}


def _qudit_shortcuts(ctx, repo):
    """C08.n - a qudit-capable gate does not hand out a qubit-only gate for itself without looking at its dimension."""
    ctx.decided.append('C08.n methods of gate classes with a `dimension` parameter that return a gate of a qubit-only class (phase_by, controlled, ...) test self._dimension first, or give '
                       'the helper the gate itself; otherwise a qutrit X would be replaced by a qubit gate')
    ctx.rule('C08.n', 'dimension-aware shortcuts: in every class whose __init__ takes `dimension`, a method that returns something built by a repository gate class without a dimension / '
             'qid_shape parameter, or by a private module helper, either reads self._dimension / self.dimension or passes self to that helper (tabled exceptions: in_su2)', floor=4, style='COH')
    n = 0
    for ci in sorted(repo.classes.values(), key=lambda c: c.qual):
        if '.testing.' in ci.qual or '.contrib.' in ci.qual or ci.mod.rel.endswith('_test.py'):
            continue
        init = ci.methods.get('__init__')
        if init is None or 'dimension' not in [a.arg for a in init.args.args + init.args.kwonlyargs]:
            continue
        for fn in ci.methods.values():
            if fn.name.startswith('__') and fn.name != '__pow__':
                continue
            built = []
            for r in ast.walk(fn):
                if not (isinstance(r, ast.Return) and r.value is not None):
                    continue
                for c in ast.walk(r.value):
                    if not isinstance(c, ast.Call):
                        continue
                    nm = call_name(c) or ''
                    t = repo.resolve_in_func(ci.mod, fn, nm) if nm else None
                    passes_self = any(isinstance(a, ast.Name) and a.id == 'self' for a in c.args)
                    if t is not None and hasattr(t, 'methods') and hasattr(t, 'qual'):
                        ti = t.methods.get('__init__')
                        params = [a.arg for a in ti.args.args + ti.args.kwonlyargs] if ti else []
                        if 'dimension' not in params and 'qid_shape' not in params and t.qual != ci.qual:
                            built.append(t.name)
                    elif t is not None and isinstance(getattr(t, 'node', None), ast.FunctionDef) and nm.startswith('_') and not passes_self:
                        built.append(nm + '()')
            if not built:
                continue
            n += 1
            reads = any(isinstance(x, ast.Attribute) and x.attr in ('_dimension', 'dimension') and isinstance(x.value, ast.Name) and x.value.id == 'self' for x in ast.walk(fn))
            ex = QUDIT_EXEMPT.get((ci.qual, fn.name))
            ok = reads or ex is not None
            ctx.ob('C08.n', f'{ci.qual}.{fn.name}:dimension-aware', ok, ('tabled: ' + ex) if ex and not reads else '' if ok else
                   f'{ci.name}.{fn.name} returns {sorted(set(built))} - qubit gates - without looking at self._dimension: for dimension 3 the result acts on the wrong space', ci.mod.rel, fn.lineno)
    if n == 0:
        raise AnalysisError('C08.n: no qudit-capable class with a gate-building method found')


# ---------------------------------------------------------------------------------------------------------------------
# C08.o  Exponents are canonicalised modulo `_period()` before two gates are compared.  A value p is a period only if every
# eigenphase exp(i pi t (e + s)) returns to itself when t grows by p, i.e. p (e + s) / 2 is an integer for every eigen shift e.
def period_soundness_rule(ctx, rid='C08.o'):
    from fractions import Fraction
    from . import c03
    repo = ctx.repo
    ctx.rule(rid, 'a period is a period: interpreting PhasedXPowGate._period for global shifts s on a rational grid, and eigen_gate._approximate_common_period on the '
             'period lists {2/|e+s|} of model eigen-shift sets, a returned p (not None) makes p(e+s)/2 an integer for every eigen shift e - otherwise `exponent % p` identifies gates '
             'with different matrices (equality, hashing, dedup and JSON keys rest on it)', floor=150, style='FDX')
    shifts = sorted({Fraction(a, b) for b in (1, 2, 3, 4, 5, 6, 8) for a in range(-3 * b, 3 * b + 1)})
    ci = repo.cls('cirq.ops.phased_x_gate.PhasedXPowGate')
    fn = ci.methods.get('_period')
    if fn is None:
        raise AnalysisError('PhasedXPowGate._period vanished')

    def sound(p, exps):
        return all(abs(p * e / 2 - round(p * e / 2)) < 1e-7 for e in exps if e != 0)
    for s in shifts:
        it = fdx.NumInterp({'self': {'_global_shift': float(s), 'global_shift': float(s)}})
        it.resolver = c03.make_resolver(repo, ci.mod, fn)
        try:
            p = it.call(fn)
        except (fdx.Unsupported, fdx.Raised) as ex:
            raise AnalysisError(f'PhasedXPowGate._period is outside the interpretable subset: {ex}')
        exps = [float(s), 1 + float(s)]
        ok = p is None or (p > 0 and sound(float(p), exps))
        ctx.ob(rid, f'{ci.qual}._period:s={s}', ok, '' if ok else
               f'global_shift={s}: _period() returns {p}, but the eigenphases advance by {exps} half turns per unit exponent: exponent and exponent+{p} are different matrices that compare equal',
               ci.mod.rel, fn.lineno, construct=f'{ci.qual}._period')
    # the helper every other EigenGate goes through
    em = repo.module('cirq-core/cirq/ops/eigen_gate.py')
    hf = em.defs.get('_approximate_common_period')
    if not isinstance(hf, ast.FunctionDef):
        raise AnalysisError('eigen_gate._approximate_common_period vanished')
    shift_sets = [(0, 1), (0, 0.5), (0, 1, 0.5), (0, 1, -0.5), (0, 0.25, 0.5), (0, 2), (-0.5, 0.5), (0, 1, 2), (0, 1 / 3, 2 / 3)]
    for es in shift_sets:
        for s in [x for x in shifts if x.denominator in (1, 2, 3, 4, 6)]:
            exps = sorted({e + float(s) for e in es})
            periods = [abs(2 / e) for e in exps if e != 0]
            if not periods:
                continue
            it = fdx.NumInterp({'periods': list(periods), 'approx_denom': 60, 'reject_atol': 1e-8})
            it.resolver = c03.make_resolver(repo, em, hf)
            try:
                p = it.call(hf)
            except (fdx.Unsupported, fdx.Raised) as ex:
                raise AnalysisError(f'_approximate_common_period is outside the interpretable subset: {ex}')
            ok = p is None or (p > 0 and sound(float(p), exps))
            ctx.ob(rid, f'cirq.ops.eigen_gate._approximate_common_period:shifts={es}:s={s}', ok, '' if ok else
                   f'eigen shifts {es} with global_shift={s}: the common period of {[round(x, 4) for x in periods]} is reported as {p}, which is not a multiple of each',
                   em.rel, hf.lineno, construct='cirq.ops.eigen_gate._approximate_common_period')


def _predicates_compare_values(ctx, repo):
    """C08.q - a predicate's answer is never a bare identity test of two values."""
    ctx.decided.append('C08.q predicate methods (_commutes_, __eq__, _approx_eq_, _equal_up_to_global_phase_, _value_equality_*) never return a bare `a is b` / `a is not b` of two '
                       'non-singleton values: equal values that are different objects (a power X**1, a copy, an unpickled constant) must get the same answer')
    ctx.rule('C08.q', 'values, not objects: in the predicate methods of cirq.ops / cirq.value / cirq.circuits / cirq.devices no return statement returns an identity comparison whose '
             'operands are both ordinary values (not None / NotImplemented / a sentinel or class constant); `if self is other: return True` as a fast path before a value comparison is fine',
             floor=40, style='RG')
    PRED = {'_commutes_', '__eq__', '__ne__', '_approx_eq_', '_equal_up_to_global_phase_', '_commutes_on_qids_'}
    SING = {'None', 'True', 'False', 'NotImplemented', 'Ellipsis'}
    n = 0
    for ci in sorted(repo.classes.values(), key=lambda c: c.qual):
        if '.testing.' in ci.qual or '.contrib.' in ci.qual or not ci.qual.startswith(('cirq.ops.', 'cirq.value.', 'cirq.circuits.', 'cirq.devices.', 'cirq.study.', 'cirq_google.ops.',
                                                                                      'cirq_google.devices.', 'cirq_ionq.', 'cirq_pasqal.', 'cirq_aqt.')):
            continue
        for mn in sorted(PRED & set(ci.methods)):
            fn = ci.methods[mn]
            n += 1
            bad = None
            for r in ast.walk(fn):
                if isinstance(r, ast.Return) and isinstance(r.value, ast.Compare) and len(r.value.ops) == 1 and isinstance(r.value.ops[0], (ast.Is, ast.IsNot)):
                    a, b = ast.unparse(r.value.left), ast.unparse(r.value.comparators[0])
                    if a in SING or b in SING or a.split('.')[-1].isupper() or b.split('.')[-1].isupper():
                        continue
                    bad = r
            ctx.ob('C08.q', f'{ci.qual}.{mn}:value-comparison', bad is None, '' if bad is None else
                   f'`{ast.unparse(bad)}`: the answer depends on object identity - an equal value that is another object (X**1, a copy, an unpickled gate) gets the opposite answer',
                   ci.mod.rel, bad.lineno if bad is not None else fn.lineno)
    if n == 0:
        raise AnalysisError('C08.q: no predicate methods found')


def _interchangeable_means_symmetric(ctx, repo):
    """C08.r - qubits a gate declares interchangeable can be exchanged without changing its matrix."""
    import itertools
    import math
    from . import c03
    ctx.decided.append('C08.r qubit_index_to_equivalence_group_key (on which equality of gate operations with permuted qubits rests): qubits given the same key can be exchanged without '
                       'changing the matrix - PhasedFSimGate interpreted on a grid of (theta, zeta, chi) incl. the special angles, the three-qubit controlled families on their tables')
    ctx.rule('C08.r', 'declared interchangeable => really interchangeable: interpreting qubit_index_to_equivalence_group_key for every qubit index, whenever two indices get the same key '
             'the gate matrix (closed form / eigen-table of C03) is invariant under exchanging those two qubits - otherwise g.on(a, b) == g.on(b, a) holds for operations with '
             'different matrices', floor=60, style='FDX')

    def swap_perm(n, i, j):
        dim = 2 ** n
        P = np.zeros((dim, dim))
        for k in range(dim):
            bits = [(k >> (n - 1 - t)) & 1 for t in range(n)]
            bits[i], bits[j] = bits[j], bits[i]
            P[sum(b << (n - 1 - t) for t, b in enumerate(bits)), k] = 1
        return P

    def keys_of(ci, fn, self_obj, n):
        out = []
        for idx in range(n):
            it = fdx.NumInterp({'self': self_obj, 'index': idx})
            it.globals = {'sympy': {'pi': math.pi}}
            it.methods = {mn: f_ for c_ in repo.mro(ci) for mn, f_ in c_.methods.items()}
            it.resolver = c03.make_resolver(repo, ci.mod, fn)
            params = [a.arg for a in fn.args.args]
            it.env[params[1]] = idx
            try:
                out.append(it.call(fn))
            except (fdx.Unsupported, fdx.Raised) as ex:
                raise AnalysisError(f'{ci.qual}.qubit_index_to_equivalence_group_key is outside the interpretable subset: {ex}')
        return out
    # PhasedFSimGate
    ci = repo.cls('cirq.ops.fsim_gate.PhasedFSimGate')
    fn = ci.methods.get('qubit_index_to_equivalence_group_key')
    if fn is None:
        raise AnalysisError('PhasedFSimGate.qubit_index_to_equivalence_group_key vanished')
    ref = c03.PARAMETRIC['cirq.ops.fsim_gate.PhasedFSimGate'][1]
    P = swap_perm(2, 0, 1)
    thetas = (0.0, math.pi / 2, -math.pi / 2, -math.pi, 1.0, math.pi / 3)
    phases = (0.0, -math.pi, 0.3, 1.1)
    for th, ze, ch in itertools.product(thetas, phases, phases):
        so = {'theta': th, 'zeta': ze, 'chi': ch, 'gamma': 0.2, 'phi': 0.4}
        so.update({'_' + k: v for k, v in list(so.items())})
        k0, k1 = keys_of(ci, fn, so, 2)
        U = np.array(ref(th, ze, ch, 0.2, 0.4), dtype=complex)
        sym = np.allclose(P @ U @ P, U, atol=1e-9)
        ok = (k0 != k1) or sym
        ctx.ob('C08.r', f'{ci.qual}:theta={th:.3f}:zeta={ze:.3f}:chi={ch:.3f}', ok, '' if ok else
               f'PhasedFSimGate(theta={th:.3f}, zeta={ze:.3f}, chi={ch:.3f}) declares its two qubits interchangeable, but exchanging them changes the matrix: g.on(a, b) == g.on(b, a) '
               'although the two operations differ', ci.mod.rel, fn.lineno, construct=f'{ci.qual}.qubit_index_to_equivalence_group_key')
    # table-defined three-qubit families
    for cq in ('cirq.ops.three_qubit_gates.CCZPowGate', 'cirq.ops.three_qubit_gates.CCXPowGate'):
        ci3 = repo.cls(cq)
        fn3 = ci3.methods.get('qubit_index_to_equivalence_group_key')
        if fn3 is None:
            continue
        comps, _ = c03._components(repo, ci3, None)
        for e in (1.0, 0.5, 0.3):
            U = sum(np.exp(1j * np.pi * e * t) * m for t, m in comps)
            ks = keys_of(ci3, fn3, {'_exponent': e, 'exponent': e, '_global_shift': 0.0}, 3)
            for i, j in itertools.combinations(range(3), 2):
                Pij = swap_perm(3, i, j)
                sym = np.allclose(Pij @ U @ Pij, U, atol=1e-9)
                ok = (ks[i] != ks[j]) or sym
                ctx.ob('C08.r', f'{cq}:e={e}:swap({i},{j})', ok, '' if ok else
                       f'{ci3.name}**{e} gives qubits {i} and {j} the same key, but exchanging them changes the matrix', ci3.mod.rel, fn3.lineno,
                       construct=f'{cq}.qubit_index_to_equivalence_group_key')
