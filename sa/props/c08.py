"""C08 - gate algebra and predicates are sound with respect to matrices.

Decided: `controlled()` short-cuts pin every matrix-determining field they drop; a "yes" of
_has_stabilizer_effect_ is always true of the matrix (checked on probe exponents against the
extracted eigen tables); rebuilding a gate never drops a stored field; EigenGate subclasses with
extra constructor parameters override _with_exponent; exact and approximate equality read the
same fields.  Not decided: commutes, approx_eq numerics, trace-distance bounds, phase_by.
"""
from __future__ import annotations

import ast
import itertools

import numpy as np

from ..core import AnalysisError, ClassInfo, call_name, const, dotted, is_self_attr
from ..flow import dominating_atoms
from .. import coh, fdx, fold
from .. import fields as F
from . import shared
from . import c03

shared.exempt('cirq.ops.common_gates.XPowGate', 'with_canonical_global_phase', 'global_shift', 'purpose of the method: returns the gate with its canonical global shift')
shared.exempt('cirq.ops.common_gates.YPowGate', 'with_canonical_global_phase', 'global_shift', 'purpose of the method')
shared.exempt('cirq.ops.common_gates.ZPowGate', 'with_canonical_global_phase', 'global_shift', 'purpose of the method')
shared.exempt('cirq.ops.matrix_gates.MatrixGate', '__pow__', 'name', 'the name labels the original matrix; a power is a different matrix and is shown by its entries')
shared.exempt('cirq.ops.matrix_gates.MatrixGate', '_phase_by_', 'name', 'same: the name labels the original matrix only')

shared.exempt('cirq.ops.pauli_string_phasor.PauliStringPhasor', 'conjugated_by', 'qubits', 'explicit identity-padding qubits are not carried through conjugation; the new Pauli string defines the qubits and the unitary on the joint space is unchanged')
PAULIS1 = {'I': np.eye(2, dtype=complex), 'X': c03.PX, 'Y': c03.PY, 'Z': c03.PZ}


def _is_clifford(u) -> bool:
    n = int(round(np.log2(u.shape[0])))
    if 2 ** n != u.shape[0]:
        return False
    strings = []
    for names in itertools.product('IXYZ', repeat=n):
        m = PAULIS1[names[0]]
        for c in names[1:]:
            m = np.kron(m, PAULIS1[c])
        strings.append(m)
    for q in range(n):
        for g in 'XZ':
            names = ['I'] * n
            names[q] = g
            p = PAULIS1[names[0]]
            for c in names[1:]:
                p = np.kron(p, PAULIS1[c])
            img = u @ p @ u.conj().T
            if not any(np.allclose(img, s * m, atol=1e-8) for m in strings for s in (1, -1)):
                return False
    return True


PROBES = [0, 0.25, 1 / 3, 0.5, 0.75, 1, 1.25, 1.5, 2, 2.5, 3, -0.5, -1, 0.1, 4]


def run(ctx):
    repo = ctx.repo
    ctx.decided += [
        'C08.a controlled() overrides that build a gate of another class pin (by a dominating equality test) every matrix-determining field they do not pass on',
        'C08.b _has_stabilizer_effect_ never answers True for an exponent at which the gate matrix is not Clifford (probe exponents, extracted eigen tables)',
        'C08.c self-reconstruction completeness for every Gate/Operation method that returns a new instance of its class; EigenGate subclasses with extra '
        'constructor parameters override _with_exponent',
        'C08.d exact and approximate value-equality read the same fields',
    ]
    ctx.not_decided += ['commutes / approx_eq / equal_up_to_global_phase numerics', 'trace distance bounds', 'phase_by', 'controlled matrices of ControlledGate']
    Gate = repo.cls('cirq.ops.raw_types.Gate')
    Op = repo.cls('cirq.ops.raw_types.Operation')
    Eigen = repo.cls('cirq.ops.eigen_gate.EigenGate')

    # ------------------------------------------------------------------ C08.a
    ctx.rule('C08.a', 'controlled() short-cut soundness: when the override returns a gate of a different class, every constructor field of '
             'self other than the exponent (global_shift, dimension, ...) is either passed on or pinned to its default by a dominating test', floor=9, style='RG')
    for ci in sorted(repo.classes.values(), key=lambda c: c.qual):
        fn = ci.methods.get('controlled')
        if fn is None or Gate not in repo.mro(ci) or ci is Gate or '.testing.' in ci.qual:
            continue
        info = coh.init_info(repo, ci)
        if info is None or info[1] is None:
            continue
        owner, initfn, params, defaults, varkw = info
        p2f = F.init_param_to_field(repo, ci)
        parents = ci.mod.parents()
        built = []
        for c in ast.walk(fn):
            if isinstance(c, ast.Call):
                d = dotted(c.func)
                r = repo.resolve_in_func(ci.mod, fn, d) if d else None
                if isinstance(r, ClassInfo) and Gate in repo.mro(r) and r is not ci and r.name not in ('ControlledGate',):
                    built.append((r, c))
        if not built:
            continue
        # locals -> self fields they derive from
        ldep = {}
        for _ in range(3):
            for n in ast.walk(fn):
                if isinstance(n, ast.Assign) and isinstance(n.targets[0], ast.Name):
                    deps = {x.attr for x in ast.walk(n.value) if is_self_attr(x)}
                    for x in ast.walk(n.value):
                        if isinstance(x, ast.Name) and x.id in ldep:
                            deps |= ldep[x.id]
                    ldep.setdefault(n.targets[0].id, set()).update(deps)
        for r, c in built:
            passed_src = ' '.join(ast.unparse(a) for a in list(c.args) + [k.value for k in c.keywords])
            for a in list(c.args) + [k.value for k in c.keywords]:
                for x in ast.walk(a):
                    if isinstance(x, ast.Name) and x.id in ldep:
                        passed_src += ' ' + ' '.join(f'self.{f}' for f in ldep[x.id])
            atoms = dominating_atoms(parents, c, fn)
            pinned = {}
            for a, pol in atoms:
                if isinstance(a, ast.Compare) and len(a.ops) == 1 and is_self_attr(a.left):
                    eq = (isinstance(a.ops[0], ast.Eq) and pol) or (isinstance(a.ops[0], ast.NotEq) and not pol)
                    if eq:
                        try:
                            pinned[a.left.attr] = const(a.comparators[0])
                        except ValueError:
                            pass
            for p in params:
                if p == 'exponent' or not p2f.get(p):
                    continue
                flds = p2f[p] | {p}
                if any(f'self.{f}' in passed_src for f in flds):
                    continue
                d = defaults.get(p)
                try:
                    dv = const(d) if d is not None else None
                except ValueError:
                    dv = None
                ok = any(f in pinned and pinned[f] == dv for f in flds)
                ctx.ob('C08.a', f'{ci.qual}.controlled:{r.name}:{p}', ok,
                       '' if ok else f'{ci.name}.controlled() returns {r.name}(...) without passing `{p}` and without a dominating test that '
                       f'self.{sorted(p2f[p])[0]} == {dv!r}: for a {ci.name} with another {p} the specialised gate has a different matrix/shape',
                       ci.mod.rel, c.lineno, construct=f'{ci.qual}.controlled:{r.name}')

    # ------------------------------------------------------------------ C08.b
    ctx.rule('C08.b', 'stabilizer-effect soundness: for every class defining both _has_stabilizer_effect_ and literal eigen-components, and every '
             'probe exponent, a True answer implies U(exponent) conjugates Paulis to Paulis (U from the extracted table)', floor=10, style='TBL')
    for (cq, dim), ref in c03.REFERENCE.items():
        if dim not in (None, 2):
            continue
        ci = repo.cls(cq)
        r = repo.find_method(ci, '_has_stabilizer_effect_')
        if r is None:
            continue
        try:
            comps, how = c03._components(repo, ci, dim)
        except fold.NotLiteral as ex:
            raise AnalysisError(f'eigen-components of {cq} can no longer be extracted ({ex})')
        bad = None
        nonparam = None
        for e in PROBES:
            env_self = {'_exponent': e, 'exponent': e, '_dimension': 2, 'dimension': 2, '_global_shift': 0, 'global_shift': 0}

            def call_hook(call, it):
                s = ast.unparse(call.func)
                if s.endswith('_is_parameterized_') or s.endswith('is_parameterized'):
                    return False
                return NotImplemented
            it = fdx.Interp({'self': env_self}, {}, None, call_hook)
            try:
                ans = it.call(r[1])
            except (fdx.Unsupported, fdx.Raised) as ex:
                raise AnalysisError(f'cannot interpret {cq}._has_stabilizer_effect_: {ex}')
            if ans is True:
                u = sum(np.exp(1j * np.pi * t * e) * m for t, m in comps)
                if not _is_clifford(u):
                    bad = bad or e
        ctx.ob('C08.b', f'{cq}._has_stabilizer_effect_', bad is None,
               '' if bad is None else f'answers True at exponent {bad}, where the gate matrix does not map Paulis to Paulis', r[0].mod.rel, r[1].lineno)
        # parameterized / non-qubit variants must not answer True
        src = ast.unparse(r[1])
        if 'X' in ci.name[:1] or 'Z' in ci.name[:1]:
            if '_dimension' in {f for f in F.init_param_to_field(repo, ci).get('dimension', set())}:
                ok = '_dimension' in src or 'dimension' in src
                ctx.ob('C08.b', f'{cq}._has_stabilizer_effect_:qudit-guard', ok, '' if ok else 'qudit variants (dimension != 2) can answer True', r[0].mod.rel, r[1].lineno)

    # ------------------------------------------------------------------ C08.c
    shared.rebuild_rule(ctx, 'C08.c', floor=80, scope=lambda c: Gate in repo.mro(c) or Op in repo.mro(c))
    ctx.rule('C08.c2', 'every EigenGate subclass whose constructor has parameters besides exponent/global_shift overrides _with_exponent '
             '(EigenGate._with_exponent rebuilds with exponent and global_shift only)', floor=5, style='COH')
    for ci in sorted(repo.subclasses(Eigen), key=lambda c: c.qual):
        if '.testing.' in ci.qual or '.contrib.' in ci.qual:
            continue
        info = coh.init_info(repo, ci)
        if info is None or info[1] is None or info[0] is Eigen:
            continue
        extra = [p for p in info[2] if p not in ('exponent', 'global_shift')]
        required_differs = any(info[3].get(p) is None for p in extra) or 'exponent' not in info[2]
        if not extra and 'exponent' in info[2]:
            continue
        r = repo.find_method(ci, '_with_exponent')
        ok = r is not None and r[0] is not Eigen
        ctx.ob('C08.c2', ci.qual, ok, '' if ok else f'constructor takes {extra} but _with_exponent is inherited from EigenGate: `gate**t` rebuilds the gate without them',
               ci.mod.rel, ci.node.lineno)

    # ------------------------------------------------------------------ C08.c3
    ctx.rule('C08.c3', 'factory-parameter rebuild: a helper that rebuilds a gate through a class passed in as an argument (`gate_class(exponent=...)`) '
             'passes, at every call site, each state-backing constructor parameter of the class actually passed (the global shift excepted where '
             'extracting it is the helper\'s documented purpose)', floor=3, style='COH')
    PURPOSE = {('cirq.ops.common_gates._extract_phase', 'global_shift'): "documented: 'Extracts the global phase field to its own gate'"}
    from ..core import FuncInfo
    for fi in sorted(repo.funcs.values(), key=lambda f: f.qual):
        if '.testing.' in fi.qual or '.contrib.' in fi.qual:
            continue
        fparams = [a.arg for a in fi.node.args.args]
        factory = {}
        for c in ast.walk(fi.node):
            if isinstance(c, ast.Call) and isinstance(c.func, ast.Name) and c.func.id in fparams and c.keywords and not c.args:
                ann = None
                for a in fi.node.args.args:
                    if a.arg == c.func.id and a.annotation is not None:
                        ann = ast.unparse(a.annotation)
                if ann and ('type' in ann.lower()):
                    factory[c.func.id] = c
        if not factory:
            continue
        # call sites
        for mod in repo.modules.values():
            for n in ast.walk(mod.tree):
                if isinstance(n, ast.Call) and (dotted(n.func) or '').split('.')[-1] == fi.name:
                    r = repo.resolve(mod, dotted(n.func))
                    if not (isinstance(r, FuncInfo) and r.node is fi.node):
                        continue
                    for pname, ctor_call in factory.items():
                        idx = fparams.index(pname)
                        arg = n.args[idx] if idx < len(n.args) else None
                        if arg is None:
                            continue
                        K = repo.resolve_class(mod, arg)
                        if K is None:
                            continue
                        info = coh.init_info(repo, K)
                        if info is None or info[1] is None:
                            continue
                        p2f = F.init_param_to_field(repo, K)
                        passed = {k.arg for k in ctor_call.keywords if k.arg}
                        for k in ctor_call.keywords:
                            if k.arg is None and isinstance(k.value, ast.Name):
                                for a_ in ast.walk(fi.node):
                                    if isinstance(a_, ast.Assign) and isinstance(a_.targets[0], ast.Name) and a_.targets[0].id == k.value.id:
                                        for d_ in ast.walk(a_.value):
                                            if isinstance(d_, ast.Dict):
                                                passed |= {kk.value for kk in d_.keys if isinstance(kk, ast.Constant)}
                        miss = [p for p in info[2] if p2f.get(p) and p not in passed and (fi.qual, p) not in PURPOSE]
                        ctx.ob('C08.c3', f'{fi.qual}({K.name})' + (':' + ','.join(miss) if miss else ''), not miss,
                               '' if not miss else f'{fi.name} rebuilds the gate as {K.name}({", ".join(sorted(passed))}=...) and drops `{miss[0]}` of the {K.name} it was given',
                               mod.rel, n.lineno, construct=f'{fi.qual}({K.name})')

    # ------------------------------------------------------------------ C08.d
    ctx.rule('C08.d', '_value_equality_values_ and _value_equality_approximate_values_ of one class read the same fields', floor=2, style='COH')
    for ci in sorted(repo.classes.values(), key=lambda c: c.qual):
        a = ci.methods.get('_value_equality_values_')
        b = ci.methods.get('_value_equality_approximate_values_')
        if a is None or b is None or '.testing.' in ci.qual:
            continue
        fa = F.self_reads(repo, ci, a, depth=1)
        fb = F.self_reads(repo, ci, b, depth=1)
        norm = lambda s: {f.replace('_canonical_exponent', '_exponent') for f in s}
        ok = norm(fa) == norm(fb)
        ctx.ob('C08.d', ci.qual, ok, '' if ok else f'exact equality reads {sorted(fa)} but approximate equality reads {sorted(fb)}', ci.mod.rel, a.lineno)
