"""Rules used by more than one property."""
from __future__ import annotations

import ast
import re
from typing import Dict, Optional, Set

from ..core import AnalysisError, call_name, dotted, stmt_key, walk_local
from .. import fields as F
from .. import coh

CARRY_METHODS = {
    '_resolve_parameters_', '_with_exponent', '__pow__', '_phase_by_', '__neg__', '__pos__',
    '_with_key_path_', '_with_key_path_prefix_', '_with_measurement_key_mapping_',
    '_with_rescoped_keys_', 'with_qubits', 'with_tags', 'with_gate', 'with_probability',
    'with_key', 'with_bits_flipped', 'with_classical_controls', 'without_classical_controls',
    'with_canonical_global_phase', '_rescope_condition_keys_', 'controlled', '__mul__', '__rmul__',
    '__truediv__', 'conjugated_by', 'map_qubits', 'with_coefficient', 'transform_qubits',
    '_with_row_col', '_with_x', 'with_dimension', 'with_line_qubit', 'with_params', 'with_repetition_ids',
    'with_qubit_mapping', 'with_measurement_key_mapping', 'with_key_path', 'with_zeta_chi_gamma',
    'with_z_exponent', 'frozen', 'mutable_copy', 'copy', '__copy__', 'with_parameter', 'with_noise',
    'with_initial_mapper', 'with_fixed', 'unfrozen', 'with_operation', 'with_operations',
    'without_operations_touching', 'with_sub_gate', 'with_prefix', 'replace', '_with_replaced', 'replace_key',
}

# (class qual, method, parameter) -> reason the omission is intended. No wildcards.
REBUILD_EXEMPT = {}
# (class qual, parameter) -> reason; for parameters whose loss on rebuild is documented
REBUILD_EXEMPT_CLASS = {
    ('cirq.circuits.moment.Moment', 'tags'):
        "documented in Moment.__init__: tags 'will be lost on any transformation of the Moment'",
}


def exempt(cq, method, param, reason):
    REBUILD_EXEMPT[(cq, method, param)] = reason


def _in_return_position(fn, call, parents) -> bool:
    cur = call
    while cur in parents:
        p = parents[cur]
        if isinstance(p, ast.Return):
            return True
        if isinstance(p, ast.IfExp) and cur in (p.body, p.orelse):
            cur = p
            continue
        if isinstance(p, (ast.Assign, ast.AnnAssign)) and getattr(p, 'value', None) is cur:
            tgts = p.targets if isinstance(p, ast.Assign) else [p.target]
            names = {t.id for t in tgts if isinstance(t, ast.Name)}
            for r in ast.walk(fn):
                if isinstance(r, ast.Return) and isinstance(r.value, ast.Name) and r.value.id in names:
                    return True
            return False
        return False
    return False


def rebuild_sites(repo, only_methods: Optional[Set[str]] = None):
    """Yield (ci, method name, fn, call, missing params, opaque, defaults) for methods of
    class C that return a newly constructed C.  A parameter is *missing* when it backs a
    stored field that no bound parameter feeds."""
    methods = only_methods or CARRY_METHODS
    for ci in sorted(repo.classes.values(), key=lambda c: c.qual):
        if '.testing.' in ci.qual or '.contrib.' in ci.qual:
            continue
        info = coh.init_info(repo, ci)
        if info is None:
            continue
        owner, initfn, params, defaults, varkw = info
        if initfn is None:
            p2f = {p: {p} for p in params}
            pos_params = list(params)
            vararg = None
        else:
            p2f = F.init_param_to_field(repo, ci)
            pos_params = [a.arg for a in initfn.args.posonlyargs + initfn.args.args[1:]]
            vararg = initfn.args.vararg.arg if initfn.args.vararg is not None else None
        parents = ci.mod.parents()
        for mn, fn in ci.methods.items():
            if mn not in methods:
                continue
            if any((dotted(d) or '').endswith('classmethod') or (dotted(d) or '').endswith('staticmethod') for d in fn.decorator_list):
                continue
            for call in ast.walk(fn):
                # dataclasses.replace(self, ...) / attrs.evolve(self, ...): every field carried over by construction
                if isinstance(call, ast.Call) and (dotted(call.func) or '') in ('dataclasses.replace', 'attrs.evolve', 'attr.evolve') \
                        and call.args and isinstance(call.args[0], ast.Name) and call.args[0].id == 'self' \
                        and _in_return_position(fn, call, parents):
                    yield ci, mn, fn, call, set(), False, defaults
            for call in coh.self_constructions(repo, ci, fn):
                if not _in_return_position(fn, call, parents):
                    continue
                bound, opaque = coh.bind_call(call, pos_params)
                bound_names = set(bound)
                npos = len([a for a in call.args if not isinstance(a, ast.Starred)])
                if vararg and (npos > len(pos_params) or any(isinstance(a, ast.Starred) for a in call.args)):
                    bound_names.add(vararg)
                    opaque = opaque and any(k.arg is None for k in call.keywords)
                covered = set()
                for p in bound_names:
                    covered |= p2f.get(p, set())
                def _primary(p_):
                    # a parameter that has a same-named field is the primary source of that field: no other argument can stand in for it
                    return bool({p_, '_' + p_} & p2f.get(p_, set()))
                missing = {p for p in params if p2f.get(p) and p not in bound_names and (_primary(p) or not p2f[p] <= covered)}
                # a parameter may be omitted where a dominating test pins its field to the default
                if missing:
                    from ..flow import dominating_atoms
                    from ..core import const, is_self_attr
                    for atom, pol in dominating_atoms(parents, call, fn):
                        if isinstance(atom, ast.Compare) and len(atom.ops) == 1 and is_self_attr(atom.left):
                            fld = atom.left.attr
                            eq = (isinstance(atom.ops[0], ast.Eq) and pol) or (isinstance(atom.ops[0], ast.NotEq) and not pol)
                            if not eq:
                                continue
                            for p in list(missing):
                                if (fld in p2f.get(p, ()) or fld == p) and defaults.get(p) is not None:
                                    try:
                                        if const(atom.comparators[0]) == const(defaults[p]):
                                            missing.discard(p)
                                    except ValueError:
                                        pass
                yield ci, mn, fn, call, missing, opaque, defaults


def rebuild_rule(ctx, rid: str, only_methods=None, floor=10, classes=None, scope=None):
    repo = ctx.repo
    ctx.rule(rid, 'self-reconstruction completeness: a method of class C that returns a newly built C '
             'passes every constructor parameter that backs stored state (omitting one silently resets '
             'it to its default)', floor=floor, style='COH')
    for ci, mn, fn, call, missing, opaque, defaults in rebuild_sites(repo, only_methods):
        if classes is not None and ci.qual not in classes:
            continue
        if scope is not None and not scope(ci):
            continue
        key = f'{ci.qual}.{mn}'
        if opaque:
            ctx.unres(rid, key, '*args/**kwargs at construction site', ci.mod.rel, call.lineno)
            ctx.ob(rid, key, True, 'opaque (*/**) forwarding', ci.mod.rel, call.lineno)
            continue
        bad = sorted(p for p in missing if (ci.qual, mn, p) not in REBUILD_EXEMPT and (ci.qual, p) not in REBUILD_EXEMPT_CLASS)
        if bad:
            for p in bad:
                ctx.ob(rid, f'{key}:{p}', False,
                       f'{ci.name}.{mn} rebuilds {ci.name} without passing `{p}` '
                       f'(stored by __init__, default {ast.unparse(defaults[p]) if defaults.get(p) is not None else "<required>"})',
                       ci.mod.rel, call.lineno, construct=key)
        else:
            ctx.ob(rid, key, True, '', ci.mod.rel, call.lineno)


def sweep_prefix_rule(ctx, rid: str):
    repo = ctx.repo
    ctx.rule(rid, 'SimulatorBase.simulate_sweep_iter: the predicate selecting the prefix that is '
             'simulated once for all sweep points rejects parameterized operations', floor=1, style='RG')
    ci = repo.cls('cirq.sim.simulator_base.SimulatorBase')
    fn = repo.method(ci.qual, 'simulate_sweep_iter')
    calls = [c for c in ast.walk(fn) if isinstance(c, ast.Call) and call_name(c) == 'split_into_matching_protocol_then_general']
    if not calls:
        raise AnalysisError('simulate_sweep_iter no longer calls split_into_matching_protocol_then_general')
    for c in calls:
        pred = c.args[1] if len(c.args) > 1 else None
        from ..flow import conjuncts, dominating_atoms

        def rejects(atoms):
            return any((not pol) and isinstance(a, ast.Call) and call_name(a) == 'is_parameterized' for a, pol in atoms)
        ok = False
        if isinstance(pred, ast.Lambda):
            ok = rejects(conjuncts(pred.body, True))
        elif isinstance(pred, ast.Name):
            for n in ast.walk(fn):
                if isinstance(n, ast.FunctionDef) and n.name == pred.id:
                    parents = {ch: pa for pa in ast.walk(n) for ch in ast.iter_child_nodes(pa)}
                    rets = [r for r in ast.walk(n) if isinstance(r, ast.Return)]
                    # every return that can admit an operation is guarded: in the returned conjunction or by a dominating test
                    ok = bool(rets) and all(
                        (isinstance(r.value, ast.Constant) and r.value.value in (False, None)) or r.value is None
                        or rejects(conjuncts(r.value, True)) or rejects(dominating_atoms(parents, r, n))
                        for r in rets)
        ctx.ob(rid, 'cirq.sim.simulator_base.SimulatorBase.simulate_sweep_iter:prefix-predicate', ok,
               '' if ok else 'prefix predicate does not conjoin `not is_parameterized(op)`: a resolver-dependent '
               'operation would be simulated once and reused for every sweep point', ci.mod.rel, c.lineno)


def value_method_names(repo):
    """Method names all of whose definitions (non-test) have value semantics: no store on self, and every return hands back a freshly built
    object of the method's own class family (constructor / replace / copy), `self` unchanged, or NotImplemented."""
    from .. import fields as F
    defs = {}
    for ci in repo.classes.values():
        if '.testing.' in ci.qual:
            continue
        for mn, fn in ci.methods.items():
            defs.setdefault(mn, []).append((ci, fn))

    def fresh(ci, fn):
        if any(isinstance(n, (ast.Yield, ast.YieldFrom)) for n in ast.walk(fn)):
            return False
        rets = [r for r in ast.walk(fn) if isinstance(r, ast.Return)]
        if not rets:
            return False
        fam = {c.name for c in repo.mro(ci)} | {c.name for c in repo.subclasses(ci)} | {'cls'}
        builders = fam | {'replace', '_from_moments', 'copy', 'deepcopy'}
        local_fresh = {n.targets[0].id for n in ast.walk(fn) if isinstance(n, ast.Assign) and isinstance(n.targets[0], ast.Name)
                       and isinstance(n.value, ast.Call) and call_name(n.value) in builders}
        for r in rets:
            v = r.value
            if v is None:
                return False
            ok = (isinstance(v, ast.Call) and (call_name(v) in builders - {'copy', 'deepcopy'} or (isinstance(v.func, ast.Call) and call_name(v.func) == 'type'))) \
                or (isinstance(v, ast.Name) and v.id in local_fresh | {'NotImplemented', 'self'})
            if not ok:
                return False
        if all(isinstance(r.value, ast.Name) and r.value.id in ('self', 'NotImplemented') for r in rets):
            return False
        return not F.self_writes(fn)
    out = {}
    for mn, lst in defs.items():
        if mn.startswith('__'):
            continue
        if all(fresh(ci, fn) for ci, fn in lst):
            out[mn] = lst
    return out


def discarded_value_rule(ctx, rid: str, floor: int = 40):
    """An expression statement `x.m(...)` whose method m only ever *returns* its result (value semantics, see value_method_names) throws the result away:
    the author assumed an in-place update (`tableau.inverse()` instead of `tableau = tableau.inverse()`)."""
    repo = ctx.repo
    ctx.rule(rid, 'no discarded value: for every method name all of whose definitions are non-mutating and return a freshly built object of their own class '
             '(inverse, then, with_*, replace, conjugated_by, ...), no statement calls it on an object and ignores the result', floor=floor, style='EFF')
    names = value_method_names(repo)
    hits = {}
    for m in repo.modules.values():
        if '/testing/' in m.rel:
            continue
        mods = set(m.imports) if hasattr(m, 'imports') else set()
        for st in ast.walk(m.tree):
            if isinstance(st, ast.Expr) and isinstance(st.value, ast.Call) and isinstance(st.value.func, ast.Attribute) and st.value.func.attr in names:
                recv = st.value.func.value
                if isinstance(recv, ast.Name) and (recv.id in mods or recv.id in ('os', 'protocols', 'cirq', 'np', 'dataclasses', 'attrs')):
                    continue          # a module-level function of the same name (os.replace, protocols.inverse)
                hits.setdefault(st.value.func.attr, []).append((m, st))
    for mn in sorted(names):
        h = hits.get(mn, [])
        if not h:
            ctx.ob(rid, f'value-method:{mn}', True, '', names[mn][0][0].mod.rel, names[mn][0][1].lineno)
        for m, st in h:
            ctx.ob(rid, f'value-method:{mn}@{m.name}:{stmt_key(st) if callable(stmt_key) else ast.unparse(st)[:60]}', False,
                   f'`{ast.unparse(st)[:70]}` discards the result of {mn}(), which never changes its receiver ({names[mn][0][0].name}.{mn} returns a new object): '
                   'the statement has no effect', m.rel, st.lineno, construct=f'value-method:{mn}')


# (module rel suffix, function, stored attribute) -> reason: stores into another object's private field that are by design not on a fresh object
FOREIGN_STORE_EXEMPT = {
    ('value/abc_alt.py', '__new__', '_abstract_alternatives_'): 'a function object created by wrap_scope() in the same call',
}


def fresh_method_names(repo):
    """(method_fresh, fresh_expr): method_fresh(name) - every definition of that method name always hands back a newly built object (never self, never a
    stored attribute); calls on self are resolved through the defining class's own MRO."""
    defs = {}
    for ci in repo.classes.values():
        if '.testing.' in ci.qual:
            continue
        for mn, fn in ci.methods.items():
            defs.setdefault(mn, []).append((ci, fn))
    memo = {}

    def fresh_expr(v, seen, ci=None, allow_self=False):
        if isinstance(v, ast.IfExp):
            return fresh_expr(v.body, seen, ci, allow_self) and fresh_expr(v.orelse, seen, ci, allow_self)
        if allow_self and isinstance(v, ast.Name) and v.id == 'self':
            return True
        if isinstance(v, ast.BinOp):
            return True                    # arithmetic on value objects builds a new one
        if isinstance(v, ast.Call):
            cn = call_name(v)
            if cn in ('copy', 'deepcopy', '__new__', 'replace'):
                return True
            if cn and (cn.lstrip('_')[:1].isupper() or cn in ('cls',)):
                return True
            if isinstance(v.func, ast.Call) and call_name(v.func) == 'type':
                return True
            if isinstance(v.func, ast.Attribute) and isinstance(v.func.value, ast.Name) and v.func.value.id == 'self' and ci is not None:
                r = repo.find_method(ci, cn)
                if r is not None:
                    return def_fresh(r[0], r[1], seen)
                return False
        return False

    def def_fresh(ci, fn, seen):
        k = (ci.qual, fn.name)
        if k in memo:
            return memo[k]
        if k in seen:
            return False
        if any(isinstance(n, (ast.Yield, ast.YieldFrom)) for n in ast.walk(fn)):
            memo[k] = False
            return False
        rets = [r for r in ast.walk(fn) if isinstance(r, ast.Return)]
        ok = bool(rets)
        local = {}
        for n in ast.walk(fn):
            if isinstance(n, ast.Assign) and len(n.targets) == 1 and isinstance(n.targets[0], ast.Name):
                local.setdefault(n.targets[0].id, []).append(n.value)
        for r in rets:
            v = r.value
            if isinstance(v, ast.Name) and v.id in local:
                if not all(fresh_expr(x, seen | {k}, ci) for x in local[v.id]):
                    ok = False
            elif isinstance(v, ast.Name) and v.id == 'NotImplemented':
                pass
            elif v is None or not fresh_expr(v, seen | {k}, ci):
                ok = False
        memo[k] = ok
        return ok

    def method_fresh(mn, seen=frozenset()):
        if mn not in defs:
            return False
        return all(def_fresh(ci, fn, seen) for ci, fn in defs[mn])
    return method_fresh, fresh_expr


def _fresh_container_iter(fn, it, fresh_expr):
    """`it` iterates (the values of) a local dict/list every element of which was stored from a fresh expression in this function"""
    base = it
    if isinstance(base, ast.Call) and isinstance(base.func, ast.Attribute) and base.func.attr == 'values' and not base.args:
        base = base.func.value
    if not isinstance(base, ast.Name):
        return False
    stores = []
    for n in ast.walk(fn):
        if isinstance(n, ast.Assign) and len(n.targets) == 1 and isinstance(n.targets[0], ast.Subscript) and isinstance(n.targets[0].value, ast.Name) \
                and n.targets[0].value.id == base.id:
            stores.append(n.value)
        if isinstance(n, ast.Call) and isinstance(n.func, ast.Attribute) and n.func.attr == 'append' and isinstance(n.func.value, ast.Name) and n.func.value.id == base.id and n.args:
            stores.append(n.args[0])
    def fresh_any(v):
        if fresh_expr(v, frozenset(), None, allow_self=False):
            return True
        return isinstance(v, ast.Call) and call_name(v) in ('copy', 'deepcopy')
    return bool(stores) and all(fresh_any(v) for v in stores)


def foreign_store_rule(ctx, rid: str, floor: int = 30):
    """`x._f = v` with x not self: x must be an object this function has just built (constructor, copy, a method that always builds a new object)."""
    repo = ctx.repo
    from ..flow import reaching_defs
    ctx.rule(rid, 'private state of another object is written only on an object the same function has just created (constructor / __new__ / copy / a method every '
             'definition of which returns a newly built object): writing through a reference that may be `self` or a shared instance changes a value other code holds',
             floor=floor, style='WMW')
    method_fresh, fresh_expr = fresh_method_names(repo)
    for m in sorted(repo.modules.values(), key=lambda x: x.rel):
        if '/testing/' in m.rel or '/contrib/' in m.rel or '/cloud/' in m.rel:
            continue
        for fn in [f for f in ast.walk(m.tree) if isinstance(f, ast.FunctionDef)]:
            selfname = fn.args.args[0].arg if fn.args.args else None
            params = {a.arg for a in fn.args.args + fn.args.kwonlyargs}
            sites = []
            for st in ast.walk(fn):
                tg = st.targets if isinstance(st, ast.Assign) else ([st.target] if isinstance(st, (ast.AugAssign, ast.AnnAssign)) else [])
                for t in tg:
                    if isinstance(t, ast.Attribute) and isinstance(t.value, ast.Name) and t.value.id not in (selfname, 'self', 'cls') \
                            and t.attr.startswith('_') and not t.attr.startswith('__'):
                        sites.append((st, t))
            if not sites:
                continue
            rd = reaching_defs(fn, {t.value.id for _, t in sites})
            for st, t in sites:
                nm = t.value.id
                key = f'{m.name}.{fn.name}:{nm}.{t.attr}'
                ex = next((r for (suffix, f, n), r in FOREIGN_STORE_EXEMPT.items() if m.rel.endswith(suffix) and f == fn.name and n == t.attr), None)
                if ex is not None:
                    ctx.ob(rid, key, True, 'listed: ' + ex, m.rel, st.lineno)
                    continue
                defs = rd.get(id(t.value), set())
                bad = []
                # loop variable over a local container filled only with freshly built objects (copies[k] = x.copy(); for c in copies.values(): c._f = ...)
                loops = [l for l in ast.walk(fn) if isinstance(l, ast.For) and isinstance(l.target, ast.Name) and l.target.id == nm]
                if loops and all(_fresh_container_iter(fn, l.iter, fresh_expr) for l in loops):
                    ctx.ob(rid, key, True, 'loop over a local container of freshly built objects', m.rel, st.lineno)
                    continue
                for d in defs:
                    if isinstance(d, str):
                        bad.append(d)                      # 'param' / 'loop' / 'undefined'
                    elif isinstance(d, ast.Call) and isinstance(d.func, ast.Attribute) and not (isinstance(d.func.value, ast.Name) and d.func.value.id == 'self') \
                            and call_name(d) not in ('copy', 'deepcopy', '__new__', 'replace') and not (call_name(d) or ' ')[0].isupper():
                        # a method of another object: fresh iff every definition of that name is
                        if not method_fresh(call_name(d)):
                            bad.append(ast.unparse(d)[:50])
                    elif isinstance(d, ast.Call) and isinstance(d.func, ast.Attribute) and isinstance(d.func.value, ast.Name) and d.func.value.id == 'self':
                        if not method_fresh(call_name(d)):           # any override may be the one that runs
                            bad.append(ast.unparse(d)[:50])
                    elif not fresh_expr(d, frozenset(), None, allow_self=True):
                        bad.append(ast.unparse(d)[:50])
                ok = bool(defs) and not bad
                ctx.ob(rid, key, ok, '' if ok else f'{fn.name} assigns {nm}.{t.attr}, but `{nm}` may be bound to {bad or "nothing this function created"}: '
                       'that object is not known to be new (a definition of the method returns self or a stored object), so the store changes a value shared with the caller',
                       m.rel, st.lineno)


def impossible_sign_test_rule(ctx, rid: str, floor: int = 5):
    """`x = abs(...)` ... `if x < 0:`  - the branch for negative values can never run (Engler: a belief contradicted by the code itself)."""
    repo = ctx.repo
    from ..flow import reaching_defs
    ctx.rule(rid, 'no sign test on a value that was just made non-negative: wherever a local is bound to abs(...), no later test `x < 0` (or `<= -c`) is reached by that '
             'binding only - the branch meant for negative inputs would be dead code', floor=floor, style='MPT')
    n_sites = 0
    for m in sorted(repo.modules.values(), key=lambda x: x.rel):
        if '/testing/' in m.rel or '/cloud/' in m.rel:
            continue
        for fn in [f for f in ast.walk(m.tree) if isinstance(f, ast.FunctionDef)]:
            abs_names = {st.targets[0].id for st in ast.walk(fn) if isinstance(st, ast.Assign) and len(st.targets) == 1 and isinstance(st.targets[0], ast.Name)
                         and isinstance(st.value, ast.Call) and isinstance(st.value.func, ast.Name) and st.value.func.id == 'abs'}
            if not abs_names:
                continue
            rd = reaching_defs(fn, abs_names)
            for nm in sorted(abs_names):
                n_sites += 1
                dead = []
                for c in ast.walk(fn):
                    if isinstance(c, ast.Compare) and len(c.ops) == 1 and isinstance(c.left, ast.Name) and c.left.id == nm and isinstance(c.comparators[0], (ast.Constant, ast.UnaryOp)):
                        try:
                            k = ast.literal_eval(c.comparators[0])
                        except Exception:
                            continue
                        if not isinstance(k, (int, float)):
                            continue
                        impossible = (isinstance(c.ops[0], ast.Lt) and k <= 0) or (isinstance(c.ops[0], ast.LtE) and k < 0)
                        if not impossible:
                            continue
                        defs = rd.get(id(c.left), set())

                        def nonneg(d):
                            if isinstance(d, ast.Call) and isinstance(d.func, ast.Name) and d.func.id == 'abs':
                                return True
                            # x >>= k, x //= k, x %= k keep a non-negative value non-negative (all other definitions must be abs(...) themselves)
                            return isinstance(d, ast.AugAssign) and isinstance(d.op, (ast.RShift, ast.FloorDiv, ast.Mod)) and isinstance(d.value, ast.Constant) \
                                and isinstance(d.value.value, int) and d.value.value > 0
                        if defs and all(not isinstance(d, str) and nonneg(d) for d in defs) and any(isinstance(d, ast.Call) for d in defs):
                            dead.append(c)
                ctx.ob(rid, f'{m.name}.{fn.name}:{nm}', not dead, '' if not dead else f'`{ast.unparse(dead[0])}` is tested after `{nm} = abs(...)`: the branch for negative values '
                       '(e.g. inverting for a negative exponent) can never run', m.rel, (dead[0].lineno if dead else fn.lineno))
    if n_sites == 0:
        raise AnalysisError('no `x = abs(...)` binding found in the repository: the rule no longer has anything to look at')


# ---------------------------------------------------------------------------------------------------------------------
# Seed restart: a RANDOM_STATE_OR_SEED_LIKE parameter may be an int.  parse_random_state(int) builds a *new* generator, so
# handing the raw parameter to something inside a loop restarts the same stream on every iteration: the draws of the
# iterations are identical instead of independent.
SEED_RESTART_EXEMPT = {
    # (module, function): reason
}


def seed_restart_rule(ctx, rid: str, prefixes, floor: int = 5, only_files=None):
    repo = ctx.repo
    ctx.rule(rid, 'one generator per call: in a function with a RANDOM_STATE_OR_SEED_LIKE parameter, the raw parameter is not passed to any call (parse_random_state included) inside a '
             'loop or comprehension - an integer seed would restart the same random stream for every iteration (every measured axis, every factor of a product state, every '
             'measurement operation), making draws that must be independent identical; parse it once before the loop and pass the generator', floor=floor, style='TNT')
    n = 0
    for m in sorted(repo.modules.values(), key=lambda x: x.rel):
        if not m.rel.startswith(tuple(prefixes)) or m.rel.endswith('_test.py') or '/testing/' in m.rel or '/contrib/' in m.rel:
            continue
        if only_files is not None and not any(m.rel.endswith(f) for f in only_files):
            continue
        for fn in [f for f in ast.walk(m.tree) if isinstance(f, (ast.FunctionDef, ast.AsyncFunctionDef))]:
            seeds = {a.arg for a in fn.args.args + fn.args.kwonlyargs if a.annotation is not None and 'RANDOM_STATE_OR_SEED_LIKE' in ast.unparse(a.annotation)}
            if not seeds:
                continue
            rebound = {t.id for s in ast.walk(fn) if isinstance(s, ast.Assign) for t in s.targets if isinstance(t, ast.Name) and t.id in seeds}
            loops = [l for l in ast.walk(fn) if isinstance(l, (ast.For, ast.AsyncFor, ast.While, ast.ListComp, ast.GeneratorExp, ast.SetComp, ast.DictComp))]
            if not loops:
                continue
            n += 1
            bad = []
            for loop in loops:
                if isinstance(loop, (ast.For, ast.AsyncFor, ast.While)):
                    body = list(loop.body)
                elif isinstance(loop, ast.DictComp):
                    body = [loop.key, loop.value] + [i for g in loop.generators for i in g.ifs]
                else:
                    body = [loop.elt] + [i for g in loop.generators for i in g.ifs]
                for st in body:
                    for c in ast.walk(st):
                        if isinstance(c, ast.Call):
                            for a in list(c.args) + [k.value for k in c.keywords]:
                                if isinstance(a, ast.Name) and a.id in seeds - rebound:
                                    bad.append(c)
            key = f'{m.name}.{fn.name}'
            if (m.name, fn.name) in SEED_RESTART_EXEMPT:
                ctx.ob(rid, key, True, 'tabled: ' + SEED_RESTART_EXEMPT[(m.name, fn.name)], m.rel, fn.lineno)
                continue
            ok = not bad
            ctx.ob(rid, key, ok, '' if ok else f'`{ast.unparse(bad[0])[:90]}` sits inside a loop and receives the raw seed parameter: with an integer seed every iteration restarts the '
                   'same stream, so e.g. independent qubits are measured with the same random number and come out perfectly correlated', m.rel, (bad[0].lineno if bad else fn.lineno))
    if n == 0:
        raise AnalysisError(f'{rid}: no function with a RANDOM_STATE_OR_SEED_LIKE parameter and a loop in scope')


# ---------------------------------------------------------------------------------------------------------------------
# Module-level containers are shared by every call.  A function that writes into one (directly, or through a local that is
# just another name for it) makes its result depend on the calls that came before it.
MODULE_STATE_EXEMPT = {
    ('cirq._compat', '_warned'): 'remembers which deprecation warnings were already shown; never feeds a result',
    ('cirq._doc', 'RECORDED_CONST_DOCS'): 'documentation registry filled at import time',
    ('cirq.interop.quirk.cells.arithmetic_cells', 'ARITHMETIC_OP_TABLE'): 'registry filled by the @_arithmetic_gate decorators at import time',
    ('cirq.protocols.json_serialization', 'DEFAULT_RESOLVERS'): 'resolver registry, extended by _register_resolver at import time',
}
_MUTATORS = {'append', 'extend', 'insert', 'add', 'update', 'setdefault', 'pop', 'popitem', 'clear', 'remove', 'discard', 'sort', 'reverse'}


def module_state_rule(ctx, rid: str, prefixes, floor: int = 3):
    repo = ctx.repo
    ctx.rule(rid, 'no state carried between calls: a module-level list/dict/set (literal, comprehension or list()/dict()/set()/defaultdict() call) is never mutated from inside a function, '
             'neither by name nor through a local bound to it without a copy (`groups = _ROOT_GROUPS; groups[k] = v`); tabled exceptions are import-time registries', floor=floor, style='EFF')
    n = 0
    for m in sorted(repo.modules.values(), key=lambda x: x.rel):
        if not m.rel.startswith(tuple(prefixes)) or m.rel.endswith('_test.py') or '/testing/' in m.rel or '_pb2' in m.rel or '/json_test_data/' in m.rel:
            continue
        consts = {}
        for st in m.tree.body:
            tg = v = None
            if isinstance(st, ast.Assign) and len(st.targets) == 1 and isinstance(st.targets[0], ast.Name):
                tg, v = st.targets[0].id, st.value
            elif isinstance(st, ast.AnnAssign) and isinstance(st.target, ast.Name) and st.value is not None:
                tg, v = st.target.id, st.value
            if tg and (isinstance(v, (ast.Dict, ast.List, ast.Set, ast.DictComp, ast.ListComp, ast.SetComp))
                       or (isinstance(v, ast.Call) and (call_name(v) or '').split('.')[-1] in ('dict', 'list', 'set', 'defaultdict', 'OrderedDict', 'Counter'))):
                consts[tg] = st.lineno
        if not consts:
            continue
        writes = {c: [] for c in consts}
        for fn in [f for f in ast.walk(m.tree) if isinstance(f, (ast.FunctionDef, ast.AsyncFunctionDef))]:
            alias = {}
            for s in ast.walk(fn):
                if isinstance(s, ast.Assign) and isinstance(s.value, ast.Name) and s.value.id in consts:
                    for t in s.targets:
                        if isinstance(t, ast.Name):
                            alias[t.id] = s.value.id
                if isinstance(s, ast.NamedExpr) and isinstance(s.value, ast.Name) and s.value.id in consts:
                    alias[s.target.id] = s.value.id
            params = {a.arg for a in fn.args.args + fn.args.kwonlyargs + fn.args.posonlyargs} | ({fn.args.vararg.arg} if fn.args.vararg else set()) | ({fn.args.kwarg.arg} if fn.args.kwarg else set())
            declared_global = {g for s in ast.walk(fn) if isinstance(s, ast.Global) for g in s.names}
            local_defs = {t.id for s in ast.walk(fn) if isinstance(s, (ast.Assign, ast.AnnAssign, ast.AugAssign, ast.For, ast.comprehension, ast.With))
                          for t0 in ([*s.targets] if isinstance(s, ast.Assign) else [getattr(s, 'target', None)] if not isinstance(s, ast.With) else [i.optional_vars for i in s.items])
                          if t0 is not None for t in ast.walk(t0) if isinstance(t, ast.Name)} - declared_global
            shadow = (params | local_defs) - set(alias)

            def root(e):
                while isinstance(e, ast.Subscript):
                    e = e.value
                return e.id if isinstance(e, ast.Name) else None
            for s in ast.walk(fn):
                nm = None
                if isinstance(s, ast.Call) and isinstance(s.func, ast.Attribute) and s.func.attr in _MUTATORS:
                    nm = root(s.func.value)
                elif isinstance(s, (ast.Assign, ast.AugAssign)):
                    for t in (s.targets if isinstance(s, ast.Assign) else [s.target]):
                        if isinstance(t, ast.Subscript):
                            nm = root(t.value)
                        elif isinstance(s, ast.AugAssign) and isinstance(t, ast.Name) and (t.id in alias or t.id in declared_global):
                            nm = t.id
                elif isinstance(s, ast.Delete):
                    for t in s.targets:
                        if isinstance(t, ast.Subscript):
                            nm = root(t.value)
                if nm is None:
                    continue
                c = alias.get(nm) or (nm if nm in consts and nm not in shadow else None)
                if c:
                    writes[c].append((fn, s))
        for c, ln in sorted(consts.items()):
            n += 1
            w = writes[c]
            if (m.name, c) in MODULE_STATE_EXEMPT:
                ctx.ob(rid, f'{m.name}.{c}', True, 'tabled: ' + MODULE_STATE_EXEMPT[(m.name, c)], m.rel, ln)
                continue
            ok = not w
            ctx.ob(rid, f'{m.name}.{c}', ok, '' if ok else f'{w[0][0].name} writes into the module-level container {c} (`{ast.unparse(w[0][1])[:70]}`): what one call stores is still there for '
                   'the next call, so the second result depends on the first', m.rel, (w[0][1].lineno if w else ln))
    if n == 0:
        raise AnalysisError(f'{rid}: no module-level container in scope')


# ---------------------------------------------------------------------------------------------------------------------
# `x or c` replaces every falsy x by c - also a legitimate 0 / 0.0.  With a non-zero numeric c that changes the meaning of
# an explicit zero (a budget of 0 becomes unlimited, an index 0 becomes -1).
OR_DEFAULT_EXEMPT = {
    # (module, function, default text): reason
}


def or_default_rule(ctx, rid: str, prefixes, floor: int = 3):
    repo = ctx.repo
    ctx.rule(rid, 'explicit zero is not a missing value: in every `x or c` of the scoped packages the default c is a zero of its type (0, 0.0, "", (), [], {}, False, None, a fresh '
             'container/constructor call) or a non-numeric object; a non-zero number / infinity as default turns a passed 0 into c - the accepted idiom is `c if x is None else x`', floor=floor, style='WR')
    n = 0
    for m in sorted(repo.modules.values(), key=lambda x: x.rel):
        if not m.rel.startswith(tuple(prefixes)) or m.rel.endswith('_test.py') or '/testing/' in m.rel or '_pb2' in m.rel:
            continue
        for fn in [f for f in ast.walk(m.tree) if isinstance(f, (ast.FunctionDef, ast.AsyncFunctionDef))]:
            k = 0
            for b in ast.walk(fn):
                if not (isinstance(b, ast.BoolOp) and isinstance(b.op, ast.Or)):
                    continue
                last = b.values[-1]
                # only value-selecting uses: `x or c` whose result is stored, passed or returned - not boolean tests
                if isinstance(last, (ast.Compare, ast.BoolOp)) or (isinstance(last, ast.UnaryOp) and isinstance(last.op, ast.Not)):
                    continue
                txt = ast.unparse(last)
                numeric = None
                if isinstance(last, ast.Constant) and isinstance(last.value, (int, float, complex)) and not isinstance(last.value, bool):
                    numeric = last.value != 0
                elif isinstance(last, ast.UnaryOp) and isinstance(last.op, (ast.USub, ast.UAdd)) and isinstance(last.operand, ast.Constant) and isinstance(last.operand.value, (int, float)):
                    numeric = last.operand.value != 0
                elif txt.replace(' ', '') in ('np.inf', 'numpy.inf', 'math.inf', 'float("inf")', "float('inf')", '-np.inf', '-math.inf', 'sys.maxsize'):
                    numeric = True
                if numeric is None:
                    continue
                k += 1
                n += 1
                ex = OR_DEFAULT_EXEMPT.get((m.name, fn.name, txt))
                ok = (not numeric) or ex is not None
                ctx.ob(rid, f'{m.name}.{fn.name}:or-default#{k}:{txt}', ok, ('tabled: ' + ex) if ex else '' if ok else
                       f'`{ast.unparse(b)[:80]}`: a caller passing 0 gets {txt} instead (a used-up budget of 0 samples becomes unlimited); test `is None` instead', m.rel, b.lineno)
    return n


# ---------------------------------------------------------------------------------------------------------------------
# A parameter typed Iterable / Iterator / OP_TREE may be a generator.  Once a function has materialised it
# (`flat = tuple(flatten(contents))`), the parameter itself may be exhausted: consuming it again yields nothing.
def reconsume_rule(ctx, rid: str, prefixes, floor: int = 1):
    from ..flow import PathWalker
    repo = ctx.repo
    ctx.rule(rid, 'single pass over one-shot arguments: after a parameter annotated Iterable / Iterator / OP_TREE has been materialised into a local (x = tuple/list/sorted/set(...param...)), '
             'no later statement on any path iterates the parameter or passes it on again - a generator argument is empty by then and its operations would be silently lost; the local copy '
             'is what must be used', floor=floor, style='TNT')
    ONE = ('Iterable', 'Iterator', 'OP_TREE', 'Generator')
    MAT = {'tuple', 'list', 'sorted', 'set', 'frozenset'}
    BENIGN = {'isinstance', 'len', 'type', 'id', 'repr', 'str', 'bool', 'callable', 'hasattr', 'getattr'}

    def one(a):
        if a.annotation is None:
            return False
        t = ast.unparse(a.annotation)
        return any(p.strip().strip('\'"').split('[')[0].split('.')[-1] in ONE for p in t.split('|'))
    n = 0
    for m in sorted(repo.modules.values(), key=lambda x: x.rel):
        if not m.rel.startswith(tuple(prefixes)) or m.rel.endswith('_test.py') or '/testing/' in m.rel or '_pb2' in m.rel:
            continue
        par = None
        for fn in [f for f in ast.walk(m.tree) if isinstance(f, (ast.FunctionDef, ast.AsyncFunctionDef))]:
            params = {a.arg for a in fn.args.args + fn.args.kwonlyargs + ([fn.args.vararg] if fn.args.vararg else []) if one(a)}
            if not params:
                continue
            nested = {id(x) for f in ast.walk(fn) if f is not fn and isinstance(f, (ast.FunctionDef, ast.AsyncFunctionDef, ast.Lambda)) for x in ast.walk(f)}
            rebound = {t.id for s in ast.walk(fn) if isinstance(s, ast.Assign) for t in s.targets if isinstance(t, ast.Name)} & params
            for st in ast.walk(fn):
                if id(st) in nested or not (isinstance(st, ast.Assign) and len(st.targets) == 1 and isinstance(st.targets[0], ast.Name)
                                            and isinstance(st.value, ast.Call) and call_name(st.value) in MAT):
                    continue
                local = st.targets[0].id
                for p in sorted({x.id for x in ast.walk(st.value) if isinstance(x, ast.Name) and x.id in params} - rebound - {local}):
                    if par is None:
                        par = m.parents()
                    n += 1

                    def consumes(node, p=p):
                        for x in ast.walk(node):
                            if id(x) in nested:
                                continue
                            if isinstance(x, ast.Name) and x.id == p and isinstance(x.ctx, ast.Load):
                                pp = par.get(x)
                                if isinstance(pp, (ast.For, ast.comprehension)) and pp.iter is x:
                                    return x
                                if isinstance(pp, ast.Call) and x in pp.args and (call_name(pp) or '').split('.')[-1] not in BENIGN:
                                    return x
                                if isinstance(pp, (ast.Starred, ast.keyword, ast.YieldFrom)):
                                    return x
                        return None
                    hits = []

                    def transfer(node, s, st=st):
                        if node is st:
                            return ['after']
                        if s == 'after' and not isinstance(node, (ast.If, ast.For, ast.While, ast.With, ast.Try, ast.FunctionDef, ast.AsyncFunctionDef, ast.ClassDef, ast.Match)):
                            h = consumes(node)
                            if h is not None:
                                hits.append(h)
                        return [s]
                    try:
                        PathWalker(transfer).run(fn, 'before')
                    except RuntimeError:
                        ctx.unres(rid, f'{m.name}.{fn.name}:{p}', 'path explosion', m.rel, fn.lineno)
                        continue
                    ok = not hits
                    ctx.ob(rid, f'{m.name}.{fn.name}:{p}', ok, '' if ok else f'`{p}` was already consumed into `{local}` (line {st.lineno}) and is consumed again at line {hits[0].lineno}: '
                           f'a generator passed as `{p}` is empty the second time, so what it held is silently dropped', m.rel, (hits[0].lineno if hits else st.lineno))
    if n == 0:
        raise AnalysisError(f'{rid}: no materialised one-shot parameter in scope')


# ---------------------------------------------------------------------------------------------------------------------
# Operations that wrap children (a sub-operation, conditions, a circuit) rewrite the keys of those children in their
# key-rewriting protocol methods.  Their `_control_keys_` must report the control keys of the same children: the circuit
# uses it to keep an operation behind the measurement it reads.
KEY_REWRITERS = {
    '_with_measurement_key_mapping_': 'with_measurement_key_mapping',
    '_with_key_path_': 'with_key_path',
    '_with_key_path_prefix_': 'with_key_path_prefix',
    '_with_rescoped_keys_': 'with_rescoped_keys',
}


def rewritten_children(repo, kc):
    """fields of kc that flow into the protocol call of one of its key-rewriting methods; {} for leaf classes"""
    from ..flow import name_deps
    out = {}
    for mn, pf in KEY_REWRITERS.items():
        fn = kc.methods.get(mn)
        if fn is None:
            continue

        def src(n_):
            if isinstance(n_, ast.Attribute) and isinstance(n_.value, ast.Name) and n_.value.id == 'self':
                return {F.norm_field(repo, kc, n_.attr)}
            return None
        dep = name_deps(fn, {}, source_of=src)
        got = set()
        for c_ in ast.walk(fn):
            if isinstance(c_, ast.Call) and call_name(c_) in (pf, '_' + pf + '_'):
                exprs = list(c_.args) + [k_.value for k_ in c_.keywords]
                if isinstance(c_.func, ast.Attribute):
                    exprs.append(c_.func.value)
                for a_ in exprs:
                    for x_ in ast.walk(a_):
                        if isinstance(x_, ast.Name):
                            got |= dep.get(x_.id, set())
                        got |= src(x_) or set()
        out[mn] = {f for f in got if f.startswith('_')}
    return out


def control_keys_cover_rule(ctx, rid: str, floor: int = 3):
    repo = ctx.repo
    ctx.rule(rid, 'control keys are reported for every child: a class whose key-rewriting protocol methods rewrite the keys of child fields (sub-operation, conditions, operations) '
             'reads every one of those fields in `_control_keys_` - otherwise keys read inside the child are invisible to the circuit, which then places the operation before or next to '
             'the measurement it depends on', floor=floor, style='COH')
    for kc in sorted(repo.classes.values(), key=lambda c_: c_.qual):
        if '.testing.' in kc.qual or '.contrib.' in kc.qual or kc.qual == 'cirq.value.measurement_key.MeasurementKey':
            continue
        qfn = kc.methods.get('_control_keys_')
        if qfn is None:
            continue
        rw = rewritten_children(repo, kc)
        union = set().union(*rw.values()) if rw else set()
        if not union:
            continue
        rd_ = {F.norm_field(repo, kc, f_) for f_ in F.self_reads(repo, kc, qfn, depth=2)}
        miss = sorted(union - rd_)
        ctx.ob(rid, f'{kc.qual}._control_keys_:covers-rewritten-children', not miss,
               '' if not miss else f'_control_keys_ never looks at {miss}, whose keys the key-rewriting methods of {kc.name} rewrite: control keys read inside that child are not '
               'reported, so the circuit places the operation before / next to the measurement it depends on', kc.mod.rel, qfn.lineno)


# ---------------------------------------------------------------------------------------------------------------------
# XPowGate and ZPowGate take a `dimension`: the same class is the qubit Pauli and the qudit shift / clock gate.  Code that
# recognises one of them by isinstance() and then uses qubit facts (period 2, self-inverse, a named qubit gate, a bit flip)
# must look at the dimension, or be unreachable for qudits for a stated reason.
QUDIT_DISPATCH_EXEMPT = {
    ('cirq.sim.clifford.stabilizer_simulation_state', '_strat_apply_gate'): 'dominated by has_stabilizer_effect(val), which is False for every gate with dimension != 2',
    ('cirq.transformers.diagonal_optimization', '_is_z_or_cz_pow_gate'): 'only diagonality is used, which holds for the clock gate of every dimension',
    ('cirq.transformers.eject_z', 'map_func'): 'the tracked phase is re-emitted as cirq.Z**h on the same qid, which raises on a qid of another dimension: never silently wrong',
    ('cirq.ops.controlled_operation', '_qasm_'): 'QASM export of a qudit operation is refused by the qubit-only output (shape error) before the mnemonic is used',
    ('cirq.ops.common_gates', '_commutes_on_qids_'): 'diagonal gates commute in every dimension',
    ('cirq_google.api.v1.programs', 'gate_to_proto'): 'v1 programs address GridQubits only; a gate of dimension 3 cannot be applied to them',
    ('cirq_google.serialization.circuit_serializer', '_serialize_gate_op'): 'the wire format addresses GridQubits only; a gate of dimension 3 cannot be applied to them',
    ('cirq_google.devices.google_noise_properties', 'is_virtual'): 'device operations act on GridQubits only',
    ('cirq_aqt.aqt_device', 'get_op_string'): 'AQT devices act on LineQubits only',
    ('cirq_google.api.v1.programs', 'is_native_xmon_gate'): 'v1 programs address GridQubits only; a gate of dimension 3 cannot be applied to them',
}


def qudit_blind_dispatch_rule(ctx, rid: str, prefixes, floor: int = 2):
    repo = ctx.repo
    ctx.rule(rid, 'dimension-aware recognition: a function that recognises a gate by isinstance(g, C) where C (or a member of the tuple) is a class whose constructor takes `dimension` '
             '(XPowGate, ZPowGate) reads the dimension / qid shape of what it recognised somewhere in its body, or the site is tabled with the reason qudits cannot reach it - '
             'qubit facts (period 2, self-inverse, bit flip) do not hold for the qudit gate of the same class', floor=floor, style='RG')
    dim_classes = set()
    for ci in repo.classes.values():
        init = ci.methods.get('__init__')
        if init is not None and 'dimension' in {a.arg for a in init.args.args + init.args.kwonlyargs} and ci.qual.startswith('cirq.ops.') \
                and any(b.name == 'EigenGate' for b in repo.mro(ci)):
            dim_classes.add(ci.name)
    if not {'XPowGate', 'ZPowGate'} <= dim_classes:
        raise AnalysisError(f'{rid}: XPowGate/ZPowGate no longer take `dimension` ({sorted(dim_classes)})')
    n = 0
    for m in sorted(repo.modules.values(), key=lambda x: x.rel):
        if not m.rel.startswith(tuple(prefixes)) or m.rel.endswith('_test.py') or '/testing/' in m.rel or '/contrib/' in m.rel:
            continue
        for fn in [f for f in ast.walk(m.tree) if isinstance(f, (ast.FunctionDef, ast.AsyncFunctionDef))]:
            inner = {id(x) for f in ast.walk(fn) if f is not fn and isinstance(f, (ast.FunctionDef, ast.AsyncFunctionDef)) for x in ast.walk(f)}
            hits = []
            for c in ast.walk(fn):
                if id(c) in inner or not (isinstance(c, ast.Call) and call_name(c) == 'isinstance' and len(c.args) == 2):
                    continue
                tnodes = c.args[1].elts if isinstance(c.args[1], ast.Tuple) else [c.args[1]]
                names = {ast.unparse(t).split('.')[-1] for t in tnodes}
                if names & dim_classes:
                    hits.append((c, sorted(names & dim_classes)))
            if not hits:
                continue
            toks = {x.attr for x in ast.walk(fn) if isinstance(x, ast.Attribute)} | {x.id for x in ast.walk(fn) if isinstance(x, ast.Name)}
            aware = bool(toks & {'dimension', '_dimension', 'qid_shape', '_qid_shape_', 'control_qid_shape'})
            ex = QUDIT_DISPATCH_EXEMPT.get((m.name, fn.name))
            n += 1
            ok = aware or ex is not None
            c, which = hits[0]
            ctx.ob(rid, f'{m.name}.{fn.name}:isinstance-{"/".join(which)}', ok, ('tabled: ' + ex) if (ex and not aware) else '' if ok else
                   f'`{ast.unparse(c)[:70]}` also matches the qudit gate {which[0]}(dimension=d); the function never looks at the dimension, so what it concludes for the qubit Pauli '
                   '(period 2, self-inverse, bit flip, a named qubit gate) is applied to a shift / clock gate', m.rel, c.lineno)
    return n


# ---------------------------------------------------------------------------------------------------------------------
# Circuit.prev_moment_operating_on / next_moment_operating_on answer "when is this *qubit* busy".  An operation may also be
# tied to another one through a measurement key (a classical control must stay behind the measurement it reads, and a
# re-measurement of the key behind the control).  Circuit.earliest_available_moment takes both into account.
def placement_query_rule(ctx, rid: str, prefixes, floor: int = 1):
    repo = ctx.repo
    ctx.rule(rid, 'key-aware scheduling: a transformer that computes where an operation may be placed asks Circuit.earliest_available_moment (qubits, measurement keys and control keys); '
             'the qubit-only queries prev_moment_operating_on / next_moment_operating_on are used for that only when a statement that uses their answer also consults the keys of the operation '
             '(measurement_key_objs / control_keys / is_measurement) - otherwise operations ordered only through a measurement key overtake each other', floor=floor, style='RG')
    KEYS = {'measurement_key_objs', 'measurement_key_names', 'control_keys', 'is_measurement', 'measurement_keys_touched'}
    for m in sorted(repo.modules.values(), key=lambda x: x.rel):
        if not m.rel.startswith(tuple(prefixes)) or m.rel.endswith('_test.py') or '/testing/' in m.rel or '/contrib/' in m.rel:
            continue
        for fn in [f for f in ast.walk(m.tree) if isinstance(f, (ast.FunctionDef, ast.AsyncFunctionDef))]:
            k = 0
            for c in ast.walk(fn):
                if not (isinstance(c, ast.Call) and isinstance(c.func, ast.Attribute)):
                    continue
                if c.func.attr == 'earliest_available_moment':
                    k += 1
                    ctx.ob(rid, f'{m.name}.{fn.name}:placement#{k}:earliest_available_moment', True, '', m.rel, c.lineno)
                elif c.func.attr in ('prev_moment_operating_on', 'next_moment_operating_on'):
                    k += 1
                    # the keys must enter the same placement decision: the statement that takes the qubit-only answer also takes a key-based one
                    st = c
                    par = m.parents()
                    while st in par and not isinstance(st, ast.stmt):
                        st = par[st]
                    res = {t.id for t in ast.walk(st) if isinstance(t, ast.Name) and isinstance(t.ctx, ast.Store)}
                    users = [s2 for s2 in ast.walk(fn) if isinstance(s2, ast.stmt) and not isinstance(s2, (ast.FunctionDef, ast.For, ast.While, ast.If, ast.With, ast.Try))
                             and ({x.id for x in ast.walk(s2) if isinstance(x, ast.Name) and isinstance(x.ctx, ast.Load)} & res)] + [st]
                    ok = any(({x.attr for x in ast.walk(u) if isinstance(x, ast.Attribute)} | {x.id for x in ast.walk(u) if isinstance(x, ast.Name)}) & KEYS for u in users)
                    ctx.ob(rid, f'{m.name}.{fn.name}:placement#{k}:{c.func.attr}', ok, '' if ok else
                           f'`{ast.unparse(c)[:80]}` schedules by qubits alone and the function never looks at measurement / control keys: a classically controlled operation and a '
                           're-measurement of its key on other qubits can swap places', m.rel, c.lineno)


# ---------------------------------------------------------------------------------------------------------------------
# Operations that only *read* a measurement key commute with each other: they are placed in any order, so the entry "latest
# moment that reads key k" must be a running maximum.  (A re-measurement of k has to stay behind all of them.)
def control_index_monotone_rule(ctx, rid: str, prefixes, floor: int = 2):
    repo = ctx.repo
    ctx.rule(rid, 'latest reader of a key: wherever a placement routine records, for every control key of the operation it has just placed (`for key in <control keys of op>`), the moment '
             'index of that operation in a dictionary, it stores max(<index>, <previous entry>) - operations controlled by the same key are placed in any order, a plain overwrite can '
             'move the entry back and let a later measurement of the key slip in front of a reader', floor=floor, style='COH')
    n = 0
    for m in sorted(repo.modules.values(), key=lambda x: x.rel):
        if not m.rel.startswith(tuple(prefixes)) or m.rel.endswith('_test.py') or '/contrib/' in m.rel or 'control_keys' not in m.src and 'ckeys' not in m.src:
            continue
        for fn in [f for f in ast.walk(m.tree) if isinstance(f, (ast.FunctionDef, ast.AsyncFunctionDef))]:
            # names holding the control keys of an operation
            ck_names = set()
            for a in ast.walk(fn):
                if isinstance(a, ast.Assign) and len(a.targets) == 1 and isinstance(a.targets[0], ast.Name) and any(
                        (isinstance(c, ast.Call) and (call_name(c) or '').split('.')[-1] in ('control_keys', '_control_keys_')) for c in ast.walk(a.value)):
                    ck_names.add(a.targets[0].id)
            for lp in ast.walk(fn):
                if not (isinstance(lp, ast.For) and isinstance(lp.target, ast.Name)):
                    continue
                it = lp.iter
                is_ck = any(isinstance(c, ast.Call) and (call_name(c) or '').split('.')[-1] in ('control_keys', '_control_keys_') for c in ast.walk(it)) or \
                    (isinstance(it, ast.Name) and it.id in ck_names)
                if not is_ck:
                    continue
                kv = lp.target.id
                for st in lp.body:
                    if isinstance(st, ast.Assign) and len(st.targets) == 1 and isinstance(st.targets[0], ast.Subscript) and isinstance(st.targets[0].slice, ast.Name) \
                            and st.targets[0].slice.id == kv and isinstance(st.targets[0].value, (ast.Name, ast.Attribute)):
                        d = ast.unparse(st.targets[0].value)
                        v = st.value
                        ok = isinstance(v, ast.Call) and call_name(v) == 'max' and any(d in ast.unparse(a_) for a_ in v.args)
                        n += 1
                        ctx.ob(rid, f'{m.name}.{fn.name}:{d}[control key]', ok, '' if ok else
                               f'`{ast.unparse(st)[:80]}` overwrites the entry of a control key: when the operation just placed sits earlier than another reader of the key, the entry '
                               'moves back and a later measurement of the key may be placed in front of that reader', m.rel, st.lineno)
    if n == 0:
        raise AnalysisError(f'{rid}: no control-key index bookkeeping found')


# ---------------------------------------------------------------------------------------------------------------------
# `_act_on_(self, sim_state, qubits)` applies a gate to *those* qubits of a larger state.  Whatever is written into the
# state must have been routed through `qubits` (get_axes(qubits), a padded tableau, the qubits themselves) on every
# definition that can reach the update: a definition that does not depend on `qubits` applies the gate in the state's
# own qubit order.
def act_on_routes_qubits_rule(ctx, rid: str, floor: int = 3):
    repo = ctx.repo
    ctx.rule(rid, 'the update knows where the gate sits: in every `_act_on_(self, sim_state, qubits)` of cirq.ops / cirq.circuits, each local that is used in a statement updating or '
             'delegating to sim_state has only definitions that depend on `qubits` (directly or through locals that do) - a fast path that takes the gate\'s own tableau / matrix '
             'without routing it through the axes of `qubits` is right only when the gate is applied in the state\'s own qubit order', floor=floor, style='TNT')
    n = 0
    for ci in sorted(repo.classes.values(), key=lambda c: c.qual):
        if '.testing.' in ci.qual or '.contrib.' in ci.qual or not ci.qual.startswith(('cirq.ops.', 'cirq.circuits.', 'cirq_google.', 'cirq_ionq.')):
            continue
        fn = ci.methods.get('_act_on_')
        if fn is None:
            continue
        params = [a.arg for a in fn.args.args]
        if len(params) < 3:
            continue
        st, qb = params[1], params[2]
        defs = {}
        for s in ast.walk(fn):
            tg = []
            if isinstance(s, ast.Assign):
                tg = list(s.targets)
            elif isinstance(s, ast.AnnAssign) and s.value is not None:
                tg = [s.target]
            elif isinstance(s, ast.NamedExpr):
                tg = [s.target]
            for t in tg:
                for x in ast.walk(t):
                    if isinstance(x, ast.Name) and isinstance(x.ctx, ast.Store):
                        defs.setdefault(x.id, []).append(s.value)
            if isinstance(s, (ast.For, ast.comprehension)):
                for x in ast.walk(s.target):
                    if isinstance(x, ast.Name):
                        defs.setdefault(x.id, []).append(s.iter)
        memo = {}

        def dep_name(nm, stack=()):
            if nm == qb:
                return True
            if nm in memo:
                return memo[nm]
            if nm in stack or nm not in defs:
                return False
            r = all(any(isinstance(x, ast.Name) and dep_name(x.id, stack + (nm,)) for x in ast.walk(e)) for e in defs[nm])
            memo[nm] = r
            return r
        updates = []
        # handles of the state: the parameter itself and locals that are attribute chains of it (tableau = sim_state.tableau)
        handles = {st}
        for nm, es in defs.items():
            if es and all(isinstance(e, ast.Attribute) and dotted(e) and dotted(e).split('.')[0] == st for e in es):
                handles.add(nm)
        for s in ast.walk(fn):
            call = None
            if isinstance(s, ast.Assign) and any(isinstance(t, (ast.Attribute, ast.Subscript)) and any(isinstance(x, ast.Name) and x.id in handles for x in ast.walk(t))
                                                 for t0 in s.targets for t in (t0.elts if isinstance(t0, ast.Tuple) else [t0])):
                updates.append(s)
                continue
            if isinstance(s, ast.Expr) and isinstance(s.value, ast.Call):
                call = s.value
            elif isinstance(s, ast.Return) and isinstance(s.value, ast.Call):
                call = s.value
            if call is not None and (any(isinstance(x, ast.Name) and x.id == st for x in ast.walk(call.func))
                                     or any(isinstance(a, ast.Name) and a.id == st for a in list(call.args) + [k.value for k in call.keywords])):
                updates.append(s)
        for k, u in enumerate(updates, 1):
            names = {x.id for x in ast.walk(u) if isinstance(x, ast.Name) and isinstance(x.ctx, ast.Load) and x.id not in handles and x.id != 'self' and (x.id in defs or x.id == qb)}
            if not names:
                continue        # nothing local involved (a zero-qubit effect or pure delegation of self)
            bad = sorted(nm for nm in names if not dep_name(nm))
            n += 1
            ctx.ob(rid, f'{ci.qual}._act_on_:update#{k}', not bad, '' if not bad else
                   f'`{ast.unparse(u)[:70]}` uses `{bad[0]}`, one of whose definitions does not depend on `{qb}`: on that path the gate is applied without regard to which qubits of the '
                   'state it acts on', ci.mod.rel, u.lineno)
    if n == 0:
        raise AnalysisError(f'{rid}: no _act_on_ with a local-dependent state update found')


# ---------------------------------------------------------------------------------------------------------------------
def aqt_single_qubit_shortcut_rule(ctx, rid: str):
    """AQTTargetGateset._decompose_single_qubit_operation: a hard-wired replacement is the gate it replaces."""
    import numpy as np
    from .. import fdx
    repo = ctx.repo
    ctx.rule(rid, 'shortcut == gate: interpreting AQTTargetGateset._decompose_single_qubit_operation on model operations H**e (e = 1, -1, 3, 2, 0, 0.5, 1.5), whenever the method returns a '
             'hard-wired rotation list (not the generic matrix synthesis) the product of the listed rx / ry / rz rotations equals H**e up to global phase', floor=5, style='FDX')
    ci = repo.cls('cirq_aqt.aqt_target_gateset.AQTTargetGateset')
    fn = ci.methods.get('_decompose_single_qubit_operation')
    if fn is None:
        raise AnalysisError('AQTTargetGateset._decompose_single_qubit_operation vanished')
    X = np.array([[0, 1], [1, 0]], dtype=complex)
    Y = np.array([[0, -1j], [1j, 0]], dtype=complex)
    Z = np.diag([1, -1]).astype(complex)
    H = (X + Z) / np.sqrt(2)

    def rot(P, rads):
        return np.cos(rads / 2) * np.eye(2) - 1j * np.sin(rads / 2) * P

    class Rot:
        def __init__(self, mat):
            self.mat = mat

        def on(self, *qs):
            return self

    class HP:
        def __init__(self, e):
            self.exponent = e
            self._exponent = e
            self.global_shift = 0.0

    class Op:
        _fdx_settable = False

        def __init__(self, e):
            self.gate = HP(e)
            self.qubits = ('q0',)
            self.tags = ()
            self.untagged = self

    class Generic:
        pass
    for e in (1, -1, 3, 2, 0, 0.5, 1.5, -3):
        op = Op(e)

        def call_hook(call, it, op=op):
            s_ = ast.unparse(call.func)
            last = s_.split('.')[-1]
            if last == 'isinstance' or s_ == 'isinstance':
                v = it.ev(call.args[0])
                t = ast.unparse(call.args[1]).split('.')[-1]
                if t == 'CircuitOperation':
                    return False
                if t == 'HPowGate':
                    return isinstance(v, HP)
                return False
            if last in ('rx', 'ry', 'rz'):
                return Rot(rot({'rx': X, 'ry': Y, 'rz': Z}[last], float(it.ev(call.args[0]))))
            if last == 'has_unitary':
                return True
            if last in ('single_qubit_matrix_to_phased_x_z', 'unitary'):
                return [Generic()] if last.startswith('single') else 'U'
            return NotImplemented

        def attr_hook(node, it):
            try:
                v = it.ev(node.value)
            except fdx.Unsupported:
                return NotImplemented
            if isinstance(v, (Op, HP, Rot)) and hasattr(v, node.attr):
                return getattr(v, node.attr)
            if isinstance(v, Generic) and node.attr == 'on':
                return lambda *a: v
            if isinstance(v, dict) and node.attr == '_intermediate_result_tag':
                return '_tag'
            return NotImplemented
        params = [a.arg for a in fn.args.args]
        env = {params[0]: {}, params[1]: op}
        for extra in params[2:]:
            env[extra] = 0
        it = fdx.NumInterp(env, call_hook=call_hook, attr_hook=attr_hook)
        it.builtins.pop('isinstance', None)
        try:
            out = it.call(fn)
        except (fdx.Unsupported, fdx.Raised) as ex:
            raise AnalysisError(f'AQTTargetGateset._decompose_single_qubit_operation is outside the interpretable subset: {ex}')
        if out is NotImplemented or out is None or (isinstance(out, list) and any(isinstance(x, Generic) for x in out)):
            ctx.ob(rid, f'{ci.qual}._decompose_single_qubit_operation:H**{e}', True, 'generic synthesis / declined', ci.mod.rel, fn.lineno)
            continue
        if not (isinstance(out, (list, tuple)) and all(isinstance(x, Rot) for x in out)):
            raise AnalysisError(f'AQT single-qubit decomposition returned an unmodelled value for H**{e}: {out!r}')
        u = np.eye(2, dtype=complex)
        for r_ in out:      # operations are listed in time order
            u = r_.mat @ u
        ev_, evec = np.linalg.eigh(H)
        want = (evec * np.exp(1j * np.pi * e * (1 - ev_) / 2)) @ evec.conj().T
        ov = abs(np.trace(want.conj().T @ u)) / 2
        ok = abs(ov - 1) < 1e-9
        ctx.ob(rid, f'{ci.qual}._decompose_single_qubit_operation:H**{e}', ok, '' if ok else
               f'H**{e} is replaced by a fixed rotation list whose product is not H**{e} up to phase (overlap {ov:.4f}): the compiled circuit computes something else', ci.mod.rel, fn.lineno)


# ---------------------------------------------------------------------------------------------------------------------
# An execution of `_decompose_` that hands back no operation at all says "this gate is the identity".  For a class whose
# constructor takes phase-like parameters that claim cannot be made without having looked at one of them.
PHASE_LIKE = re.compile(r'(exponent|phase|shift|coefficient|angle|theta|phi|rads|turns)', re.I)


def empty_decomposition_rule(ctx, rid, floor=1):
    from ..flow import PathWalker
    from .. import fields as F
    repo = ctx.repo
    ctx.rule(rid, 'an empty decomposition is an identity claim: on every execution path of a _decompose_ / _decompose_with_context_ that reaches an explicit `return` / `return []` without having yielded an operation, a class with '
             'phase-like constructor parameters (exponent*, *phase*, *shift*, coefficient, angles) has tested at least one of the fields holding them - otherwise the gate decomposes '
             'to nothing whatever phase it was built with (a phasor of an all-identity Pauli string is a global phase, not the identity)', floor=floor, style='MPT')
    n = 0
    for mod, ci, fn in repo.all_functions():
        if ci is None or fn.name not in ('_decompose_', '_decompose_with_context_'):
            continue
        if mod.rel.endswith('_test.py') or '/testing/' in mod.rel or '/contrib/' in mod.rel:
            continue
        init = None
        for c in repo.mro(ci):
            if '__init__' in c.methods:
                init = c.methods['__init__']
                break
        if init is None:
            continue
        p2f = F.init_param_to_field(repo, ci)
        phase_fields = set()
        for a in init.args.args + init.args.kwonlyargs:
            if PHASE_LIKE.search(a.arg):
                phase_fields |= {F.norm_field(repo, ci, f.lstrip('_')) for f in p2f.get(a.arg, ())} | set(p2f.get(a.arg, ()))
        if not phase_fields:
            continue
        isgen = any(isinstance(x, (ast.Yield, ast.YieldFrom)) for x in ast.walk(fn))
        # locals computed from fields: name -> fields read by its defining expressions
        local_fields: Dict[str, set] = {}
        for a in ast.walk(fn):
            if isinstance(a, ast.Assign) and len(a.targets) == 1 and isinstance(a.targets[0], ast.Name):
                local_fields.setdefault(a.targets[0].id, set()).update(_self_fields(repo, ci, a.value))

        def fields_of(expr):
            got = set(_self_fields(repo, ci, expr))
            for x in ast.walk(expr):
                if isinstance(x, ast.Name):
                    got |= local_fields.get(x.id, set())
            return got

        def transfer(node, st):
            emitted, seen = st
            if any(isinstance(x, (ast.Yield, ast.YieldFrom)) for x in ast.walk(node)):
                emitted = True
            return [(emitted, seen)]

        def branch(test, pol, st):
            emitted, seen = st
            return [(emitted, seen | frozenset(fields_of(test)))]

        w = PathWalker(transfer, branch)
        try:
            exits = w.run(fn, (False, frozenset()))
        except RuntimeError as e:
            ctx.unres(rid, f'{ci.qual}.{fn.name}', str(e), mod.rel, fn.lineno)
            continue
        for kind, (emitted, seen), node in exits:
            if kind == 'raise' or emitted:
                continue
            if kind == 'return':
                v = node.value
                if v is not None and not (isinstance(v, (ast.List, ast.Tuple)) and not v.elts):
                    continue  # hands back something (operations, NotImplemented, None = "no decomposition")
                if v is None and not isgen:
                    continue  # `return` of a plain function: None, i.e. no decomposition known
            else:
                continue  # falling off the end: usually a loop over zero qubits / terms, which is no claim about the parameters
            n += 1
            ok = bool(seen & phase_fields)
            ctx.ob(rid, f'{ci.qual}.{fn.name}:empty-exit@{_ordinal(fn, node)}', ok, '' if ok else
                   f'this path hands back no operation after testing only {sorted(seen) or "nothing"}; none of the phase-carrying fields {sorted(phase_fields)} was consulted', mod.rel,
                   getattr(node, 'lineno', fn.lineno))
    if n == 0:
        raise AnalysisError(f'{rid}: no empty exit of a decomposition found in a class with phase-like parameters')


def _self_fields(repo, ci, expr):
    from .. import fields as F
    out = set()
    for x in ast.walk(expr):
        if isinstance(x, ast.Attribute) and isinstance(x.value, ast.Name) and x.value.id == 'self':
            out.add(F.norm_field(repo, ci, x.attr.lstrip('_')))
            out.add(x.attr)
    return out


def _ordinal(fn, node):
    rets = [x for x in ast.walk(fn) if isinstance(x, ast.Return)]
    rets.sort(key=lambda r: (r.lineno, r.col_offset))
    return rets.index(node) if node in rets else 'end'


# ---------------------------------------------------------------------------------------------------------------------
# A mapping field has no order that belongs to its value: two equal mappings may list their entries differently (the JSON
# writers sort them, users build them in any order).  Code that defines equality or the hash must not freeze that order.
EQUALITY_METHODS = ('__eq__', '__ne__', '__hash__', '_hash', '_value_equality_values_', '_value_equality_approximate_values_')


def mapping_order_in_equality_rule(ctx, rid, floor=10):
    repo = ctx.repo
    ctx.decided.append(f'{rid} equality / hash code consumes the entries of a mapping only through an order-insensitive form (frozenset, set, sorted, dict, a view comparison)')
    ctx.rule(rid, 'no entry order in equality: in __eq__ / __hash__ / _value_equality_values_ (and the own helpers they call) the items / keys / values view of a mapping is never '
             'turned into a tuple or list as it comes (directly or through a comprehension): equal mappings built in a different order then compare unequal or hash differently, e.g. '
             'a value and its JSON round trip (writers sort) or a * b versus b * a', floor=floor, style='EFF')
    n = 0
    for ci in sorted(repo.classes.values(), key=lambda c: c.qual):
        if ci.mod.rel.endswith('_test.py') or '/testing/' in ci.mod.rel:
            continue
        fns = [ci.methods[m] for m in EQUALITY_METHODS if m in ci.methods]
        if not fns:
            continue
        helpers = []
        for fn in fns:
            for c in ast.walk(fn):
                if isinstance(c, ast.Call) and isinstance(c.func, ast.Attribute) and isinstance(c.func.value, ast.Name) and c.func.value.id in ('self', 'other') \
                        and c.func.attr in ci.methods and ci.methods[c.func.attr] not in fns + helpers:
                    helpers.append(ci.methods[c.func.attr])
        par = None
        for fn in fns + helpers:
            for c in ast.walk(fn):
                if not (isinstance(c, ast.Call) and isinstance(c.func, ast.Attribute) and c.func.attr in ('items', 'keys', 'values') and not c.args and not c.keywords):
                    continue
                if par is None:
                    par = ci.mod.parents()
                p = par.get(c)
                consumer = None
                if isinstance(p, ast.Call) and c in p.args:
                    consumer = call_name(p).split('.')[-1]
                elif isinstance(p, ast.comprehension) and p.iter is c:
                    comp = par.get(p)
                    outer = par.get(comp)
                    if isinstance(comp, ast.ListComp):
                        consumer = 'list'
                    if isinstance(comp, (ast.GeneratorExp, ast.ListComp)) and isinstance(outer, ast.Call) and comp in outer.args:
                        consumer = call_name(outer).split('.')[-1]
                    if isinstance(comp, (ast.SetComp, ast.DictComp)):
                        consumer = 'set'
                n += 1
                bad = consumer in ('tuple', 'list')
                ctx.ob(rid, f'{ci.qual}.{fn.name}:{ast.unparse(c)}', not bad, '' if not bad else
                       f'`{ast.unparse(par.get(par.get(p), p) if isinstance(p, ast.comprehension) else p)[:90]}` freezes the order in which the mapping lists its entries into a value that '
                       'decides equality / the hash', ci.mod.rel, c.lineno)
    if n == 0:
        raise AnalysisError(f'{rid}: no mapping view in equality code found')


def frozen_dataclass_eq_hash_rule(ctx, rid, floor=2):
    """A frozen dataclass that writes its own __eq__ also writes its own __hash__ (the generated one hashes the raw field tuple)."""
    repo = ctx.repo
    ctx.decided.append(f'{rid} a frozen dataclass with a hand-written __eq__ has a hand-written __hash__ (the generated hash covers the raw fields, which a coarser equality contradicts)')
    ctx.rule(rid, 'hand-written equality needs a hand-written hash: @dataclass(frozen=True) generates __hash__ from the tuple of fields; a class that replaces the generated __eq__ '
             '(to ignore order, to normalise) without defining __hash__ gives equal objects different hashes', floor=floor, style='COH')
    n = 0
    for ci in sorted(repo.classes.values(), key=lambda c: c.qual):
        if ci.mod.rel.endswith('_test.py') or '/testing/' in ci.mod.rel:
            continue
        decs = [d for d in ci.node.decorator_list if 'dataclass' in ast.unparse(d)]
        if not decs or '__eq__' not in ci.methods:
            continue
        d = decs[0]
        kw = {k.arg: k.value for k in d.keywords} if isinstance(d, ast.Call) else {}
        frozen = isinstance(kw.get('frozen'), ast.Constant) and kw['frozen'].value is True
        unsafe = isinstance(kw.get('unsafe_hash'), ast.Constant) and kw['unsafe_hash'].value is True
        if not (frozen or unsafe):
            continue   # eq=True without frozen sets __hash__ to None: unhashable, which is consistent
        n += 1
        explicit = '__hash__' in ci.methods or any(isinstance(s_, ast.Assign) and any(isinstance(t, ast.Name) and t.id == '__hash__' for t in s_.targets) for s_ in ci.node.body)
        ctx.ob(rid, f'{ci.qual}:__hash__', explicit, '' if explicit else
               '__eq__ is hand-written but __hash__ is the one dataclass generates from the raw fields: objects this __eq__ calls equal can hash differently', ci.mod.rel, ci.methods['__eq__'].lineno)
    if n == 0:
        raise AnalysisError(f'{rid}: no frozen dataclass with its own __eq__ found')


# ---------------------------------------------------------------------------------------------------------------------
# Equality through a lossy digest.  When __init__ keeps a constructor argument as it came (self._p = p / tuple(p) / a copy) *and* a
# value computed from it, and equality reads only the computed one, two objects that differ in the argument can compare equal
# while methods that use the verbatim field behave differently.
LOSSLESS_DIGEST = {
    ('cirq.devices.thermal_noise_model.ThermalNoiseModel', 'heat_rate_GHz'): 'rate_matrix_GHz holds the three rates entry by entry (decay / heating / dephasing positions): nothing is lost',
    ('cirq.devices.thermal_noise_model.ThermalNoiseModel', 'cool_rate_GHz'): 'same matrix',
    ('cirq.devices.thermal_noise_model.ThermalNoiseModel', 'dephase_rate_GHz'): 'same matrix',
    ('cirq.experiments.t2_decay_experiment.T2DecayResult', 'x_basis_data'): 'the result *is* the expectation table; the raw counts are only kept for plotting',
    ('cirq.experiments.t2_decay_experiment.T2DecayResult', 'y_basis_data'): 'same',
}


def _is_verbatim_copy(v, p):
    while True:
        if isinstance(v, ast.Name):
            return v.id == p
        if isinstance(v, ast.Call) and call_name(v).split('.')[-1] in ('tuple', 'list', 'dict', 'copy', 'deepcopy', 'array', 'asarray') and len(v.args) == 1:
            a = v.args[0]
            if isinstance(a, (ast.GeneratorExp, ast.ListComp)):
                g = a.generators
                return len(g) == 1 and not g[0].ifs and isinstance(g[0].iter, ast.Name) and g[0].iter.id == p
            v = a
            continue
        if isinstance(v, ast.IfExp):
            return _is_verbatim_copy(v.body, p) or _is_verbatim_copy(v.orelse, p)
        return False


def equality_reads_verbatim_rule(ctx, rid, floor=40):
    from .. import fields as F
    repo = ctx.repo
    ctx.decided.append(f'{rid} where a constructor argument is kept both verbatim and as a value computed from it, equality reads the verbatim field (or a tabled lossless digest)')
    ctx.rule(rid, 'no equality through a digest: for every class with _value_equality_values_ or a hand-written __eq__, a constructor parameter that __init__ stores verbatim '
             '(self._p = p, tuple(p), a copy) is read by the equality through that verbatim field (directly or through a property) whenever the equality depends on the parameter at '
             'all - reading only a value computed from it (the sorted union of the qubits of all groups, say) makes objects equal that answer differently', floor=floor, style='COH')
    n = 0
    for ci in sorted(repo.classes.values(), key=lambda c: c.qual):
        if ci.mod.rel.endswith('_test.py') or '/testing/' in ci.mod.rel or '/contrib/' in ci.mod.rel:
            continue
        eq = ci.methods.get('_value_equality_values_') or ci.methods.get('__eq__')
        init = ci.methods.get('__init__')
        if eq is None or init is None:
            continue
        p2f = F.init_param_to_field(repo, ci)
        rd = F.self_reads(repo, ci, eq, depth=2)
        if '<self>' in rd:
            continue
        for p, fs in sorted(p2f.items()):
            fs = {f for f in fs if '.' not in f}
            verb = set()
            for st in ast.walk(init):
                if isinstance(st, (ast.Assign, ast.AnnAssign)) and st.value is not None:
                    for t in (st.targets if isinstance(st, ast.Assign) else [st.target]):
                        if isinstance(t, ast.Attribute) and isinstance(t.value, ast.Name) and t.value.id == 'self' and _is_verbatim_copy(st.value, p):
                            verb.add(t.attr)
            if not verb or not (fs & rd):
                continue   # not stored verbatim, or equality does not depend on it at all (completeness is C11.i / C08.d2)
            n += 1
            ok = bool(verb & rd) or (ci.qual, p) in LOSSLESS_DIGEST
            ctx.ob(rid, f'{ci.qual}:{p}', ok, '' if ok else
                   f'`{p}` is kept verbatim in {sorted(verb)} but equality reads only {sorted(fs & rd)}, computed from it: objects that differ in `{p}` can compare equal', ci.mod.rel, eq.lineno)
    if n == 0:
        raise AnalysisError(f'{rid}: no instance')


def measurement_rebuild_rule(ctx, rid, prefixes, floor=1):
    """A transformer that replaces a measurement by freshly built measurements carries the invert mask and the confusion map over (or refuses)."""
    from ..flow import dominating_atoms
    repo = ctx.repo
    ctx.decided.append(f'{rid} a measurement re-created from the qubits of an existing measurement operation forwards or refuses its invert mask and confusion map')
    ctx.rule(rid, 'measurements are re-created whole: where code under an is_measurement(<op>) / isinstance(<op>.gate, MeasurementGate) test builds new measurements (measure, measure_each, '
             'MeasurementGate) from <op>.qubits, the same branch reads the invert mask (invert_mask / full_invert_mask) and the confusion_map of the old gate - to pass them on or to '
             'refuse - otherwise the recorded bits change', floor=floor, style='EFF')
    n = 0
    for mod, ci, fn in repo.all_functions():
        if mod.rel.endswith('_test.py') or not any(mod.rel.startswith(p) for p in prefixes):
            continue
        calls = [c for c in ast.walk(fn) if isinstance(c, ast.Call) and call_name(c).split('.')[-1] in ('measure', 'measure_each', 'MeasurementGate')]
        if not calls:
            continue
        par = mod.parents()
        for c in calls:
            if isinstance(par.get(c), ast.Attribute):
                continue   # measure(...).gate.key and the like: the call is consulted, not emitted
            # the measurement operation this call re-creates: a name tested by a dominating measurement test, whose qubits feed the call
            ops_tested = {}
            for a, pol in dominating_atoms(par, c, fn):
                if not pol:
                    continue
                for t in ast.walk(a):
                    if isinstance(t, ast.Call) and call_name(t).split('.')[-1] == 'is_measurement' and t.args and isinstance(t.args[0], ast.Name):
                        ops_tested[t.args[0].id] = a
                    if isinstance(t, ast.Call) and call_name(t) == 'isinstance' and len(t.args) == 2 and 'MeasurementGate' in ast.unparse(t.args[1]) \
                            and isinstance(t.args[0], ast.Attribute) and t.args[0].attr == 'gate' and isinstance(t.args[0].value, ast.Name):
                        ops_tested[t.args[0].value.id] = a
            if not ops_tested:
                continue
            # statement holding the call, plus loop targets over <op>.qubits
            stmt = c
            while stmt in par and not isinstance(stmt, ast.stmt):
                stmt = par[stmt]
            feeds = [o for o in ops_tested if any(isinstance(x, ast.Attribute) and x.attr == 'qubits' and isinstance(x.value, ast.Name) and x.value.id == o for x in ast.walk(stmt))]
            if not feeds:
                continue
            o = feeds[0]
            # the branch: the innermost If whose test holds the measurement test
            test = ops_tested[o]
            br = c
            while br in par and not (isinstance(par[br], ast.If) and any(x is test for x in ast.walk(par[br].test))):
                br = par[br]
            iff = par.get(br)
            body = iff.body if isinstance(iff, ast.If) else [stmt]
            attrs = {x.attr for s_ in body for x in ast.walk(s_) if isinstance(x, ast.Attribute)}
            n += 1
            miss = [nm for nm, alts in (('invert mask', {'invert_mask', 'full_invert_mask'}), ('confusion map', {'confusion_map'})) if not (attrs & alts)]
            ctx.ob(rid, f'{mod.name}.{(ci.name + ".") if ci else ""}{fn.name}:re-created-from-{o}', not miss, '' if not miss else
                   f'`{ast.unparse(c)[:70]}` re-creates the measurement `{o}` from its qubits, but the branch never looks at its {" / ".join(miss)}', mod.rel, c.lineno)
    if n == 0:
        raise AnalysisError(f'{rid}: no re-created measurement found under {prefixes}')


# ---------------------------------------------------------------------------------------------------------------------
# Sizes from qubit counts.  A function that asks the protocols for the matrices of an arbitrary operation (kraus, unitary,
# mixture, superoperator) and sizes something as 2**n / 4**n from the *number* of qubits is right for qubits only.
SIZING_EXEMPT = {
    ('cirq.ops.linear_combinations', 'LinearCombinationOfGates.matrix'): 'sum of gate matrices into a 2**n square: a qudit gate fails loudly in the addition (shape mismatch), nothing is mis-scaled',
    ('cirq.ops.linear_combinations', 'LinearCombinationOfOperations.matrix'): 'identity tensor of shape (2,)*2n handed to apply_unitary: a qudit operation is refused there',
    ('cirq.experiments.n_qubit_tomography', 'StateTomographyExperiment._make_state_tomography_matrix'): 'the matrices are those of the experiment\'s own rotation circuit '
    '(Circuit.unitary with an explicit qubit order), built from the fixed qubit rotations of the protocol',
}
MATRIX_PROTOCOLS = {'kraus', 'unitary', 'mixture', 'superoperator', 'kraus_to_superoperator', 'apply_channel', 'apply_unitary', '_superoperator_', '_kraus_'}


def dimension_aware_sizing_rule(ctx, rid, prefixes, floor=2):
    repo = ctx.repo
    ctx.decided.append(f'{rid} a function that takes matrices from the protocols and sizes by 2**n / 4**n of a qubit count also consults the dimensions (qid_shape / dimension), or is tabled')
    ctx.rule(rid, 'sizes come from dimensions: a function that obtains matrices of arbitrary operations through the protocols (kraus / unitary / mixture / superoperator / apply_*) and '
             'computes 2**n or 4**n from num_qubits / len(qubits) also reads qid_shape or dimension (to size by them or to refuse) - otherwise a qutrit channel is normalised or reshaped '
             'as if it were a qubit channel (entanglement_fidelity of the qutrit identity = 2.25)', floor=floor, style='COH')
    n = 0
    for mod, ci, fn in repo.all_functions():
        if mod.rel.endswith('_test.py') or '/testing/' in mod.rel or '/contrib/' in mod.rel or not any(mod.rel.startswith(p) for p in prefixes):
            continue
        pows = [b for b in ast.walk(fn) if isinstance(b, ast.BinOp) and isinstance(b.op, ast.Pow) and isinstance(b.left, ast.Constant) and b.left.value in (2, 4)]
        if not pows:
            continue
        nq = set()
        for a in ast.walk(fn):
            if isinstance(a, ast.Assign) and len(a.targets) == 1 and isinstance(a.targets[0], ast.Name):
                src = ast.unparse(a.value)
                if 'num_qubits' in src or ('len(' in src and 'qubits' in src):
                    nq.add(a.targets[0].id)
        hits = [b for b in pows if (isinstance(b.right, ast.Name) and b.right.id in nq) or 'num_qubits' in ast.unparse(b.right)
                or ('len(' in ast.unparse(b.right) and 'qubits' in ast.unparse(b.right))]
        if not hits or not any(isinstance(c, ast.Call) and call_name(c).split('.')[-1] in MATRIX_PROTOCOLS for c in ast.walk(fn)):
            continue
        name = (ci.name + '.' if ci else '') + fn.name
        n += 1
        src = ast.unparse(fn)
        ok = 'qid_shape' in src or '.dimension' in src or (mod.name, name) in SIZING_EXEMPT
        ctx.ob(rid, f'{mod.name}.{name}:sized-by-dimensions', ok, '' if ok else
               f'`{ast.unparse(hits[0])}` sizes by the number of qubits while the matrices come from the protocols for any operation; the function never looks at qid_shape / dimension',
               mod.rel, hits[0].lineno)
    return n


# ---------------------------------------------------------------------------------------------------------------------
# numpy predicates on values that may be symbols.  `np.isclose(gate.exponent, 1)` raises TypeError for a sympy expression.
SYMBOLIC_ATTRS = {'exponent', '_exponent', 'theta', 'phi', '_theta', '_phi', 'global_shift', 'phase_exponent', 'x_exponent', 'z_exponent', 'axis_phase_exponent', 'rads', '_rads'}
NUMERIC_PREDICATES = {'isclose', 'round', 'allclose', 'abs', 'sign', 'floor', 'ceil', 'mod', 'fmod', 'rint'}


def numeric_predicate_on_symbols_rule(ctx, rid, prefixes, floor=3):
    from ..flow import dominating_atoms
    repo = ctx.repo
    ctx.decided.append(f'{rid} numpy predicates are applied to exponent-like attributes of a gate only where the function (or each of its call sites) tests for parameterization / sympy')
    ctx.rule(rid, 'symbols do not reach numpy predicates: a function that hands an exponent-like attribute of a gate (exponent, theta, phi, *_exponent, global_shift, rads) to '
             'np.isclose / np.round / ... (directly or through a module-level helper that does) mentions is_parameterized / sympy itself, or every call of it in the module is dominated '
             'by such a test - a transformer that promises to pass parameterized circuits through otherwise raises TypeError on the first symbolic gate it inspects', floor=floor, style='RG')
    n = 0
    for m in sorted(repo.modules.values(), key=lambda x: x.rel):
        if m.rel.endswith('_test.py') or not m.rel.startswith(tuple(prefixes)):
            continue
        fns = [f for f in ast.walk(m.tree) if isinstance(f, ast.FunctionDef)]

        def uses_np(f):
            return any(isinstance(c, ast.Call) and isinstance(c.func, ast.Attribute) and isinstance(c.func.value, ast.Name) and c.func.value.id in ('np', 'numpy')
                       and c.func.attr in NUMERIC_PREDICATES for c in ast.walk(f))
        helpers = {f.name for f in fns if uses_np(f) and f.args.args}
        par = None
        for fn in fns:
            hits = []
            for c in ast.walk(fn):
                if not isinstance(c, ast.Call):
                    continue
                isnp = isinstance(c.func, ast.Attribute) and isinstance(c.func.value, ast.Name) and c.func.value.id in ('np', 'numpy') and c.func.attr in NUMERIC_PREDICATES
                ish = isinstance(c.func, ast.Name) and c.func.id in helpers and c.func.id != fn.name
                if (isnp or ish) and any(isinstance(x, ast.Attribute) and x.attr in SYMBOLIC_ATTRS for a in c.args for x in ast.walk(a)):
                    hits.append(c)
            if not hits:
                continue
            n += 1
            src = ast.unparse(fn)
            ok = 'is_parameterized' in src or 'sympy' in src
            if not ok:
                if par is None:
                    par = m.parents()
                sites = [c for f2 in fns for c in ast.walk(f2) if isinstance(c, ast.Call) and isinstance(c.func, ast.Name) and c.func.id == fn.name]
                ok = bool(sites) and all(any('is_parameterized' in ast.unparse(a) or 'sympy' in ast.unparse(a) for a, _ in dominating_atoms(par, c, None)) for c in sites)
            ctx.ob(rid, f'{m.name}.{fn.name}:symbols-kept-from-numpy', ok, '' if ok else
                   f'`{ast.unparse(hits[0])[:70]}` applies a numpy predicate to a value that may be a sympy expression, and neither the function nor all of its call sites test for that',
                   m.rel, hits[0].lineno)
    if n == 0:
        raise AnalysisError(f'{rid}: no numpy predicate on an exponent-like attribute found under {prefixes}')


def paired_sort_rule(ctx, rid, floor=1):
    """Two sequences that describe the same items position by position are sorted as pairs, never each on its own."""
    repo = ctx.repo
    ctx.decided.append(f'{rid} equality values of controlled operations / gates order the controls together with their value columns (one sort over the pairs)')
    ctx.rule(rid, 'paired sequences are sorted as pairs: in _value_equality_values_ of a class with `controls` / control values, the canonical order comes from one sorted() over the '
             'zipped (control, values) pairs; two separate sorted() calls - one over the controls, one over their value columns - lose which values belong to which control, so '
             'controlled_by(a, b, control_values=[0, 1]) equals control_values=[1, 0]', floor=floor, style='COH')
    n = 0
    for ci in sorted(repo.classes.values(), key=lambda c: c.qual):
        if ci.mod.rel.endswith('_test.py') or '/testing/' in ci.mod.rel or '/contrib/' in ci.mod.rel:
            continue
        fn = ci.methods.get('_value_equality_values_')
        if fn is None:
            continue
        sorts = [c for c in ast.walk(fn) if isinstance(c, ast.Call) and call_name(c) == 'sorted' and c.args]
        if not sorts:
            continue
        src = ast.unparse(fn)
        if 'controls' not in src:
            continue
        n += 1
        # locals -> what they were computed from (one level)
        defs = {a.targets[0].id: ast.unparse(a.value) for a in ast.walk(fn) if isinstance(a, ast.Assign) and len(a.targets) == 1 and isinstance(a.targets[0], ast.Name)}

        def text(e):
            t = ast.unparse(e)
            for k, v in defs.items():
                if k in {x.id for x in ast.walk(e) if isinstance(x, ast.Name)}:
                    t += ' ' + v
            return t
        over_controls = [c for c in sorts if 'controls' in text(c.args[0]) and 'zip' not in ast.unparse(c.args[0]) and not any(isinstance(x, ast.Call) and call_name(x) == 'zip' for x in ast.walk(c.args[0]))]
        over_values = [c for c in sorts if c not in over_controls and ('control_values' in text(c.args[0]) or 'cval' in text(c.args[0]) or 'expand' in text(c.args[0]))
                       and not any(isinstance(x, ast.Call) and call_name(x) == 'zip' for x in ast.walk(c.args[0]))]
        bad = bool(over_controls) and bool(over_values)
        ctx.ob(rid, f'{ci.qual}._value_equality_values_:controls-with-values', not bad, '' if not bad else
               f'`{ast.unparse(over_controls[0])[:50]}` and `{ast.unparse(over_values[0])[:50]}` are sorted separately: the pairing of each control with its accepted values is lost', ci.mod.rel,
               over_controls[0].lineno if bad else fn.lineno)
    if n == 0:
        raise AnalysisError(f'{rid}: no equality values that sort controls found')


def approximate_getter_follows_exact_rule(ctx, rid, floor=2):
    """The approximate-equality values a class inherits agree with the exact values it defines itself."""
    repo = ctx.repo
    ctx.decided.append(f'{rid} a class that overrides _value_equality_values_ under an ancestor decorated value_equality(approximate=True) gets approximate values computed from its own exact '
                       'values (own getter, or the decorator\'s default dispatching through self)')
    ctx.rule(rid, 'approximate equality sees what exact equality sees: the default `_value_equality_approximate_values_` installed by @value_equality(approximate=True) calls '
             'self._value_equality_values_() (dispatching through self) instead of capturing the decorated class\'s getter - otherwise a subclass that adds fields to the exact values '
             '(PauliInteractionGate: the two Paulis) inherits approximate values without them, and since both getters memoise under one name, approx_eq(CZ-like, CNOT-like) is True and '
             'afterwards == is True as well; each such subclass is an instance', floor=floor, style='COH')
    vm = repo.module('cirq-core/cirq/value/value_equality_attr.py')
    dec = vm.defs.get('value_equality')
    if not isinstance(dec, ast.FunctionDef):
        raise AnalysisError('value_equality decorator vanished')
    # the value installed under `if not hasattr(cls, '_value_equality_approximate_values_')`
    installed = None
    for st in ast.walk(dec):
        if isinstance(st, ast.If) and 'hasattr' in ast.unparse(st.test) and '_value_equality_approximate_values_' in ast.unparse(st.test) and isinstance(st.test, ast.UnaryOp):
            for c in ast.walk(ast.Module(body=st.body, type_ignores=[])):
                if isinstance(c, ast.Call) and call_name(c) == 'setattr' and len(c.args) == 3 and '_value_equality_approximate_values_' in ast.unparse(c.args[1]):
                    installed = c.args[2]
    if installed is None:
        raise AnalysisError('value_equality: the default approximate getter is no longer installed under a hasattr test')
    dynamic = False
    if isinstance(installed, ast.Lambda):
        dynamic = '_value_equality_values_' in ast.unparse(installed.body) and 'self' in {a.arg for a in installed.args.args}
    elif isinstance(installed, ast.Name):
        tgt = vm.defs.get(installed.id)
        if isinstance(tgt, ast.FunctionDef):
            dynamic = any(isinstance(c, ast.Call) and isinstance(c.func, ast.Attribute) and c.func.attr == '_value_equality_values_' and isinstance(c.func.value, ast.Name)
                          and c.func.value.id == tgt.args.args[0].arg for c in ast.walk(tgt))

    def deco(ci):
        for d in ci.node.decorator_list:
            s_ = ast.unparse(d)
            if 'value_equality' in s_:
                return s_
        return None
    n = 0
    for ci in sorted(repo.classes.values(), key=lambda c: c.qual):
        if ci.mod.rel.endswith('_test.py') or '/testing/' in ci.mod.rel or '_value_equality_values_' not in ci.methods:
            continue
        anc = [a for a in repo.mro(ci)[1:] if deco(a) and 'approximate=True' in deco(a)]
        if not anc:
            continue
        n += 1
        own = '_value_equality_approximate_values_' in ci.methods or any('_value_equality_approximate_values_' in a.methods for a in repo.mro(ci)[1:])
        ok = own or dynamic
        ctx.ob(rid, f'{ci.qual}:approximate-values', ok, '' if ok else
               f'{ci.name} defines its own exact equality values, but its approximate values are those of {anc[0].name} (the decorator captured that class\'s getter): fields that only '
               f'{ci.name} compares are ignored by approx_eq, and the shared memo makes == agree afterwards', ci.mod.rel, ci.methods['_value_equality_values_'].lineno)
    if n == 0:
        raise AnalysisError(f'{rid}: no subclass overriding exact equality under an approximate base found')
