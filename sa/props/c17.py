"""C17 - vendor job payloads mean the same as the circuit they were built from.

Decided: every IonQ QIS gate dictionary produced by the serializer handlers (interpreted for probe
and source-derived exponents) - read with IonQ's documented gate definitions held in the checker -
is the Cirq gate up to global phase; native gates pass their own parameters through under the
documented field names; unsupported input reaches a raise, never a silent substitute; the
dispatch table points each gate family at its own handler; the AQT writer, its legacy-JSON reader
and the noisy simulator use one op-string table with one positional layout.
Not decided: result decoding / bit order, pauliexp semantics, Pasqal payloads beyond JSON passthrough.
"""
from __future__ import annotations

import ast

import numpy as np

from ..core import AnalysisError, call_name, dotted
from ..flow import dominating_atoms
from .. import chains, fdx, fold
from . import c03, shared

X, Y, Z, H = c03.PX, c03.PY, c03.PZ, c03.HAD
I2 = np.eye(2, dtype=complex)


def _rot(p, th):
    n = p.shape[0]
    return np.cos(th / 2) * np.eye(n) - 1j * np.sin(th / 2) * p


S = np.diag([1, 1j])
T = np.diag([1, np.exp(1j * np.pi / 4)])
V = 0.5 * np.array([[1 + 1j, 1 - 1j], [1 - 1j, 1 + 1j]])       # sqrt(X)
# IonQ QIS vocabulary (docs.ionq.com, "supported gates"): name -> (needs rotation?, matrix builder)
IONQ = {
    'x': (False, lambda: X), 'y': (False, lambda: Y), 'z': (False, lambda: Z), 'h': (False, lambda: H),
    's': (False, lambda: S), 'si': (False, lambda: S.conj().T), 't': (False, lambda: T), 'ti': (False, lambda: T.conj().T),
    'v': (False, lambda: V), 'vi': (False, lambda: V.conj().T),
    'rx': (True, lambda a: _rot(X, a)), 'ry': (True, lambda a: _rot(Y, a)), 'rz': (True, lambda a: _rot(Z, a)),
    'xx': (True, lambda a: _rot(np.kron(X, X), a)), 'yy': (True, lambda a: _rot(np.kron(Y, Y), a)), 'zz': (True, lambda a: _rot(np.kron(Z, Z), a)),
    'swap': (False, lambda: c03.SWAPM), 'cnot': (False, lambda: c03._controlled(X)),
}
FAMILY_OF = {
    'XPowGate': 'cirq.ops.common_gates.XPowGate', 'YPowGate': 'cirq.ops.common_gates.YPowGate', 'ZPowGate': 'cirq.ops.common_gates.ZPowGate',
    'XXPowGate': 'cirq.ops.parity_gates.XXPowGate', 'YYPowGate': 'cirq.ops.parity_gates.YYPowGate', 'ZZPowGate': 'cirq.ops.parity_gates.ZZPowGate',
    'CNotPowGate': 'cirq.ops.common_gates.CXPowGate', 'CXPowGate': 'cirq.ops.common_gates.CXPowGate', 'HPowGate': 'cirq.ops.common_gates.HPowGate',
    'SwapPowGate': 'cirq.ops.swap_gates.SwapPowGate',
}
NATIVE = {   # class -> (json gate name, {json field: gate attribute})
    'GPIGate': ('gpi', {'phase': 'phi'}), 'GPI2Gate': ('gpi2', {'phase': 'phi'}),
    'MSGate': ('ms', {'phases': ('phi0', 'phi1'), 'angle': 'theta'}), 'ZZGate': ('zz', {'phase': 'theta'}),
}
PROBES = [1, 0.5, -0.5, 0.25, -0.25, 0.3, -0.7, 2, 3, 1.5, 2.5, 0, 0.75]


def run(ctx):
    repo = ctx.repo
    _record_writer_guards_reader_keys(ctx, repo)
    _rows_from_per_shot_sequence(ctx, repo)
    shared.aqt_single_qubit_shortcut_rule(ctx, 'C17.k')
    ctx.decided.append('C17.k the hard-wired single-qubit replacement of the AQT target gateset equals the gate it replaces')
    _sampling_alignment(ctx, repo)
    _batch_order(ctx, repo)
    shared.module_state_rule(ctx, 'C17.f', ['cirq-ionq/cirq_ionq/', 'cirq-aqt/cirq_aqt/', 'cirq-pasqal/cirq_pasqal/'], floor=2)
    ctx.decided.append('C17.f vendor converters keep no state between calls (module-level containers never written from inside a function)')
    ctx.decided += [
        'C17.a IonQ QIS gate dictionaries == the Cirq gate up to global phase (probe + source-derived exponents); handlers without a generic form return None on fall-through; '
        'native gates pass their own parameters under the documented field names',
        'C17.e measurement metadata chunks reassemble losslessly; pauliexp payloads apply the right Pauli to the right target with the right evolution time',
        'C17.b _serialize_op: parameterized gates and gate-less operations raise first; every path ends in a dispatched result or ValueError; circuit/qubit validation precedes serialization',
        'C17.c dispatch table: each gate family is mapped to the handler that emits that family\'s mnemonics',
        'C17.d AQT: get_op_string, the JSON writer, the legacy reader and the simulator share one op-string table and one positional layout',
    ]
    ctx.not_decided += ['result histogram decoding and bit order', 'Pasqal payload beyond being the JSON of the submitted circuit', 'job/service plumbing']
    ser = repo.cls('cirq_ionq.serializer.Serializer')
    m = ser.mod
    init = ser.methods['__init__']
    disp = None
    for n in ast.walk(init):
        if isinstance(n, (ast.Assign, ast.AnnAssign)) and isinstance(getattr(n, 'value', None), ast.Dict) and '_dispatch' in ast.unparse(n.targets[0] if isinstance(n, ast.Assign) else n.target):
            disp = n.value
    if disp is None:
        raise AnalysisError('Serializer._dispatch literal vanished')
    table = {}
    for k, v in zip(disp.keys, disp.values):
        cls = (dotted(k) or '').split('.')[-1]
        h = v.attr if isinstance(v, ast.Attribute) else None
        table[cls] = h
    near = ser.methods.get('_near_mod_n')
    if near is None:
        raise AnalysisError('Serializer._near_mod_n vanished')

    # class-level constants of the serializer (tables a handler may consult through self.<NAME>)
    class_consts = {}
    class_const_nodes = {}
    for st in ser.node.body:
        if isinstance(st, (ast.Assign, ast.AnnAssign)) and st.value is not None:
            for t in (st.targets if isinstance(st, ast.Assign) else [st.target]):
                if isinstance(t, ast.Name):
                    try:
                        class_consts[t.id] = fdx.NumInterp({}).ev(st.value)
                        class_const_nodes[t.id] = st.value
                    except (fdx.Unsupported, fdx.Raised):
                        pass

    def interp_handler(hname, gate_obj, targets):
        fn = ser.methods[hname]
        self_obj = {'atol': 1e-8, **class_consts}

        def call_hook(call, it):
            f = call.func
            if isinstance(f, ast.Attribute) and isinstance(f.value, ast.Name) and f.value.id == 'self' and f.attr in ser.methods:
                sub = fdx.NumInterp({'self': self_obj, **{a.arg: it.ev(v) for a, v in zip(ser.methods[f.attr].args.args[1:], call.args)}}, call_hook=call_hook)
                return sub.call(ser.methods[f.attr])
            if isinstance(f, ast.Name) and f.id == 'cast' and len(call.args) == 2:
                return it.ev(call.args[1])
            return NotImplemented
        it = fdx.NumInterp({'self': self_obj, 'gate': gate_obj, 'targets': targets}, call_hook=call_hook)
        return it.call(fn)

    ctx.rule('C17.a', 'IonQ payload semantics: for each dispatched QIS family and each probe exponent the handler\'s dictionary, read with IonQ\'s documented '
             'gate definitions, equals the gate matrix up to global phase (or the handler returns None so that the operation is rejected); native gate '
             'dictionaries carry the gate\'s own parameters under the documented names', floor=12, style='FDX')
    cache = {}
    for cls, hname in sorted(table.items()):
        if hname is None or hname not in ser.methods:
            ctx.ob('C17.a', f'dispatch:{cls}', False, f'dispatch entry for {cls} does not name a handler method', m.rel, disp.lineno)
            continue
        fn = ser.methods[hname]
        if cls in FAMILY_OF:
            fam = repo.cls(FAMILY_OF[cls])
            comps, _ = c03._components(repo, fam, 2 if (fam.qual, 2) in c03.REFERENCE else None)
            n = int(round(np.log2(comps[0][1].shape[0])))
            consts = set()
            for c in ast.walk(fn):
                if isinstance(c, ast.Call) and call_name(c) == '_near_mod_n' and len(c.args) >= 2:
                    try:
                        consts.add(float(fold.fold(c.args[1])))
                    except (fold.NotLiteral, TypeError):
                        pass
            for a in ast.walk(fn):  # exponents listed in a class-level table the handler consults
                if isinstance(a, ast.Attribute) and isinstance(a.value, ast.Name) and a.value.id == 'self' and a.attr in class_const_nodes:
                    for c in ast.walk(class_const_nodes[a.attr]):
                        if isinstance(c, (ast.Constant, ast.UnaryOp)):
                            try:
                                v = fold.fold(c)
                            except (fold.NotLiteral, TypeError):
                                continue
                            if isinstance(v, (int, float)) and not isinstance(v, bool):
                                consts.add(float(v))
            probes = sorted(set(PROBES) | consts | {c + 2 for c in consts} | {-c for c in consts})
            bad = None
            emitted = 0
            for e in probes:
                try:
                    d = interp_handler(hname, {'exponent': e, '_exponent': e, 'global_shift': 0}, list(range(n)))
                except (fdx.Unsupported, fdx.Raised) as ex:
                    raise AnalysisError(f'cannot interpret Serializer.{hname}: {ex}')
                if d is None:
                    continue
                emitted += 1
                name = d.get('gate')
                if name not in IONQ:
                    bad = bad or f'exponent {e}: emits unknown IonQ gate `{name}`'
                    continue
                needs_rot, build = IONQ[name]
                if needs_rot != ('rotation' in d):
                    bad = bad or f'exponent {e}: `{name}` ' + ('lacks' if needs_rot else 'must not carry') + ' a rotation'
                    continue
                v = build(d['rotation']) if needs_rot else build()
                # operand order
                if name == 'cnot':
                    okq = d.get('control') == 0 and d.get('target') == 1
                else:
                    okq = list(d.get('targets', [])) == list(range(n))
                if not okq:
                    bad = bad or f'exponent {e}: operands {d} are not the operation\'s qubits in order'
                    continue
                u = sum(np.exp(1j * np.pi * e * t) * mm for t, mm in comps)
                ov = abs(np.trace(u.conj().T @ v)) / 2 ** n
                if abs(ov - 1) > 1e-7:
                    bad = bad or f'at exponent {e} the payload {d} is not {cls}**{e} (overlap {ov:.4f})'
            if emitted == 0:
                bad = bad or 'handler emits nothing for any probe exponent'
            ctx.ob('C17.a', f'Serializer.{hname}[{cls}]', bad is None, bad or '', m.rel, fn.lineno)
        elif cls in NATIVE:
            jname, fields = NATIVE[cls]
            gate_obj = {'phi': 0.123, 'phase': 0.123, 'phi0': 0.21, 'phi1': 0.34, 'theta': 0.456, 'phases': [0.21, 0.34]}
            if cls == 'ZZGate':
                gate_obj['phase'] = gate_obj['theta']
            try:
                d = interp_handler(hname, gate_obj, [0, 1] if cls in ('MSGate', 'ZZGate') else [0])
            except (fdx.Unsupported, fdx.Raised) as ex:
                raise AnalysisError(f'cannot interpret Serializer.{hname}: {ex}')
            bad = None
            if not d or d.get('gate') != jname:
                bad = f'emits {d} instead of a `{jname}` gate'
            else:
                for jf, attr in fields.items():
                    want = [gate_obj[a] for a in attr] if isinstance(attr, tuple) else gate_obj[attr]
                    got = list(d.get(jf)) if isinstance(want, list) else d.get(jf)
                    if got != want:
                        bad = bad or f'field `{jf}` carries {got} instead of the gate\'s {attr} = {want}'
                tg = d.get('target', d.get('targets'))
                want_t = 0 if cls in ('GPIGate', 'GPI2Gate') else [0, 1]
                if tg != want_t:
                    bad = bad or f'operands {tg} (expected {want_t})'
            ctx.ob('C17.a', f'Serializer.{hname}[{cls}]', bad is None, bad or '', m.rel, fn.lineno)
    # native gate property aliases used by the handlers
    for cq, prop, attr in (('cirq_ionq.ionq_native_gates.GPIGate', 'phase', 'phi'), ('cirq_ionq.ionq_native_gates.GPI2Gate', 'phase', 'phi'),
                           ('cirq_ionq.ionq_native_gates.ZZGate', 'phase', 'theta')):
        ci = repo.cls(cq)
        a = repo.property_alias(ci, prop)
        ctx.ob('C17.a', f'{cq}.{prop}', a == attr, '' if a == attr else f'`{prop}` returns `{a}` instead of `{attr}`', ci.mod.rel, ci.node.lineno)
    ms = repo.cls('cirq_ionq.ionq_native_gates.MSGate')
    ph = ms.methods.get('phases')
    ok = ph is not None and any(isinstance(r, ast.Return) and ast.unparse(r.value).replace(' ', '') == '[self.phi0,self.phi1]' for r in ast.walk(ph))
    ctx.ob('C17.a', 'cirq_ionq.ionq_native_gates.MSGate.phases', ok, '' if ok else 'MSGate.phases is not [phi0, phi1]', ms.mod.rel, ms.node.lineno)

    # ------------------------------------------------------------------ C17.e
    ctx.rule('C17.e', 'measurement metadata (finite-domain interpretation): the chunks written by _serialize_measurements, concatenated in order, are exactly '
             'key<US>targets joined by <RS> (nothing dropped or reordered), each at most 40 characters and named measurement<i>; pauliexp payloads carry the Pauli '
             'string over the operation\'s targets in IonQ\'s little-endian term order with time pi(e_neg - e_pos)/2', floor=2, style='FDX')
    smf = ser.methods.get('_serialize_measurements')
    if smf is None:
        raise AnalysisError('Serializer._serialize_measurements vanished')
    bad = None
    cases = [[('a', '0')], [('bell pair 0', '0,1'), ('bell pair 1', '2,3'), ('ancilla register (flag qubits)', '4,5,6')],
             [('k' * 35, '0,1,2,3'), ('m m', '7')], [('x', ','.join(str(i) for i in range(30)))]]
    for case in cases:
        ops_ = [{'key': k, 'targets': t} for k, t in case]
        it = fdx.NumInterp({'self': {'atol': 1e-8}, 'meas_ops': ops_})
        try:
            d = it.call(smf)
        except fdx.Raised:
            continue
        except fdx.Unsupported as ex:
            raise AnalysisError(f'cannot interpret _serialize_measurements: {ex}')
        want = chr(30).join(k + chr(31) + t for k, t in case)
        keys = sorted(d, key=lambda k: int(k[len('measurement'):]) if k.startswith('measurement') and k[len('measurement'):].isdigit() else -1)
        got = ''.join(d[k] for k in keys)
        if got != want:
            bad = bad or f'keys {[k for k, _ in case]}: the chunks reassemble to {got!r}, not {want!r}'
        if any(len(v) > 40 for v in d.values()) or any(not k.startswith('measurement') for k in d):
            bad = bad or 'a chunk exceeds 40 characters or is not named measurement<i>'
    ctx.ob('C17.e', 'Serializer._serialize_measurements:lossless-chunks', bad is None, bad or '', m.rel, smf.lineno)
    pf = ser.methods.get('_serialize_pauli_string_phasor_gate')
    if pf is None:
        raise AnalysisError('Serializer._serialize_pauli_string_phasor_gate vanished')
    P1 = {'I': I2, 'X': X, 'Y': Y, 'Z': Z}
    bad = None
    for mask, tg, en, ep in (([3, 2], [0, 1], 0.3, -0.1), ([3, 2, 0], [0, 1, 2], 0.25, 0.0), ([0, 1, 3], [4, 2, 7], 0.5, 0.1), ([1, 0, 0, 2], [0, 1, 2, 3], 0.2, -0.2), ([2], [5], 0.4, 0.0)):
        gate_obj = {'dense_pauli_string': {'pauli_mask': mask, 'coefficient': 1 + 0j}, 'exponent_neg': en, 'exponent_pos': ep}
        it = fdx.NumInterp({'self': {'atol': 1e-8}, 'gate': gate_obj, 'targets': tg})
        try:
            d = it.call(pf)
        except (fdx.Unsupported, fdx.Raised) as ex:
            raise AnalysisError(f'cannot interpret _serialize_pauli_string_phasor_gate: {ex}')
        # reference operator on the targets (big-endian over `tg`): product of paulis given by mask
        names = ['IXYZ'[k] for k in mask]
        if not d:
            if any(c != 'I' for c in names) and abs(en - ep) > 1e-12:
                bad = bad or f'mask {names}: nothing is sent for a non-trivial evolution'
            continue
        if d.get('gate') != 'pauliexp' or len(d.get('terms', [])) != 1:
            bad = bad or f'mask {names}: payload {d}'
            continue
        term = d['terms'][0]
        tgs = list(d.get('targets', []))
        if len(term) != len(tgs):
            bad = bad or f'mask {names}: term {term!r} and targets {tgs} differ in length'
            continue
        # IonQ: little-endian term string -> character j acts on targets[len-1-j]
        sent = {}
        for j, ch in enumerate(term):
            sent[tgs[len(tgs) - 1 - j]] = ch
        want = {q: c for q, c in zip(tg, names)}
        if {q: c for q, c in sent.items() if c != 'I'} != {q: c for q, c in want.items() if c != 'I'}:
            bad = bad or f'mask {names} on targets {tg}: payload terms={term!r} targets={tgs} applies {sent}'
        t_want = np.pi * (en - ep) / 2
        if abs(d.get('time', 0) - t_want) > 1e-12 or list(d.get('coefficients', [])) != [1.0]:
            bad = bad or f'mask {names}: time/coefficients {d.get("time")}, {d.get("coefficients")} (expected {t_want}, [1.0])'
    ctx.ob('C17.e', 'Serializer._serialize_pauli_string_phasor_gate:operator', bad is None, bad or '', m.rel, pf.lineno)

    # ------------------------------------------------------------------ C17.c
    ctx.rule('C17.c', 'dispatch agreement: the handler registered for family F is the one that emits F\'s mnemonics (x/v/rx for X, z/s/t/rz for Z, ...)', floor=10, style='WR')
    WANT_NAMES = {'XPowGate': {'x', 'v', 'vi', 'rx'}, 'YPowGate': {'y', 'ry'}, 'ZPowGate': {'z', 's', 'si', 't', 'ti', 'rz'}, 'XXPowGate': {'xx'},
                  'YYPowGate': {'yy'}, 'ZZPowGate': {'zz'}, 'CNotPowGate': {'cnot'}, 'HPowGate': {'h'}, 'SwapPowGate': {'swap'},
                  'GPIGate': {'gpi'}, 'GPI2Gate': {'gpi2'}, 'MSGate': {'ms'}, 'ZZGate': {'zz'}, 'MeasurementGate': {'meas'}}
    for cls, hname in sorted(table.items()):
        if cls not in WANT_NAMES or hname not in ser.methods:
            continue
        fn = ser.methods[hname]
        names = set()
        todo = [fn]
        seen = set()
        while todo:
            f = todo.pop()
            if f in seen:
                continue
            seen.add(f)
            for d in ast.walk(f):
                if isinstance(d, ast.Dict):
                    for k, v in zip(d.keys, d.values):
                        if isinstance(k, ast.Constant) and k.value == 'gate' and isinstance(v, ast.Constant):
                            names.add(v.value)
                if isinstance(d, ast.Call) and isinstance(d.func, ast.Attribute) and d.func.attr in ser.methods and d.func.attr != '_near_mod_n':
                    todo.append(ser.methods[d.func.attr])
                    names |= {a.value for a in d.args if isinstance(a, ast.Constant) and isinstance(a.value, str)}
        ok = bool(names) and names <= (WANT_NAMES[cls] | ({'xx', 'yy', 'zz'} if 'parity' in ast.unparse(fn) else set())) and bool(names & WANT_NAMES[cls])
        ctx.ob('C17.c', f'dispatch:{cls}->{hname}', ok, '' if ok else f'{cls} is dispatched to {hname}, which emits {sorted(names)} (expected a subset of {sorted(WANT_NAMES[cls])})', m.rel, fn.lineno)

    # ------------------------------------------------------------------ C17.i
    from .. import coh
    from .. import fields as F
    ctx.decided.append('C17.i every state-bearing constructor field of a gate class the IonQ serializer dispatches on is read by its handler (written or refused)')
    ctx.rule('C17.i', 'attribute coverage of the IonQ handlers: for each dispatched gate class, every constructor parameter that backs stored state (global phase shift, qudit dimension / '
             'shape and arity excepted) is read from the gate in its handler - written into the payload or tested in order to refuse; a field nobody reads is dropped from the job silently',
             floor=12, style='COH')
    I_EXEMPT = {'global_shift': 'a global phase is not observable in the job result', 'dimension': 'IonQ qubits are two-level; the device validator refuses other qids',
                'qid_shape': 'IonQ qubits are two-level', 'num_qubits': 'equals the number of targets, which is written'}
    KEY_ONLY = {'measurement_key_name', 'measurement_key_obj', 'measurement_key_names', 'measurement_key_objs', 'is_parameterized', 'num_qubits'}
    for cls, hname in sorted(table.items()):
        fn = ser.methods.get(hname)
        if fn is None:
            continue
        try:
            c = repo.resolve_class(m, cls) or repo.cls(cls)
        except Exception:
            c = None
        if c is None:
            cands = repo.classes_by_name.get(cls.split('.')[-1], [])
            c = cands[0] if len(cands) == 1 else None
        if c is None:
            ctx.unres('C17.i', cls, 'dispatched class not resolvable', m.rel, fn.lineno)
            continue
        gparam = fn.args.args[1].arg if len(fn.args.args) > 1 else None
        reads = set()
        todo, seen_f = [(fn, gparam)], set()
        while todo:
            f, gp = todo.pop()
            if f in seen_f or gp is None:
                continue
            seen_f.add(f)
            for n in ast.walk(f):
                if isinstance(n, ast.Attribute) and isinstance(n.value, ast.Name) and n.value.id == gp:
                    reads.add(n.attr)
                if isinstance(n, ast.Call) and any(isinstance(a, ast.Name) and a.id == gp for a in n.args):
                    cn = (call_name(n) or '').split('.')[-1]
                    if cn in KEY_ONLY:
                        reads.add('key')
                    elif isinstance(n.func, ast.Attribute) and isinstance(n.func.value, ast.Name) and n.func.value.id == 'self' and n.func.attr in ser.methods:
                        sub = ser.methods[n.func.attr]
                        idx = [i for i, a in enumerate(n.args) if isinstance(a, ast.Name) and a.id == gp][0]
                        if idx + 1 < len(sub.args.args):
                            todo.append((sub, sub.args.args[idx + 1].arg))
                    else:
                        reads.add('<whole>')
        info = coh.init_info(repo, c)
        if info is None or info[1] is None:
            continue
        owner, initfn, params, defaults, varkw = info
        p2f = F.init_param_to_field(repo, c)
        readf = set()
        for a in reads:
            readf.add(F.norm_field(repo, c, a))
            readf.add(a)
            r = repo.find_method(c, a)
            if r is not None:
                readf |= F.self_reads(repo, c, r[1], depth=2)
        for p in params:
            if not p2f.get(p) or p in I_EXEMPT:
                continue
            if initfn.args.kwarg is not None and p == initfn.args.kwarg.arg:
                continue
            ok = '<whole>' in reads or bool(p2f[p] & readf) or p in reads
            ctx.ob('C17.i', f'{c.name}:{p}->{hname}', ok, '' if ok else
                   f'{c.name}.{p} is stored state, but {hname} neither writes nor refuses it: the job runs a different operation than the circuit says', m.rel, fn.lineno)

    # ------------------------------------------------------------------ C17.b
    ctx.rule('C17.b', '_serialize_op rejects gate-less and parameterized operations before dispatch and ends in ValueError when no handler produced a result; '
             'serialize_* validate the circuit before serializing', floor=5, style='MPT')
    so = ser.methods.get('_serialize_op')
    if so is None:
        raise AnalysisError('Serializer._serialize_op vanished')
    par = m.parents()
    raises = [(r, dominating_atoms(par, r, so)) for r in ast.walk(so) if isinstance(r, ast.Raise)]
    first_dispatch = min([n.lineno for n in ast.walk(so) if isinstance(n, ast.Subscript) and '_dispatch' in ast.unparse(n.value)] or [10 ** 9])
    ok = any(any('gate is None' in ast.unparse(a) and pol for a, pol in at) and r.lineno < first_dispatch for r, at in raises)
    ctx.ob('C17.b', 'Serializer._serialize_op:gate-less-raises', ok, '' if ok else 'operations without a gate are not rejected before dispatch', m.rel, so.lineno)
    ok = any(any('is_parameterized' in ast.unparse(a) and pol for a, pol in at) and r.lineno < first_dispatch for r, at in raises)
    ctx.ob('C17.b', 'Serializer._serialize_op:parameterized-raises', ok, '' if ok else 'parameterized gates are not rejected before dispatch', m.rel, so.lineno)
    ok = isinstance(so.body[-1], ast.Raise)
    ctx.ob('C17.b', 'Serializer._serialize_op:falls-through-to-raise', ok, '' if ok else 'an operation no handler accepts is not rejected', m.rel, so.lineno)
    rets = [r for r in ast.walk(so) if isinstance(r, ast.Return)]
    ok = bool(rets) and all(any('serialized_op' in ast.unparse(a) for a, pol in dominating_atoms(par, r, so)) for r in rets)
    ctx.ob('C17.b', 'Serializer._serialize_op:returns-only-accepted-results', ok, '' if ok else 'a handler result is returned without the truthy-or-{} test (None would be sent to the service)', m.rel, so.lineno)
    for mn in ('serialize_single_circuit', 'serialize_many_circuits'):
        fn = ser.methods.get(mn)
        if fn is None:
            continue
        v = [c.lineno for c in ast.walk(fn) if isinstance(c, ast.Call) and call_name(c) == '_validate_circuit']
        s_ = [c.lineno for c in ast.walk(fn) if isinstance(c, ast.Call) and call_name(c) == '_serialize_circuit']
        ok = bool(v) and bool(s_) and min(v) < min(s_)
        ctx.ob('C17.b', f'Serializer.{mn}:validate-before-serialize', ok, '' if ok else 'circuits are serialized without being validated first', m.rel, fn.lineno)

    # ------------------------------------------------------------------ C17.d
    ctx.rule('C17.d', 'AQT op strings: get_op_string maps XXPowGate/ZPowGate/PhasedXPowGate/MeasurementGate to MS/Z/R/Meas and raises otherwise; the JSON writer '
             'emits (R, exponent, phase_exponent, qubits) and (op, exponent, qubits); the legacy reader and the simulator read the same positions', floor=8, style='WR')
    ad = repo.module('cirq-aqt/cirq_aqt/aqt_device.py')
    asm = repo.module('cirq-aqt/cirq_aqt/aqt_sampler.py')
    enum = repo.cls('cirq_aqt.aqt_device.OperationString')
    vals = {k: v.value for k, v in enum.assigns.items() if isinstance(v, ast.Constant)}
    gos = ad.defs.get('get_op_string')
    if not isinstance(gos, ast.FunctionDef):
        raise AnalysisError('get_op_string vanished')
    start = [n for n in gos.body if isinstance(n, ast.If)]
    got = {}
    if start:
        for test, body in chains.if_chain(start[0]):
            if test is None:
                ok = any(isinstance(s_, ast.Raise) for s_ in body)
                ctx.ob('C17.d', 'get_op_string:else-raises', ok, '' if ok else 'unsupported gates are mapped to an op string instead of being rejected', ad.rel, gos.lineno)
                continue
            cls = ast.unparse(test.args[1]).split('.')[-1] if isinstance(test, ast.Call) and len(test.args) == 2 else '?'
            member = None
            for s_ in body:
                for a in ast.walk(s_):
                    if isinstance(a, ast.Attribute) and isinstance(a.value, ast.Attribute) and ast.unparse(a.value.value) == 'OperationString':
                        member = a.value.attr
            got[cls] = vals.get(member)
    want = {'XXPowGate': 'MS', 'ZPowGate': 'Z', 'PhasedXPowGate': 'R', 'MeasurementGate': 'Meas'}
    for k, v in want.items():
        ctx.ob('C17.d', f'get_op_string:{k}', got.get(k) == v, '' if got.get(k) == v else f'{k} is written as `{got.get(k)}` (AQT name `{v}`)', ad.rel, gos.lineno)
    smp = repo.cls('cirq_aqt.aqt_sampler.AQTSampler')
    gj = smp.methods.get('_generate_json')
    pl = smp.methods.get('_parse_legacy_circuit_json')
    if gj is None or pl is None:
        raise AnalysisError('AQTSampler JSON writer/reader vanished')
    # locals, by what they are bound to (their names do not matter)
    OS = {st.targets[0].id for st in ast.walk(gj) if isinstance(st, ast.Assign) and isinstance(st.targets[0], ast.Name)
          and isinstance(st.value, ast.Call) and call_name(st.value) == 'get_op_string'}
    QI = {st.targets[0].id for st in ast.walk(gj) if isinstance(st, ast.Assign) and isinstance(st.targets[0], ast.Name)
          and isinstance(st.value, (ast.ListComp, ast.GeneratorExp)) and isinstance(st.value.elt, ast.Attribute) and st.value.elt.attr == 'x'}
    if not OS or not QI:
        raise AnalysisError('AQTSampler._generate_json: op string / qubit index locals vanished')
    tuples = [t for t in ast.walk(gj) if isinstance(t, ast.Tuple) and t.elts and isinstance(t.elts[0], ast.Name) and t.elts[0].id in OS]
    lay = {len(t.elts): (t, [ast.unparse(e) for e in t.elts]) for t in tuples}

    def is_qi(e):
        return isinstance(e, ast.Name) and e.id in QI
    ok = 4 in lay and 'exponent' in lay[4][1][1] and 'phase_exponent' in lay[4][1][2] and is_qi(lay[4][0].elts[3]) and 'phase_exponent' not in lay[4][1][1]
    ctx.ob('C17.d', 'AQTSampler._generate_json:R-layout', ok, '' if ok else f'R is written as {lay.get(4, (None, None))[1]} (expected op, exponent, phase_exponent, qubits)', asm.rel, gj.lineno)
    ok = 3 in lay and 'exponent' in lay[3][1][1] and is_qi(lay[3][0].elts[2])
    ctx.ob('C17.d', 'AQTSampler._generate_json:generic-layout', ok, '' if ok else f'Z/MS are written as {lay.get(3, (None, None))[1]} (expected op, exponent, qubits)', asm.rel, gj.lineno)
    ok = any(isinstance(n, ast.Compare) and len(n.ops) == 1 and isinstance(n.ops[0], ast.Eq) and isinstance(n.left, ast.Name) and n.left.id in OS
             and isinstance(n.comparators[0], ast.Constant) and n.comparators[0].value == 'R' for n in ast.walk(gj))
    ctx.ob('C17.d', 'AQTSampler._generate_json:R-branch', ok, '' if ok else 'the four-field layout is not chosen exactly for R', asm.rel, gj.lineno)
    # legacy reader: the chain dispatches on <item>[0]; <item> is whatever the loop variable over the parsed JSON is called
    WANTR = {'Z': ('GateRZ', {'qubit': 'legacy_op[2][0]', 'phi': 'legacy_op[1]'}), 'R': ('GateR', {'qubit': 'legacy_op[3][0]', 'theta': 'legacy_op[1]', 'phi': 'legacy_op[2]'}),
             'MS': ('GateRXX', {'qubits': 'legacy_op[2]', 'theta': 'legacy_op[1]'})}

    def item_of(test):
        if isinstance(test, ast.Compare) and isinstance(test.left, ast.Subscript) and isinstance(test.left.value, ast.Name) \
                and isinstance(test.left.slice, ast.Constant) and test.left.slice.value == 0 and 'OperationString.' in ast.unparse(test):
            return test.left.value.id
        return None
    chain = [n for n in ast.walk(pl) if isinstance(n, ast.If) and item_of(n.test)]
    rd = {}
    if chain:
        top = min(chain, key=lambda n: n.lineno)
        ITEM = item_of(top.test)

        class _Ren(ast.NodeTransformer):
            def visit_Name(self, node):
                return ast.copy_location(ast.Name(id='legacy_op', ctx=node.ctx), node) if node.id == ITEM else node
        import copy as _copy
        for test, body in chains.if_chain(top):
            if test is None:
                ok = any(isinstance(s_, ast.Raise) for s_ in body)
                ctx.ob('C17.d', 'AQTSampler._parse_legacy_circuit_json:else-raises', ok, '' if ok else 'unknown op strings are not rejected', asm.rel, pl.lineno)
                continue
            member = ast.unparse(test.comparators[0]).split('.')[1] if 'OperationString.' in ast.unparse(test) else None
            for s_ in body:
                for c in ast.walk(s_):
                    if isinstance(c, ast.Call) and call_name(c).startswith(('Gate', 'Measure')):
                        rd[vals.get(member)] = (call_name(c), {k.arg: ast.unparse(_Ren().visit(_copy.deepcopy(k.value))) for k in c.keywords if k.arg != 'operation'})
    for k, (cn, kw) in WANTR.items():
        g = rd.get(k)
        ok = g is not None and g[0] == cn and g[1] == kw
        ctx.ob('C17.d', f'AQTSampler._parse_legacy_circuit_json:{k}', ok, '' if ok else f'`{k}` is read as {g} (writer layout requires {cn}({kw}))', asm.rel, pl.lineno)
    gd = ad.defs.get('gate_dict')
    if isinstance(gd, ast.Dict):
        g = {k.value: ast.unparse(v).split('.')[-1] for k, v in zip(gd.keys, gd.values) if isinstance(k, ast.Constant)}
        ok = g.get('MS') == 'XX' and g.get('Z') == 'Z' and g.get('R') == 'PhasedXPowGate'
        ctx.ob('C17.d', 'aqt_device.gate_dict', ok, '' if ok else f'simulator gate table {g} disagrees with the op strings', ad.rel, gd.lineno)


def _sampling_alignment(ctx, repo):
    """C17.g - outcomes and their probabilities stay paired from the histogram to the sampling call."""
    ctx.decided.append('C17.g IonQ simulator results: the outcome list that sampled indices select from and the weight list given to choice(p=...) are taken from the same pass over the '
                       'probability dictionary (neither is reordered on its own)')
    ctx.rule('C17.g', 'paired sequences: for every <rng>.choice(..., p=W) in the vendor packages whose result indexes a sequence V, V and W derive from the '
             'histogram in its own order: no reordering call (sorted / reversed / set / sort / unique / shuffle) is applied to one of them alone', floor=1, style='TNT')
    REORDER = {'sorted', 'reversed', 'set', 'frozenset', 'sort', 'unique', 'shuffle', 'permutation'}
    n = 0
    for m in sorted(repo.modules.values(), key=lambda x: x.rel):
        if not m.rel.startswith(('cirq-ionq/cirq_ionq/', 'cirq-aqt/cirq_aqt/', 'cirq-pasqal/cirq_pasqal/')) or m.rel.endswith('_test.py'):
            continue
        for fn in [f for f in ast.walk(m.tree) if isinstance(f, ast.FunctionDef)]:
            for c in ast.walk(fn):
                if not (isinstance(c, ast.Call) and isinstance(c.func, ast.Attribute) and c.func.attr == 'choice' and any(k.arg == 'p' for k in c.keywords)):
                    continue
                n += 1
                wexpr = [k.value for k in c.keywords if k.arg == 'p'][0]
                # the name the result is bound to, and the sequences it indexes
                res = None
                for st in ast.walk(fn):
                    if isinstance(st, ast.Assign) and st.value is c and isinstance(st.targets[0], ast.Name):
                        res = st.targets[0].id
                indexed = set()
                if res:
                    for s_ in ast.walk(fn):
                        if isinstance(s_, ast.Subscript) and any(isinstance(x, ast.Name) and x.id == res for x in ast.walk(s_.slice)):
                            indexed |= {x.id for x in ast.walk(s_.value) if isinstance(x, ast.Name)}
                wnames = {x.id for x in ast.walk(wexpr) if isinstance(x, ast.Name)}
                defs = {}
                for st in ast.walk(fn):
                    if isinstance(st, ast.Assign):
                        for t in st.targets:
                            if isinstance(t, ast.Tuple) and isinstance(st.value, ast.Tuple) and len(t.elts) == len(st.value.elts):
                                # a, b = ea, eb: element-wise definitions, each judged on its own
                                for te, ve in zip(t.elts, st.value.elts):
                                    if isinstance(te, ast.Name):
                                        pseudo = ast.Assign(targets=[te], value=ve, lineno=st.lineno, col_offset=0)
                                        defs.setdefault(te.id, []).append(pseudo)
                                continue
                            for x in ast.walk(t):
                                if isinstance(x, ast.Name):
                                    defs.setdefault(x.id, []).append(st)

                def chain(names):
                    seen, todo, stmts = set(), list(names), []
                    while todo:
                        v = todo.pop()
                        if v in seen:
                            continue
                        seen.add(v)
                        for st in defs.get(v, []):
                            stmts.append(st)
                            todo += [x.id for x in ast.walk(st.value) if isinstance(x, ast.Name)]
                    return stmts

                def reorders(stmts):
                    out = []
                    for st in stmts:
                        for x in ast.walk(st.value):
                            if isinstance(x, ast.Call) and (call_name(x) or '').split('.')[-1] in REORDER:
                                out.append((st, x))
                    return out
                vch, wch = chain(indexed - {res}), chain(wnames)
                joint = [st for st in vch if st in wch and isinstance(st.targets[0], ast.Tuple)]
                rv = [r for r in reorders(vch) if r[0] not in joint]
                rw = [r for r in reorders(wch) if r[0] not in joint]
                ok = not rv and not rw and bool(indexed)  # keys()/values()/items() of one dict are aligned by the language; only a one-sided reordering breaks the pairing
                why = ''
                if not ok:
                    if rv or rw:
                        st, x = (rv or rw)[0]
                        why = f'`{ast.unparse(st)[:70]}` reorders only one of the two sequences: outcome i is then sampled with the probability of some other outcome'
                    else:
                        why = 'the sampled indices no longer select from a sequence of outcomes'
                ctx.ob('C17.g', f'{m.name}.{fn.name}:choice(p=)', ok, why, m.rel, c.lineno)
    if n == 0:
        raise AnalysisError('C17.g: no weighted choice() left in the vendor packages')


def _batch_order(ctx, repo):
    """C17.h - results of a batch come back in the order the service lists them (which is the submission order): circuit_index = position."""
    ctx.decided.append('C17.h IonQ Job.results: the per-circuit histograms are taken from the response in its own order (circuit i of the batch <-> i-th entry); they are not re-sorted by '
                       'child-job id or anything else')
    ctx.rule('C17.h', 'batch order: in cirq_ionq.job.Job.results every name that is enumerated to pair histograms with circuit indices derives from the response mapping without a '
             'sorted / reversed / set / sort call', floor=1, style='TNT')
    ci = repo.cls('cirq_ionq.job.Job')
    fn = repo.method(ci.qual, 'results')
    defs = {}
    for a in ast.walk(fn):
        if isinstance(a, ast.Assign) and len(a.targets) == 1 and isinstance(a.targets[0], ast.Name):
            defs.setdefault(a.targets[0].id, []).append(a.value)
    REORDER = {'sorted', 'reversed', 'set', 'frozenset', 'sort', 'shuffle'}
    n = 0
    seen = set()
    for c in ast.walk(fn):
        if isinstance(c, ast.Call) and call_name(c) == 'enumerate' and c.args and isinstance(c.args[0], ast.Name) and c.args[0].id not in seen:
            nm = c.args[0].id
            seen.add(nm)
            n += 1
            bad = [x for v in defs.get(nm, []) for x in ast.walk(v) if isinstance(x, ast.Call) and (call_name(x) or '').split('.')[-1] in REORDER]
            ctx.ob('C17.h', f'{ci.qual}.results:{nm}', not bad, '' if not bad else
                   f'`{nm}` is enumerated to number the circuits of a batch but is built with `{ast.unparse(bad[0])[:60]}`: histogram i is then attributed to some other circuit '
                   '(measurement keys and qubit mappings of circuit i are applied to it)', ci.mod.rel, bad[0].lineno if bad else fn.lineno)
    if n == 0:
        raise AnalysisError('C17.h: Job.results no longer enumerates the histograms')


# ---------------------------------------------------------------------------------------------------------------------
def _rows_from_per_shot_sequence(ctx, repo, rid='C17.j'):
    """C17.j - the rows of a multi-key Result come from one per-shot walk, never from per-key aggregated counts."""
    from ..flow import name_deps
    ctx.decided.append(f'{rid} vendor results -> cirq.Result: the per-key measurement arrays are not built from aggregated per-key counts (rows of different keys would no longer belong to the same shot)')
    ctx.rule(rid, 'joint shots stay joint: in every to_cirq_result of the vendor packages, nothing that derives from an aggregated count (a `.counts(...)` call, a Counter, `.most_common()`) '
             'flows into the measurement arrays handed to the Result - expanding each key\'s own histogram puts the rows of every key in that key\'s own order, so correlations between '
             'keys are lost although every single-key histogram stays right', floor=2, style='TNT')
    n = 0
    for m in sorted(repo.modules.values(), key=lambda x: x.rel):
        if not m.rel.startswith(('cirq-ionq/', 'cirq-aqt/', 'cirq-pasqal/')) or m.rel.endswith('_test.py'):
            continue
        for fn in [f for f in ast.walk(m.tree) if isinstance(f, ast.FunctionDef) and f.name == 'to_cirq_result']:
            def src(x):
                if isinstance(x, ast.Call):
                    cn = (call_name(x) or '').split('.')[-1]
                    if cn in ('counts', 'Counter', 'most_common'):
                        return {'AGG'}
                return None
            dep = name_deps(fn, {}, source_of=src)
            sinks = []
            for s_ in ast.walk(fn):
                if isinstance(s_, ast.Assign) and isinstance(s_.targets[0], ast.Subscript) and isinstance(s_.targets[0].value, ast.Name) \
                        and s_.targets[0].value.id in ('measurements', 'records'):
                    sinks.append(s_.value)
                if isinstance(s_, ast.Call) and (call_name(s_) or '').split('.')[-1] in ('ResultDict', 'Result'):
                    sinks += [k.value for k in s_.keywords if k.arg in ('measurements', 'records')]
            if not sinks:
                continue
            n += 1
            bad = None
            for e in sinks:
                for x in ast.walk(e):
                    if (isinstance(x, ast.Name) and 'AGG' in dep.get(x.id, set())) or src(x):
                        bad = x
                        break
                if bad is not None:
                    break
            ci_name = next((c.name for c in repo.classes.values() if c.mod is m and fn in c.methods.values()), '?')
            ctx.ob(rid, f'{m.name}.{ci_name}.to_cirq_result:rows', bad is None, '' if bad is None else
                   f'`{ast.unparse(bad)[:50]}` (line {bad.lineno}) is aggregated per key and is expanded into the rows of that key: row i of two keys no longer comes from the same shot', m.rel,
                   bad.lineno if bad is not None else fn.lineno)
    if n == 0:
        raise AnalysisError(f'{rid}: no to_cirq_result with a measurement sink found')


def _record_writer_guards_reader_keys(ctx, repo, rid='C17.l'):
    """Records joined with a separator by a writer and read back into a dictionary keyed by a field of the record: the writer refuses repeated keys."""
    ctx.decided.append(f'{rid} the IonQ measurement metadata is read back into a dictionary keyed by measurement key, so the writer refuses two records with the same key')
    ctx.rule(rid, 'one record per key on the way out when the way back is a dictionary: a cirq_ionq function that splits a string on a separator character and stores `d[key] = ...` per '
             'record keeps only the last record of a key; the function that joins the records with the same separator therefore tests the keys for uniqueness (len(set(keys)) against '
             'len(keys), or a membership test on the keys seen) and raises - a circuit measuring two qubits into one key is otherwise accepted and comes back with one of them',
             floor=1, style='COH')
    mods = [m for m in repo.modules.values() if m.rel.startswith('cirq-ionq/') and not m.rel.endswith('_test.py')]

    def sep_of(call):
        # chr(30).join(...) / x.split(chr(30))
        f = call.func
        if isinstance(f, ast.Attribute) and f.attr == 'join' and isinstance(f.value, ast.Call) and call_name(f.value) == 'chr' and f.value.args and isinstance(f.value.args[0], ast.Constant):
            return ('join', f.value.args[0].value)
        if isinstance(f, ast.Attribute) and f.attr == 'split' and call.args and isinstance(call.args[0], ast.Call) and call_name(call.args[0]) == 'chr' \
                and call.args[0].args and isinstance(call.args[0].args[0], ast.Constant):
            return ('split', call.args[0].args[0].value)
        return None
    readers, writers = {}, {}
    for m in mods:
        for fn in [f for f in ast.walk(m.tree) if isinstance(f, ast.FunctionDef)]:
            for lp in [l for l in ast.walk(fn) if isinstance(l, ast.For)]:
                if isinstance(lp.iter, ast.Call) and (sep_of(lp.iter) or ('', None))[0] == 'split':
                    stores = [s_ for s_ in ast.walk(lp) if isinstance(s_, ast.Assign) and len(s_.targets) == 1 and isinstance(s_.targets[0], ast.Subscript)
                              and isinstance(s_.targets[0].value, ast.Name)]
                    if stores:
                        readers[sep_of(lp.iter)[1]] = (m, fn, stores[0])
            for c in ast.walk(fn):
                if isinstance(c, ast.Call) and (sep_of(c) or ('', None))[0] == 'join':
                    writers.setdefault(sep_of(c)[1], (m, fn, c))
    n = 0
    for sep, (rm, rfn, store) in sorted(readers.items()):
        if sep not in writers:
            continue
        wm, wfn, wc = writers[sep]
        n += 1
        src = ast.unparse(wfn)
        uniq = False
        for c in ast.walk(wfn):
            if isinstance(c, ast.Compare) and len(c.ops) == 1:
                sides = [ast.unparse(c.left), ast.unparse(c.comparators[0])]
                if any(s_.startswith('len(set(') for s_ in sides) and any(s_.startswith('len(') and not s_.startswith('len(set(') for s_ in sides):
                    uniq = True
                if isinstance(c.ops[0], (ast.In, ast.NotIn)) and any(isinstance(p_, ast.Raise) for p_ in ast.walk(wfn)):
                    uniq = True
        ok = uniq and any(isinstance(x, ast.Raise) for x in ast.walk(wfn))
        ctx.ob(rid, f'{wm.name}.{wfn.name}:unique-keys-for:{rm.name}.{rfn.name}', ok, '' if ok else
               f'{rfn.name} reads the records back with `{ast.unparse(store)[:60]}` (one entry per key), but {wfn.name}, which joins them with chr({sep}), never checks that the keys are '
               'distinct', wm.rel, wc.lineno)
    if n == 0:
        raise AnalysisError(f'{rid}: no separator-joined record writer with a dictionary reader found in cirq_ionq')
