"""C04 - all descriptions of one operation agree (protocol coherence).

Decided: the in-place kernels (_apply_unitary_) of the table-defined gate families compute
exactly the matrix of their eigen tables (all basis inputs, probe exponents/shifts, incl.
qutrit X/Z), return the tensor they wrote and leave the target untouched when they give
up; has-X predicates cannot contradict X by construction of their guards; wrappers consult
the wrapped object in every protocol method and forward every parameter when delegating.
Not decided: decomposition == matrix, Kraus/mixture/superoperator agreement, act_on.
"""
from __future__ import annotations

import ast
import itertools

import numpy as np

from ..core import AnalysisError, call_name, dotted, is_self_attr, kwarg
from ..flow import dominating_atoms
from .. import fdx, fold
from .. import fields as F
from . import c03

PAIRS = [('_has_unitary_', '_unitary_'), ('_has_kraus_', '_kraus_'), ('_has_mixture_', '_mixture_')]
WRAPPERS = {
    'cirq.ops.raw_types.TaggedOperation': '_sub_operation',
    'cirq.ops.gate_operation.GateOperation': '_gate',
    'cirq.ops.controlled_operation.ControlledOperation': '_sub_operation',
    'cirq.ops.controlled_gate.ControlledGate': '_sub_gate',
    'cirq.ops.parallel_gate.ParallelGate': '_sub_gate',
    'cirq.ops.classically_controlled_operation.ClassicallyControlledOperation': '_sub_operation',
}
PROTO_METHODS = ['_unitary_', '_has_unitary_', '_kraus_', '_has_kraus_', '_mixture_', '_has_mixture_', '_apply_unitary_', '_decompose_',
                 '_decompose_with_context_', '_act_on_', '_qid_shape_', '_is_parameterized_', '_parameter_names_', '_resolve_parameters_',
                 '_measurement_key_objs_', '_measurement_key_names_', '_is_measurement_', '_control_keys_', '_has_stabilizer_effect_',
                 '_pauli_expansion_', '_trace_distance_bound_', '_phase_by_', '__pow__', '_commutes_', '_equal_up_to_global_phase_',
                 '_with_measurement_key_mapping_', '_with_key_path_', '_with_key_path_prefix_', '_with_rescoped_keys_', '_apply_channel_',
                 '_superoperator_', '_has_superoperator_', '_circuit_diagram_info_', '_qasm_']

KERNEL_PROBES = [(1, 0), (1, 0.3), (1, -0.5), (0.5, 0), (0.25, 0.2), (-1, 0), (2, 0), (1.5, 0.5), (3, 0),
                 (2, -0.5), (-2, 0.25), (4, 0.125), (0, 0.7), (6, -0.5),   # whole turns with a shift phase: identity fast paths must keep the phase
                 (np.float32(0.5), 0), (np.float64(0.25), 0.5), (np.float32(1.5), 0)]   # numpy scalars as exponents: `(-1) ** e` is nan / raises for them where `1j ** (2 * e)` is right


class _GiveUp(Exception):
    pass


def _run_kernel(ci, fn, n_axes, dim, exponent, shift, basis_index):
    d = dim or 2
    shape = (d,) * n_axes
    tgt = np.zeros(shape, dtype=complex)
    tgt[basis_index] = 1
    buf = np.full(shape, np.nan + 0j)
    orig = tgt.copy()

    def subspace_index(little_endian_bits_int=0, *, big_endian_bits_int=0):
        digits = []
        if big_endian_bits_int:
            v = big_endian_bits_int
            for k in range(n_axes):
                digits.append(v % d)
                v //= d
            digits = digits[::-1]
        else:
            v = little_endian_bits_int
            for k in range(n_axes):
                digits.append(v % d)
                v //= d
        return tuple(digits)
    args = {'target_tensor': tgt, 'available_buffer': buf, 'axes': tuple(range(n_axes)), 'subspace_index': subspace_index}
    self_obj = {'_exponent': exponent, 'exponent': exponent, '_global_shift': shift, 'global_shift': shift, '_dimension': d, 'dimension': d}

    def call_hook(call, it):
        s = ast.unparse(call.func)
        if s.endswith('is_parameterized') or s.endswith('_is_parameterized_'):
            return False
        return NotImplemented
    it = fdx.NumInterp({'self': self_obj, 'args': args}, call_hook=call_hook)
    res = it.call(fn)
    return res, tgt, buf, orig


class _SymbolicPi:
    """stands for sympy.pi and its multiples in membership tests against numeric angles: equal to no number"""
    def __neg__(self):
        return self

    def __truediv__(self, other):
        return self

    def __mul__(self, other):
        return self
    __rmul__ = __mul__

    def __eq__(self, other):
        return other is self

    def __hash__(self):
        return 7


def phased_fsim_kernel_rule(ctx, rid='C04.n'):
    """PhasedFSimGate._apply_unitary_ on every basis input == the matrix documented for the gate, on a grid of the five angles."""
    repo = ctx.repo
    ctx.decided.append(f'{rid} the in-place kernel of PhasedFSimGate equals the documented five-angle matrix on a grid that includes theta = +-pi (where chi drops out but the block is -1)')
    ctx.rule(rid, 'kernel == documented matrix for PhasedFSimGate: interpreting _apply_unitary_ on the four one-hot inputs gives the columns of '
             '[[1,0,0,0],[0,e^{-i(g+z)}cos t,-i e^{-i(g-c)} sin t,0],[0,-i e^{-i(g+c)} sin t,e^{-i(g-z)} cos t,0],[0,0,0,e^{-i(2g+p)}]] for every (theta, zeta, chi, gamma, phi) of a grid '
             'with zeros, +-pi, pi/2 and generic values (guards that skip work when angles vanish are exercised on both sides)', floor=1, style='FDX')
    ci = repo.cls('cirq.ops.fsim_gate.PhasedFSimGate')
    fn = ci.methods.get('_apply_unitary_')
    if fn is None:
        raise AnalysisError('PhasedFSimGate._apply_unitary_ not found')

    def rx(a):
        c, s_ = np.cos(a / 2), np.sin(a / 2)
        return np.array([[c, -1j * s_], [-1j * s_, c]])

    def rz(a):
        return np.diag([np.exp(-0.5j * a), np.exp(0.5j * a)])
    vals = [0.0, np.pi, -np.pi, np.pi / 2, 0.3, -1.1]
    grid = [(t, z, c, g, p_) for t in vals for z in (0.0, 0.7) for c in (0.0, -0.4) for g in (0.0, 0.25) for p_ in (0.0, 1.3)]
    bad = None
    unsupported = None
    runs = 0
    for (t, z, c, g, p_) in grid:
        want = np.array([[1, 0, 0, 0],
                         [0, np.exp(-1j * (g + z)) * np.cos(t), -1j * np.exp(-1j * (g - c)) * np.sin(t), 0],
                         [0, -1j * np.exp(-1j * (g + c)) * np.sin(t), np.exp(-1j * (g - z)) * np.cos(t), 0],
                         [0, 0, 0, np.exp(-1j * (2 * g + p_))]])
        for col, idx in enumerate(itertools.product(range(2), repeat=2)):
            tgt = np.zeros((2, 2), dtype=complex)
            tgt[idx] = 1
            buf = np.full((2, 2), np.nan + 0j)

            def subspace_index(little_endian_bits_int=0, *, big_endian_bits_int=0):
                v = big_endian_bits_int or little_endian_bits_int
                bits = (v & 1, (v >> 1) & 1)
                return bits[::-1] if big_endian_bits_int else bits
            args = {'target_tensor': tgt, 'available_buffer': buf, 'axes': (0, 1), 'subspace_index': subspace_index}
            self_obj = {k_: v_ for k_, v_ in (('theta', t), ('zeta', z), ('chi', c), ('gamma', g), ('phi', p_), ('_theta', t), ('_zeta', z), ('_chi', c), ('_gamma', g), ('_phi', p_))}

            def call_hook(call, it):
                s_ = ast.unparse(call.func)
                last = s_.split('.')[-1]
                if last in ('is_parameterized', '_is_parameterized_'):
                    return False
                if last == 'rx' and len(call.args) == 1:
                    return rx(it.ev(call.args[0]))
                if last == 'rz' and len(call.args) == 1:
                    return rz(it.ev(call.args[0]))
                if last == 'unitary' and len(call.args) == 1:
                    return it.ev(call.args[0])
                if s_ in ('cmath.exp', 'np.exp', 'math.e'):
                    return np.exp(it.ev(call.args[0]))
                if last == 'apply_matrix_to_slices':
                    kw = {k.arg: it.ev(k.value) for k in call.keywords}
                    pos = [it.ev(a) for a in call.args]
                    target = pos[0] if pos else kw['target']
                    matrix = pos[1] if len(pos) > 1 else kw['matrix']
                    slices = pos[2] if len(pos) > 2 else kw['slices']
                    out = kw.get('out')
                    if out is None:
                        out = np.empty_like(target)
                    if out is target:
                        raise fdx.Unsupported('apply_matrix_to_slices with out=target')
                    out[...] = target
                    for i_, si in enumerate(slices):
                        out[si] = sum(matrix[i_][j_] * target[sj] for j_, sj in enumerate(slices))
                    return out
                return NotImplemented
            it = fdx.NumInterp({'self': self_obj, 'args': args}, call_hook=call_hook)
            it.globals = {'sympy': {'pi': _SymbolicPi()}}
            try:
                fdx.follow(it, repo, ci, fn)
                res = it.call(fn)
            except (fdx.Unsupported, fdx.Raised) as ex:
                unsupported = str(ex)
                break
            runs += 1
            if res is None or res is NotImplemented:
                bad = bad or f'declines numeric angles (theta={t:.3g})'
                continue
            got = np.array(res).reshape(-1)
            if not np.allclose(got, want[:, col], atol=1e-9):
                bad = bad or (f'at theta={t:.4g}, zeta={z}, chi={c}, gamma={g}, phi={p_}, basis state {idx}: kernel gives {np.round(got, 4).tolist()} but the documented matrix column is '
                              f'{np.round(want[:, col], 4).tolist()}')
        if unsupported:
            break
    key = f'{ci.qual}._apply_unitary_'
    if unsupported:
        ctx.unres(rid, key, f'kernel not interpretable: {unsupported}', ci.mod.rel, fn.lineno)
        raise AnalysisError(f'{rid}: PhasedFSimGate kernel not interpretable: {unsupported}')
    ctx.ob(rid, key, bad is None, bad or '', ci.mod.rel, fn.lineno)
    ctx.notes.append(f'{rid} interpreted {runs} kernel runs')


def run(ctx):
    repo = ctx.repo
    ctx.decided += [
        'C04.b in-place kernels of the table-defined gates == their matrix on every basis input for probe exponents/shifts; a kernel returns the tensor it '
        'wrote and leaves the target unchanged when it gives up',
        'C04.c _decompose_ of the table-defined gates (+CSWAP) multiplies to exactly the gate matrix, incl. adjacency-dependent branches',
        'C04.a has-X literally True => X never gives up; literally False => no X; X gives up under parameterization => has-X negates parameterization',
        'C04.d wrappers read the wrapped object in every protocol method they define, and a method delegating to the same method of the wrapped object '
        'forwards every one of its parameters',
    ]
    ctx.not_decided += ['decompositions of parameter-dependent gates and of ControlledGate', 'Kraus / mixture / superoperator agreement with the matrix', 'act_on for each simulator state', 'controlled-gate kernels']

    # ------------------------------------------------------------------ C04.b
    ctx.rule('C04.b', 'kernel == matrix: interpreting _apply_unitary_ over a one-hot tensor for every basis state gives column U[:,k] of '
             'U = sum_j exp(i pi e (theta_j + shift)) P_j from the class\'s own eigen table, for every probe (exponent, shift) the kernel accepts; '
             'when it declines (None/NotImplemented) the target tensor is untouched; the returned array is the one holding the result', floor=10, style='FDX')
    nprobe = 0
    for (cq, dim), ref in c03.REFERENCE.items():
        ci = repo.cls(cq)
        fn = ci.methods.get('_apply_unitary_')
        if fn is None:
            continue
        try:
            comps, how = c03._components(repo, ci, dim)
        except fold.NotLiteral as ex:
            raise AnalysisError(f'eigen-components of {cq} can no longer be extracted ({ex})')
        d = dim or 2
        n_axes = int(round(np.log(ref.shape[0]) / np.log(d)))
        bad = None
        accepted = 0
        unsupported = None
        for e, s in KERNEL_PROBES:
            u = sum(np.exp(1j * np.pi * float(e) * (t + s)) * m for t, m in comps)
            for col, idx in enumerate(itertools.product(range(d), repeat=n_axes)):
                try:
                    res, tgt, buf, orig = _run_kernel(ci, fn, n_axes, dim, e, s, idx)
                except (fdx.Unsupported, fdx.Raised) as ex:
                    unsupported = str(ex)
                    break
                nprobe += 1
                if res is None or res is NotImplemented:
                    if not np.array_equal(tgt, orig):
                        bad = bad or f'gives up at exponent={e}, shift={s} after having modified the target tensor'
                    continue
                accepted += 1
                if res is not tgt and res is not buf:
                    bad = bad or f'returns an array that is neither target_tensor nor available_buffer (exponent={e})'
                    continue
                got = np.array(res).reshape(-1)
                want = u[:, col]
                if not np.allclose(got, want, atol=1e-9, equal_nan=False):
                    bad = bad or (f'at exponent={e}, global_shift={s}, basis state {idx}: kernel gives {np.round(got, 4).tolist()} '
                                  f'but the gate matrix column is {np.round(want, 4).tolist()}')
            if unsupported:
                break
        key = cq + (f'[d={dim}]' if dim else '') + '._apply_unitary_'
        if unsupported:
            ctx.unres('C04.b', key, f'kernel not interpretable: {unsupported}', ci.mod.rel, fn.lineno)
            continue
        if accepted == 0 and dim in (None, 2):
            bad = bad or 'kernel declines every probe (exponent 1 included)'
        ctx.ob('C04.b', key, bad is None, bad or '', ci.mod.rel, fn.lineno)
    ctx.notes.append(f'C04.b interpreted {nprobe} kernel runs')

    # ------------------------------------------------------------------ C04.c
    from . import decomp
    ctx.rule('C04.c', 'decomposition == matrix: interpreting _decompose_ over symbolic gate values (library gates resolved through the repository to '
             'their extracted tables) and multiplying the yielded operations gives exactly the gate\'s own matrix, for probe exponents/shifts and - for '
             'three-qubit gates - every placement of the qubits on a line (adjacency-dependent branches) as well as abstract qubits', floor=10, style='FDX')
    cache = {}
    cswap_ref = c03._controlled(c03.SWAPM)
    diag_angles = [0.1, 0.25, 0.7, -0.4, 1.3, 2.0, -1.1, 0.55]
    targets = [(cq, dim, None, None) for (cq, dim) in c03.REFERENCE if dim in (None, 2)] + \
        [('cirq.ops.three_qubit_gates.CSwapGate', None, cswap_ref, None),
         ('cirq.ops.three_qubit_gates.ThreeQubitDiagonalGate', None, np.diag(np.exp(1j * np.array(diag_angles))), {'_diag_angles_radians': list(diag_angles)})]
    ndec = 0
    for cq, dim, fixed_ref, extra in targets:
        ci = repo.cls(cq)
        if '_decompose_' not in ci.methods:
            continue
        if fixed_ref is None:
            comps, _ = c03._components(repo, ci, dim)
            n = int(round(np.log2(comps[0][1].shape[0])))
            probes = [(1, 0), (0.5, 0), (0.3, 0.2), (-1, 0), (2, 0), (0.25, -0.5)]
        else:
            n = 3
            probes = [(1, 0)]
        placements = [None] + ([list(p) for p in itertools.permutations(range(n))] if n == 3 else [])
        bad = None
        unsupported = None
        done = 0
        for e, s_ in probes:
            want = fixed_ref if fixed_ref is not None else sum(np.exp(1j * np.pi * e * (t + s_)) * m for t, m in comps)
            for pl in placements:
                try:
                    res = decomp.decomposition_unitary(repo, ci, '_decompose_', e, s_, n, cache, positions=pl, extra_self=extra)
                except (fdx.Unsupported, fdx.Raised) as ex:
                    unsupported = str(ex)
                    break
                ndec += 1
                if res is None:
                    continue
                done += 1
                u, k = res
                if not np.allclose(u, want, atol=1e-8):
                    ov = abs(np.trace(u.conj().T @ want)) / 2 ** n
                    bad = bad or (f'at exponent={e}, global_shift={s_}, qubits {"abstract" if pl is None else "on line positions " + str(pl)}: the {k} yielded operations '
                                  f'multiply to a different matrix (overlap with the gate {ov:.3f})')
            if unsupported:
                break
        key = f'{cq}._decompose_'
        if unsupported:
            ctx.unres('C04.c', key, f'decomposition not interpretable: {unsupported}', ci.mod.rel, ci.methods['_decompose_'].lineno)
            continue
        if done == 0:
            continue
        ctx.ob('C04.c', key, bad is None, bad or '', ci.mod.rel, ci.methods['_decompose_'].lineno)
    ctx.notes.append(f'C04.c interpreted {ndec} decompositions')

    # return discipline for all other kernels
    ctx.rule('C04.b2', 'kernel return discipline: every _apply_unitary_/_apply_channel_ returns args.target_tensor, args.available_buffer / '
             'args.out_buffer, the result of a delegating apply_* call, or a give-up value; no give-up return is reachable after a store into '
             'args.target_tensor', floor=30, style='MPT')
    for ci in sorted(repo.classes.values(), key=lambda c: c.qual):
        if '.testing.' in ci.qual or '.contrib.' in ci.qual or ci.qual.startswith('cirq.protocols'):
            continue
        for mn in ('_apply_unitary_', '_apply_channel_'):
            fn = ci.methods.get(mn)
            if fn is None:
                continue
            aname = fn.args.args[1].arg if len(fn.args.args) > 1 else 'args'
            okr = True
            msg = ''
            locals_ok = set()
            for n in ast.walk(fn):
                if isinstance(n, ast.Assign) and isinstance(n.targets[0], ast.Name):
                    v = ast.unparse(n.value)
                    if v.startswith(f'{aname}.') or 'apply_unitar' in v or 'targeted_left_multiply' in v or 'getattr' in v or 'reshape' in v or 'einsum' in v or 'apply_matrix' in v:
                        locals_ok.add(n.targets[0].id)
            first_store = None
            for n in ast.walk(fn):
                if isinstance(n, (ast.Subscript, ast.Attribute)) and isinstance(n.ctx, ast.Store) and f'{aname}.target_tensor' in ast.unparse(n):
                    first_store = min(first_store or 10 ** 9, n.lineno)
                if isinstance(n, ast.AugAssign) and f'{aname}.target_tensor' in ast.unparse(n.target):
                    first_store = min(first_store or 10 ** 9, n.lineno)
            for r in [n for n in ast.walk(fn) if isinstance(n, ast.Return)]:
                v = ast.unparse(r.value) if r.value is not None else 'None'
                giveup = v in ('None', 'NotImplemented')
                if giveup:
                    if first_store is not None and r.lineno > first_store and not _in_other_branch(ci.mod.parents(), r, first_store):
                        okr = False
                        msg = f'`return {v}` at line {r.lineno} is reachable after the target tensor was written (line {first_store}): the protocol falls back to another strategy on a half-updated state'
                    continue
                delegates = {n.targets[0].id for n in ast.walk(fn) if isinstance(n, ast.Assign) and isinstance(n.targets[0], ast.Name)
                             and isinstance(n.value, ast.Call) and call_name(n.value) == 'getattr' and len(n.value.args) >= 2
                             and isinstance(n.value.args[1], ast.Constant) and str(n.value.args[1].value).startswith('_apply_')}
                good = v in (f'{aname}.target_tensor', f'{aname}.available_buffer', f'{aname}.out_buffer') or \
                    any(k in v for k in ('apply_unitary', 'apply_unitaries', 'apply_channel', 'targeted_left_multiply')) or \
                    (isinstance(r.value, ast.Call) and isinstance(r.value.func, ast.Name) and r.value.func.id in delegates) or \
                    (isinstance(r.value, ast.Name) and r.value.id in locals_ok)
                if not good:
                    okr = False
                    msg = f'returns `{v[:60]}`, which is not one of the protocol\'s buffers nor a delegated result'
            ctx.ob('C04.b2', f'{ci.qual}.{mn}', okr, msg, ci.mod.rel, fn.lineno)

    # give-up discipline of the protocol itself
    ctx.decided.append('C04.b3 the apply_unitary protocol does not start an in-place sequence on the caller\'s tensor that it may abandon: every call of '
                       'apply_unitaries on the caller\'s own args with a non-raising default is dominated by a check that every operation has a unitary')
    ctx.rule('C04.b3', 'no give-up after a partial in-place application: inside cirq.protocols, apply_unitaries(ops, qubits, <the function\'s own args>, <default>) '
             '- which applies the operations one by one to args.target_tensor and returns the default at the first non-unitary one, without rolling back - '
             'is only reached after `all(has_unitary(op) for op in ops)`; callers that fall back to another strategy would otherwise continue on a corrupted state', floor=2, style='MPT')
    pm = repo.module('cirq-core/cirq/protocols/apply_unitary_protocol.py')
    n_sites = 0
    for fname, f in pm.defs.items():
        if not isinstance(f, ast.FunctionDef) or fname == 'apply_unitaries':
            continue
        params = {a.arg for a in f.args.args}
        par = pm.parents()
        for c in ast.walk(f):
            if not (isinstance(c, ast.Call) and call_name(c) == 'apply_unitaries'):
                continue
            a_args = c.args[2] if len(c.args) > 2 else kwarg(c, 'args')
            dflt = c.args[3] if len(c.args) > 3 else kwarg(c, 'default')
            if not (isinstance(a_args, ast.Name) and a_args.id in params) or dflt is None:
                continue           # a scratch tensor, or the raising form
            n_sites += 1
            ops_expr = ast.unparse(c.args[0]) if c.args else ''
            guarded = False
            for atom, pol in dominating_atoms(par, c, f):
                # `if not all(has_unitary(o) for o in ops): return ...` dominates as the positive atom all(...)
                if pol and isinstance(atom, ast.Call) and call_name(atom) == 'all' and atom.args and isinstance(atom.args[0], (ast.GeneratorExp, ast.ListComp)):
                    g = atom.args[0]
                    if isinstance(g.elt, ast.Call) and call_name(g.elt) == 'has_unitary' and ast.unparse(g.generators[0].iter) == ops_expr:
                        guarded = True
            ctx.ob('C04.b3', f'cirq.protocols.apply_unitary_protocol.{fname}:apply_unitaries-on-caller-args', guarded,
                   '' if guarded else f'{fname} applies the decomposition of a value operation by operation to the caller\'s tensor and returns {ast.unparse(dflt)} at the first '
                   'non-unitary one: cirq.apply_unitary(<decomposable non-unitary value>, args, default=None) reports failure but has already overwritten args.target_tensor '
                   '(DensityMatrixSimulator on a two-qubit PauliMeasurementGate then fails with NaN probabilities)', pm.rel, c.lineno)
    if n_sites == 0:
        raise AnalysisError('apply_unitary_protocol: the decompose strategy no longer calls apply_unitaries on the caller args')
    # "cannot tell" (NotImplemented: try the next strategy) versus "not unitary" (None: stop): lacking a decomposition only means cannot tell
    sd = pm.defs.get('_strat_apply_unitary_from_decompose')
    if sd is None:
        raise AnalysisError('_strat_apply_unitary_from_decompose vanished')
    arms = [i for i in ast.walk(sd) if isinstance(i, ast.If) and isinstance(i.test, ast.Compare) and isinstance(i.test.ops[0], ast.Is)
            and isinstance(i.test.comparators[0], ast.Constant) and i.test.comparators[0].value is None]
    if not arms:
        raise AnalysisError('_strat_apply_unitary_from_decompose: the no-decomposition arm vanished')
    rets = [r for r in arms[0].body if isinstance(r, ast.Return)]
    ok = bool(rets) and isinstance(rets[0].value, ast.Name) and rets[0].value.id == 'NotImplemented'
    ctx.ob('C04.b3', 'cirq.protocols.apply_unitary_protocol._strat_apply_unitary_from_decompose:no-decomposition-defers', ok,
           '' if ok else 'a value without a decomposition makes the strategy answer None ("has no unitary") instead of NotImplemented ("ask the next strategy"): for more than '
           'four qubits the decompose strategy runs before _unitary_, so a 5-qubit MatrixGate can no longer be applied although it has a unitary', pm.rel, arms[0].lineno)

    # same-name delegation hands on every argument
    ctx.decided.append('C04.d3 a method that delegates to the same-named method of another object uses every one of its own parameters (a wrapper that accepts an option '
                       'and does not pass it on answers for the default)')
    ctx.rule('C04.d3', 'same-name delegation: wherever the body of C.m calls x.m(...) on another object, each parameter of C.m is read in the body', floor=90, style='COH')
    DELEGATION_EXEMPT = {
        ('cirq._compat.DeprecatedModuleFinder', 'find_spec'): 'importlib finder signature; path/target are irrelevant to the aliasing finder',
        ('cirq.qis.clifford_tableau.CliffordTableau', 'copy'): 'no scratch buffers: deep_copy_buffers has nothing to select',
        ('cirq.sim.clifford.stabilizer_state_ch_form.StabilizerStateChForm', 'copy'): 'no scratch buffers: deep_copy_buffers has nothing to select',
    }
    for dc in sorted(repo.classes.values(), key=lambda c: c.qual):
        if '.testing.' in dc.qual or '.contrib.' in dc.qual or '/cloud/' in dc.mod.rel:
            continue
        for mn, fn in dc.methods.items():
            params = [a.arg for a in fn.args.args[1:] + fn.args.kwonlyargs]
            if not params:
                continue
            calls = [c for c in ast.walk(fn) if isinstance(c, ast.Call) and isinstance(c.func, ast.Attribute) and c.func.attr == mn
                     and not (isinstance(c.func.value, ast.Name) and c.func.value.id == 'self')
                     and not (isinstance(c.func.value, ast.Call) and call_name(c.func.value) == 'super')]
            if not calls:
                continue
            key = f'{dc.qual}.{mn}:delegates'
            if (dc.qual, mn) in DELEGATION_EXEMPT:
                ctx.ob('C04.d3', key, True, 'listed: ' + DELEGATION_EXEMPT[(dc.qual, mn)], dc.mod.rel, fn.lineno)
                continue
            used = {x.id for st in fn.body for x in ast.walk(st) if isinstance(x, ast.Name)}
            miss = [p_ for p_ in params if p_ not in used]
            ctx.ob('C04.d3', key, not miss, '' if not miss else f'{dc.name}.{mn} delegates to `{ast.unparse(calls[0].func)}` but never looks at its own parameter(s) {miss}',
                   dc.mod.rel, fn.lineno)

    # ------------------------------------------------------------------ C04.a
    ctx.rule('C04.a', 'has/does coherence by construction of guards: (i) _has_X_ literally True => _X_ has no give-up return; (ii) literally False => '
             'the class defines no _X_; (iii) _X_ gives up under a parameterization test => _has_X_ is false under parameterization; '
             '(iv) _X_ gives up when the wrapped value has no X => _has_X_ asks the same wrapped value', floor=40, style='COH')
    for ci in sorted(repo.classes.values(), key=lambda c: c.qual):
        if '.testing.' in ci.qual or '.contrib.' in ci.qual or ci.qual.startswith('cirq.protocols'):
            continue
        for h, x in PAIRS:
            hf = ci.methods.get(h)
            if hf is None:
                continue
            xr = repo.find_method(ci, x)
            rets = [s.value for s in ast.walk(hf) if isinstance(s, ast.Return) and s.value is not None]
            hsrc = ' '.join(ast.unparse(v) for v in rets)
            lit = None
            if len(rets) == 1 and isinstance(rets[0], ast.Constant) and isinstance(rets[0].value, bool):
                lit = rets[0].value
            key = f'{ci.qual}.{h}'
            if xr is None:
                ctx.ob('C04.a', key, True, '', ci.mod.rel, hf.lineno)
                continue
            xo, xf = xr
            par = xo.mod.parents()
            giveups = []
            for s in ast.walk(xf):
                if isinstance(s, ast.Return) and (s.value is None or ast.unparse(s.value) in ('None', 'NotImplemented')):
                    giveups.append((s, dominating_atoms(par, s, xf)))
            ok = True
            msg = ''
            if lit is True and giveups and xo is ci:
                ok = False
                msg = f'{h} is literally True but {x} can return {ast.unparse(giveups[0][0].value) if giveups[0][0].value else None} (line {giveups[0][0].lineno})'
            if lit is False and xo is ci:
                ok = False
                msg = f'{h} is literally False but the class defines {x}'
            if ok and lit is None:
                for s, atoms in giveups:
                    asrc = ' '.join(ast.unparse(a) for a, pol in atoms)
                    if ('is_parameterized' in asrc or 'sympy.Basic' in asrc) and not ('is_parameterized' in hsrc):
                        ok = False
                        msg = f'{x} gives up for parameterized values (line {s.lineno}) but {h} = `{hsrc[:60]}` does not consider parameterization'
            ctx.ob('C04.a', key, ok, msg, ci.mod.rel, hf.lineno)

    # ------------------------------------------------------------------ C04.d
    ctx.rule('C04.d', 'wrapper delegation: every protocol method a wrapper class defines reads the wrapped field (or delegates to a method that '
             'does); a method that returns <wrapped>.<same method>(...) forwards each of its own parameters', floor=60, style='COH')
    for cq, fld in WRAPPERS.items():
        ci = repo.cls(cq)
        for mn in PROTO_METHODS:
            fn = ci.methods.get(mn)
            if fn is None:
                continue
            rd = F.self_reads(repo, ci, fn, depth=2)
            ok = fld in rd or F.norm_field(repo, ci, fld.lstrip('_')) in rd or '<self>' in rd
            ctx.ob('C04.d', f'{cq}.{mn}:reads-wrapped', ok, '' if ok else f'{mn} of the wrapper never looks at the wrapped {fld.lstrip("_")}', ci.mod.rel, fn.lineno)
            if cq in ('cirq.ops.controlled_operation.ControlledOperation', 'cirq.ops.controlled_gate.ControlledGate') and mn in ('_unitary_', '_apply_unitary_', '_kraus_', '_mixture_', '_decompose_', '_decompose_with_context_'):
                okc = any('control' in f for f in rd)
                ctx.ob('C04.d', f'{cq}.{mn}:reads-controls', okc, '' if okc else f'{mn} ignores the control values/qubits', ci.mod.rel, fn.lineno)
    # delegation completeness (all classes with a wrapped operation/gate field)
    n_del = 0
    for ci in sorted(repo.classes.values(), key=lambda c: c.qual):
        if '.testing.' in ci.qual or '.contrib.' in ci.qual:
            continue
        for mn, fn in ci.methods.items():
            if mn.startswith('__') and mn not in ('__pow__',):
                continue
            params = [a.arg for a in fn.args.args[1:] + fn.args.kwonlyargs]
            if fn.args.vararg is not None:
                params.append(fn.args.vararg.arg)
            if not params:
                continue
            for r in [n for n in ast.walk(fn) if isinstance(n, ast.Return) and isinstance(n.value, ast.Call)]:
                c = r.value
                f = c.func
                if isinstance(f, ast.Attribute) and f.attr == mn and isinstance(f.value, ast.Attribute) and is_self_attr(f.value) \
                        and f.value.attr in ('sub_operation', '_sub_operation', 'sub_gate', '_sub_gate', 'gate', '_gate', '_original', 'untagged'):
                    used = {x.id for a in list(c.args) + [k.value for k in c.keywords] for x in ast.walk(a) if isinstance(x, ast.Name)}
                    miss = [p for p in params if p not in used]
                    n_del += 1
                    ctx.ob('C04.d', f'{ci.qual}.{mn}:forwards-all-parameters', not miss,
                           '' if not miss else f'{mn} delegates to the wrapped {f.value.attr.lstrip("_")} but drops its own parameter(s) {miss}: the caller\'s '
                           f'{miss[0]} is silently replaced by the default', ci.mod.rel, r.lineno)
    ctx.notes.append(f'C04.d delegation-completeness sites: {n_del}')
    _global_phase_controlled(ctx, repo)
    control_values_representation_rule(ctx, 'C04.g')
    give_up_values_rule(ctx, 'C04.h')
    control_values_are_ints_rule(ctx, 'C04.i')
    wrapper_shape_rule(ctx, 'C04.j')
    extract_phase_rule(ctx, 'C04.k')
    tensor_arguments_stay_arrays_rule(ctx, 'C04.l')
    from . import simrules as _sim
    _sim.term_starts_from_stash_rule(ctx, 'C04.m')
    phased_fsim_kernel_rule(ctx, 'C04.n')
    ctx.decided.append('C04.l tensors handed to the Apply*Args objects are arrays also for zero-qubit states (no bare ufunc results)')
    ctx.decided.append('C04.k _extract_phase drops the global phase operation only when the phase is 1 (interpreted on a grid of shifts and exponents)')
    ctx.decided.append('C04.j gate wrappers that size themselves from the wrapped gate also take their qid shape from it')
    ctx.decided.append('C04.i the constructors of the control-value classes store plain ints (the stored values are used as numpy indices, where a bool is a mask)')
    ctx.decided.append('C04.h protocol functions exclude both documented give-up values (None and NotImplemented) of _unitary_/_mixture_/_apply_unitary_ before using a result')
    ctx.decided.append('C04.g stored control values are read element-wise only when they are known to be a ProductOfSums')


def _in_other_branch(parents, ret, store_line):
    """True if the give-up return sits in a branch that cannot follow the store (e.g. the `else` of the `if` containing the store)."""
    cur = ret
    while cur in parents:
        p = parents[cur]
        if isinstance(p, ast.If):
            body_lines = [n.lineno for s in p.body for n in ast.walk(s) if hasattr(n, 'lineno')]
            else_lines = [n.lineno for s in p.orelse for n in ast.walk(s) if hasattr(n, 'lineno')]
            if cur in p.orelse and body_lines and min(body_lines) <= store_line <= max(body_lines):
                return True
            if cur in p.body and else_lines and min(else_lines) <= store_line <= max(else_lines):
                return True
        cur = p
    return False


def _global_phase_controlled(ctx, repo):
    """C04.e - GlobalPhaseGate.controlled(): the control that is turned into the Z target is the one that was tested and the one removed."""
    import numpy as _np
    ctx.decided.append('C04.e GlobalPhaseGate.controlled rewrites "phase controlled on c1..cn" into Z**t on one control only when that control is a qubit required to be 1, and '
                       'hands exactly the remaining control values / shapes on (interpreted on model control lists with distinct entries)')
    ctx.rule('C04.e', 'controlled global phase: interpreting GlobalPhaseGate.controlled on model results (3 and 2 controls with pairwise different values and dimensions), the shortcut fires '
             'only if the last control is a qubit controlled on 1, and then returns ZPowGate(exponent = arg(coefficient)/pi).controlled(n-1, the other control values, the other shapes) in their order',
             floor=6, style='FDX')
    ci = repo.cls('cirq.ops.global_phase_op.GlobalPhaseGate')
    fn = repo.method(ci.qual, 'controlled')

    class CV(list):
        pass

    class Res:
        def __init__(self, cvs, shape):
            self.control_values, self.control_qid_shape = CV(cvs), tuple(shape)

        def num_controls(self):
            return len(self.control_qid_shape)

    class Me:
        coefficient = 1j

        def _is_parameterized_(self):
            return False

    class Z:
        def __init__(self, exponent):
            self.exponent = exponent

        def controlled(self, num_controls=None, control_values=None, control_qid_shape=None):
            # the library defaults: all controls on 1, all qubits
            n = num_controls if num_controls is not None else len(control_values if control_values is not None else control_qid_shape or ())
            cvs = list(control_values) if control_values is not None else [(1,)] * n
            shape = tuple(control_qid_shape) if control_qid_shape is not None else (2,) * n
            return ('Z', self.exponent, n, cvs, shape)
    cases = [
        ([(0,), (2,), (1,)], (3, 4, 2), True),
        ([(1,), (0,), (1,)], (2, 3, 2), True),
        ([(0,), (1,)], (2, 2), True),
        ([(1,), (0,)], (2, 2), False),          # last control is an anti-control
        ([(1,), (1,), (2,)], (2, 2, 3), False),  # last control is a qutrit level
        ([(1,), (1, 0)], (2, 2), False),         # last control accepts both values
        ([(1,)], (2,), True),
    ]
    for cvs, shape, fires in cases:
        res = Res(cvs, shape)

        def call_hook(call, it, res=res):
            s = ast.unparse(call.func)
            if s == 'super().controlled':
                return res
            if s.split('.')[-1] == 'ZPowGate':
                return Z(it.ev(call.keywords[0].value) if call.keywords else it.ev(call.args[0]))
            if s == 'isinstance':
                v = it.ev(call.args[0])
                return isinstance(v, (Res, CV))
            return NotImplemented

        def attr_hook(node, it):
            try:
                v = it.ev(node.value)
            except fdx.Unsupported:
                return NotImplemented
            if isinstance(v, (Res, Me, Z)) and hasattr(v, node.attr):
                return getattr(v, node.attr)
            return NotImplemented
        params = [a.arg for a in fn.args.args]
        env = {params[0]: Me(), **{p: None for p in params[1:]}}
        it = fdx.NumInterp(env, call_hook=call_hook, attr_hook=attr_hook)
        it.builtins.update({'complex': complex, 'float': float, 'len': len})
        try:
            out = it.call(fn)
        except (fdx.Unsupported, fdx.Raised) as ex:
            raise AnalysisError(f'GlobalPhaseGate.controlled not interpretable: {ex}')
        # returning the generic ControlledGate is always right; the Z form is right only for a last control that is a qubit required to be 1
        want = ('Z', 0.5, len(shape) - 1, list(cvs[:-1]), tuple(shape[:-1])) if fires else 'the ControlledGate unchanged'
        ok = out is res or (fires and isinstance(out, tuple) and out[0] == 'Z' and abs(out[1] - 0.5) < 1e-9 and out[2:] == want[2:])
        ctx.ob('C04.e', f'{ci.qual}.controlled:cv={cvs}:shape={shape}', ok, '' if ok else
               f'phase i controlled on values {cvs} (shapes {shape}) must become {want}; the method returns {out if not isinstance(out, Res) else "the ControlledGate unchanged"} - the phase '
               'is applied under the wrong control condition', ci.mod.rel, fn.lineno)


# ---------------------------------------------------------------------------------------------------------------------
# C04.g  AbstractControlValues has two representations.  Iterating / indexing / zipping an object of that type yields the
# accepted values *per control qubit* for ProductOfSums, but one *joint assignment per term* for SumOfProducts.  Code that
# reads per-qubit meaning out of `x.control_values` directly is right for one representation only; the representation
# independent interface is expand(), validate(), is_trivial, ==, &, |, len via num_controls.
def control_values_representation_rule(ctx, rid='C04.g'):
    from ..flow import dominating_atoms
    repo = ctx.repo
    ctx.rule(rid, 'representation independence of control values: outside control_values.py, an expression `<x>.control_values` is iterated, zipped, enumerated, subscripted or '
             'measured with len() only under a dominating `isinstance(<x>.control_values, ProductOfSums)` test; everything else goes through expand() / validate() / equality - '
             'per-qubit reading of a SumOfProducts takes each joint assignment for the values of one qubit', floor=3, style='RG')
    for m in sorted(repo.modules.values(), key=lambda x: x.rel):
        if m.rel.endswith('_test.py') or '/testing/' in m.rel or m.rel.endswith('ops/control_values.py') or '/contrib/' in m.rel:
            continue
        if 'control_values' not in m.src:
            continue
        par = m.parents()
        for n in ast.walk(m.tree):
            if not (isinstance(n, ast.Attribute) and n.attr == 'control_values' and isinstance(n.ctx, ast.Load)):
                continue
            p = par.get(n)
            use = None
            if isinstance(p, (ast.For, ast.comprehension)) and p.iter is n:
                use = 'iterated'
            elif isinstance(p, ast.Subscript) and p.value is n:
                use = 'subscripted'
            elif isinstance(p, ast.Call) and n in p.args and call_name(p) in ('zip', 'enumerate', 'len', 'list', 'tuple', 'sorted', 'reversed', 'all', 'any', 'set'):
                use = f'passed to {call_name(p)}()'
            elif isinstance(p, ast.Compare) and any(isinstance(o, (ast.In, ast.NotIn)) for o in p.ops) and n in p.comparators:
                use = 'searched with `in`'
            elif isinstance(p, ast.Starred):
                use = 'unpacked'
            if use is None:
                continue
            txt = ast.unparse(n)

            def enclosing(x):
                while x in par and not isinstance(x, (ast.FunctionDef, ast.AsyncFunctionDef)):
                    x = par[x]
                return x if isinstance(x, (ast.FunctionDef, ast.AsyncFunctionDef)) else None

            def is_pos_test(a):
                return isinstance(a, ast.Call) and call_name(a) == 'isinstance' and len(a.args) == 2 and ast.unparse(a.args[0]) == txt \
                    and ast.unparse(a.args[1]).split('.')[-1] == 'ProductOfSums'

            def under_test(x, depth=0):
                f = enclosing(x)
                for a, pol in dominating_atoms(par, x, f):
                    if pol and is_pos_test(a):
                        return True
                # conjunction in the same boolean expression: isinstance(x.control_values, ProductOfSums) and x.control_values[-1] == ...
                q = x
                while q in par and not isinstance(par[q], ast.stmt):
                    pp = par[q]
                    if isinstance(pp, ast.BoolOp) and isinstance(pp.op, ast.And) and q in pp.values and any(is_pos_test(v) for v in pp.values[:pp.values.index(q)]):
                        return True
                    q = pp
                # a private helper of the class, reading self.control_values: judged at each of its call sites
                if f is not None and f.name.startswith('_') and not f.name.startswith('__') and txt.startswith('self.') and depth < 2:
                    sites = [c for c in ast.walk(m.tree) if isinstance(c, ast.Call) and isinstance(c.func, ast.Attribute) and c.func.attr == f.name
                             and isinstance(c.func.value, ast.Name) and c.func.value.id == 'self']
                    if sites and all(under_test(c, depth + 1) for c in sites):
                        return True
                return False
            fn = enclosing(p)
            guarded = under_test(n)
            name = getattr(fn, 'name', '?')
            ctx.ob(rid, f'{m.name}.{name}:{txt}:{use}', guarded, '' if guarded else
                   f'`{txt}` is {use} without a dominating isinstance(..., ProductOfSums) test: for sum-of-products control values each element is a joint assignment of all '
                   'controls, not the accepted values of one control qubit', m.rel, n.lineno)


# ---------------------------------------------------------------------------------------------------------------------
# C04.h  `_unitary_`, `_mixture_` and `_apply_unitary_` are documented to give up by returning None *or* NotImplemented.
# A protocol function that fetches one of them with getattr and uses the result must exclude both.
def give_up_values_rule(ctx, rid='C04.h'):
    repo = ctx.repo
    ctx.rule(rid, 'both give-up values: in cirq.protocols, wherever the result of calling a `_unitary_` / `_mixture_` / `_apply_unitary_` method obtained with getattr(val, name, None) is '
             'stored in a local, the uses of that local are guarded against NotImplemented and against None (comparisons with both appear in the function for that local) - a None that '
             'slips through is wrapped into a result such as ((1.0, None),) and has_X answers True for a value without X', floor=8, style='RG')
    MAGIC = {'_unitary_', '_mixture_', '_apply_unitary_'}
    for m in sorted(repo.modules.values(), key=lambda x: x.rel):
        if not m.rel.startswith('cirq-core/cirq/protocols/') or m.rel.endswith('_test.py'):
            continue
        for fn in [f for f in ast.walk(m.tree) if isinstance(f, ast.FunctionDef)]:
            getters = {}
            for s_ in ast.walk(fn):
                if isinstance(s_, ast.Assign) and len(s_.targets) == 1 and isinstance(s_.targets[0], ast.Name) and isinstance(s_.value, ast.Call) \
                        and call_name(s_.value) == 'getattr' and len(s_.value.args) >= 2 and isinstance(s_.value.args[1], ast.Constant) and s_.value.args[1].value in MAGIC:
                    getters[s_.targets[0].id] = s_.value.args[1].value
            if not getters:
                continue
            for s_ in ast.walk(fn):
                if not (isinstance(s_, ast.Assign) and len(s_.targets) == 1 and isinstance(s_.targets[0], ast.Name)):
                    continue
                used = [c for c in ast.walk(s_.value) if isinstance(c, ast.Call) and isinstance(c.func, ast.Name) and c.func.id in getters]
                if not used:
                    continue
                res = s_.targets[0].id
                magic = getters[used[0].func.id]
                # the next assignment to the same local ends the region in which comparisons count
                later = [a.lineno for a in ast.walk(fn) if isinstance(a, ast.Assign) and a is not s_ and a.lineno > s_.lineno
                         and any(isinstance(t, ast.Name) and t.id == res for t in a.targets)]
                end = min(later) if later else 10 ** 9
                seen = set()
                for t in ast.walk(fn):
                    if isinstance(t, ast.Compare) and isinstance(t.left, ast.Name) and t.left.id == res and s_.lineno <= t.lineno < end and len(t.ops) == 1 \
                            and isinstance(t.ops[0], (ast.Is, ast.IsNot)):
                        seen.add(ast.unparse(t.comparators[0]))
                ok = {'NotImplemented', 'None'} <= seen
                ctx.ob(rid, f'{m.name}.{fn.name}:{magic}->{res}', ok, '' if ok else
                       f'the result of {magic}() is only compared with {sorted(seen) or "nothing"}: the other documented give-up value is used as if it were a result', m.rel, s_.lineno)


# ---------------------------------------------------------------------------------------------------------------------
# C04.i  Control values end up as numpy indices (`tensor[(.., v, ..)] = sub_tensor` in ControlledOperation._extend_matrix,
# `rads[hot] = angle` in ControlledGate._decompose_with_context_), where a Python bool is a *mask*, not the position 0 / 1.
# `True == 1` makes the two spellings equal objects, so they must also describe the same matrix: the constructors of the
# control-value classes store plain ints.
def control_values_are_ints_rule(ctx, rid='C04.i'):
    repo = ctx.repo
    ctx.rule(rid, 'control values are stored as plain ints: in __init__ of every concrete AbstractControlValues class, each value taken from the caller\'s data '
             '(a comprehension variable over the data) is only iterated, type-tested, or handed to int() before it is stored - the stored tuples are later used as numpy indices, '
             'where True / False select by mask: cirq.unitary(ControlledGate(Y, control_values=[True])) and cirq.mixture disagree with apply_unitary and with the equal gate '
             'control_values=[1]', floor=2, style='EFF')
    base = repo.cls('cirq.ops.control_values.AbstractControlValues')
    n = 0
    for ci in repo.subclasses(base):
        if ci is base or '__init__' not in ci.methods or ci.mod.rel.endswith('_test.py'):
            continue
        fn = ci.methods['__init__']
        params = {a.arg for a in fn.args.args + fn.args.kwonlyargs if a.arg != 'self'}
        par = ci.mod.parents()
        for st in ast.walk(fn):
            if not (isinstance(st, (ast.Assign, ast.AnnAssign)) and st.value is not None):
                continue
            tgts = st.targets if isinstance(st, ast.Assign) else [st.target]
            if not any(isinstance(t, ast.Attribute) and isinstance(t.value, ast.Name) and t.value.id == 'self' for t in tgts):
                continue
            comps = [g for x in ast.walk(st.value) if isinstance(x, (ast.ListComp, ast.SetComp, ast.GeneratorExp, ast.DictComp)) for g in x.generators]
            # comprehension variables that (transitively) range over a parameter
            vars_ = set()
            grow = True
            while grow:
                grow = False
                for g in comps:
                    src = {x.id for x in ast.walk(g.iter) if isinstance(x, ast.Name)}
                    if src & (params | vars_):
                        for t in ast.walk(g.target):
                            if isinstance(t, ast.Name) and t.id not in vars_:
                                vars_.add(t.id)
                                grow = True
            if not vars_:
                continue
            n += 1
            raw = []
            for x in ast.walk(st.value):
                if not (isinstance(x, ast.Name) and isinstance(x.ctx, ast.Load) and x.id in vars_):
                    continue
                p = par.get(x)
                if isinstance(p, ast.comprehension) and p.iter is x:
                    continue
                if isinstance(p, ast.Call) and call_name(p) in ('int', 'isinstance', 'len') and x in p.args:
                    continue
                raw.append(x)
            ctx.ob(rid, f'{ci.qual}.__init__:{ast.unparse(tgts[0])}', not raw, '' if not raw else
                   f'`{ast.unparse(par.get(raw[0], raw[0]))}` stores the caller\'s value `{raw[0].id}` as it came: a bool stays a bool and is later used as a numpy mask', ci.mod.rel, st.lineno)
    if n == 0:
        raise AnalysisError('no control-values constructor stores values taken from its data parameter')


# ---------------------------------------------------------------------------------------------------------------------
# C04.j  A gate that takes its size from a wrapped gate also has to take its *dimensions* from it: Gate._qid_shape_
# defaults to (2,) * num_qubits(), while _unitary_ / _decompose_ / _kraus_ built from the wrapped gate have its dimensions.
def wrapper_shape_rule(ctx, rid='C04.j'):
    repo = ctx.repo
    ctx.rule(rid, 'dimension delegation: a Gate class whose num_qubits / _num_qubits_ / _qid_shape_ reads a field holding a gate handed to the constructor defines _qid_shape_ and reads '
             'that field there - with the default shape (2,) * n the qid shape says qubits where the matrix built from the wrapped gate has its dimensions '
             '(ParallelGate(XPowGate(dimension=3), 2): shape (2, 2), matrix 9x9)', floor=3, style='COH')
    gate = repo.cls('cirq.ops.raw_types.Gate')
    n = 0
    for ci in sorted(repo.subclasses(gate), key=lambda c: c.qual):
        if ci.mod.rel.endswith('_test.py') or '/testing/' in ci.mod.rel or '/contrib/' in ci.mod.rel:
            continue
        init = ci.methods.get('__init__')
        if init is None:
            continue
        gparams = [a.arg for a in init.args.args + init.args.kwonlyargs if a.annotation is not None
                   and ast.unparse(a.annotation).replace("'", '').replace('"', '').split('.')[-1] == 'Gate']
        if not gparams:
            continue
        p2f = F.init_param_to_field(repo, ci)
        flds = set()
        for p in gparams:
            flds |= set(p2f.get(p, ()))
        if not flds:
            continue
        sizing = [ci.methods[m] for m in ('num_qubits', '_num_qubits_', '_qid_shape_') if m in ci.methods]
        reads = set()
        for fn in sizing:
            reads |= {F.norm_field(repo, ci, f.lstrip('_')) for f in F.self_reads(repo, ci, fn, depth=2)} | set(F.self_reads(repo, ci, fn, depth=2))
        nf = {F.norm_field(repo, ci, f.lstrip('_')) for f in flds} | flds
        if not (reads & nf):
            continue
        n += 1
        qs = ci.methods.get('_qid_shape_')
        ok = qs is not None and bool(({F.norm_field(repo, ci, f.lstrip('_')) for f in F.self_reads(repo, ci, qs, depth=2)} | set(F.self_reads(repo, ci, qs, depth=2))) & nf)
        ctx.ob(rid, f'{ci.qual}:_qid_shape_', ok, '' if ok else
               f'the class sizes itself from the wrapped gate ({sorted(flds)}) but ' + ('defines no _qid_shape_' if qs is None else '_qid_shape_ does not look at it') +
               ': a wrapped qudit gate is reported with qubit dimensions', ci.mod.rel, (qs or ci.node).lineno)
    if n == 0:
        raise AnalysisError('no gate wrapper found')


# ---------------------------------------------------------------------------------------------------------------------
# C04.k  _extract_phase splits an eigen-gate with a global shift into the bare gate and a global phase operation; the phase
# operation may be left out only when the phase is 1.  Interpreted on a grid of (shift, exponent), the helper functions of
# global_phase_op followed (from_phase_and_exponent, GlobalPhaseGate.is_identity modelled by its documented meaning).
def extract_phase_rule(ctx, rid='C04.k'):
    repo = ctx.repo
    m = repo.module('cirq-core/cirq/ops/common_gates.py')
    fn = m.defs.get('_extract_phase')
    ctx.rule(rid, 'phase extraction keeps the phase: _extract_phase(gate, ...) returns the bare gate alone exactly when exp(i pi shift exponent) == 1 and the bare gate followed by a global '
             'phase operation of that value otherwise (grid of shifts and exponents, incl. products that are odd integers: rx(2 pi) is -I, a Z on the control once controlled)',
             floor=20, style='FDX')
    if not isinstance(fn, ast.FunctionDef):
        raise AnalysisError('common_gates._extract_phase vanished')
    params = [a.arg for a in fn.args.args]

    class Phase:
        def __init__(self, c):
            self.coefficient = self._coefficient = complex(c)

        def is_identity(self):
            return bool(np.isclose(self.coefficient, 1))

        def __call__(self, *a):
            return ('phase', self.coefficient)

        def on(self, *a):
            return ('phase', self.coefficient)

    class Bare:
        def __init__(self, **kw):
            self.kw = kw

        def on(self, *q):
            return ('bare', self.kw.get('exponent'), q)

    def call_hook(call, it):
        s = ast.unparse(call.func)
        if s.split('.')[-1] == 'GlobalPhaseGate':
            return Phase(it.ev(call.args[0]))
        if s.endswith('is_parameterized'):
            return False
        if s == 'isinstance':
            a0 = it.ev(call.args[0])
            if isinstance(a0, dict) and 'global_shift' in a0:
                return False     # the model gate is not a qudit X / Z
            if ast.unparse(call.args[1]).endswith('sympy.Expr'):
                return False
        return NotImplemented
    k = 0
    for shift in (-0.5, 0.5, 0.25, 1.0, -1.0, 2.0 / 3.0, 0.3):
        for e in (0.0, 1.0, 2.0, 3.0, 4.0, -2.0, 0.5, 1.5, 6.0, 0.7):
            gate = {'global_shift': shift, '_global_shift': shift, 'exponent': e, '_exponent': e, 'dimension': 2}
            env = {params[0]: gate, params[1]: (lambda **kw: Bare(**kw)), params[2]: ('q0',), params[3]: {'extract_global_phases': True}}
            def attr_hook(node, it_):
                try:
                    v = it_.ev(node.value)
                except fdx.Unsupported:
                    return NotImplemented
                if isinstance(v, (Phase, Bare)) and hasattr(v, node.attr):
                    return getattr(v, node.attr)
                return NotImplemented
            it = fdx.NumInterp(env, call_hook=call_hook, attr_hook=attr_hook)
            it.builtins.update({'complex': complex})
            try:
                got = it.call(fn)
            except (fdx.Unsupported, fdx.Raised) as ex:
                raise AnalysisError(f'cannot interpret _extract_phase: {ex}')
            want_phase = np.exp(1j * np.pi * shift * e)
            trivial = bool(np.isclose(want_phase, 1))
            bad = None
            if not isinstance(got, list) or not got or got[0][0] != 'bare' or got[0][1] != e:
                bad = f'returns {got}: the first operation is not the bare gate with the same exponent'
            elif trivial and len(got) != 1:
                bad = f'adds {got[1:]} although the phase is 1'
            elif not trivial and (len(got) != 2 or got[1][0] != 'phase' or not np.isclose(got[1][1], want_phase)):
                bad = f'returns {got[1:] or "no phase operation"}: the global phase exp(i pi {shift} * {e}) = {want_phase:.4g} is lost or wrong'
            k += 1
            ctx.ob(rid, f'cirq.ops.common_gates._extract_phase:shift={shift:.4g}:exponent={e:g}', bad is None, bad or '', m.rel, fn.lineno)


# ---------------------------------------------------------------------------------------------------------------------
# C04.l  numpy ufuncs hand back a *scalar* for a 0-d array.  The state of a program on no qubits (and the zero-qubit factor of a
# split state that carries the global phase) is such a 0-d array, and the apply protocols check that the tensors of derived
# argument objects are views of the caller's tensors.
UFUNC_NAMES = {'conjugate', 'conj', 'negative', 'abs', 'absolute', 'real', 'imag', 'sqrt', 'exp', 'square', 'positive'}


def tensor_arguments_stay_arrays_rule(ctx, rid='C04.l'):
    repo = ctx.repo
    ctx.rule(rid, 'tensor arguments stay arrays: a value handed to Apply*Args as target_tensor / available_buffer / out_buffer / auxiliary_buffer* is never the bare result of a numpy ufunc '
             'call (np.conjugate(x), np.abs(x), ...) - for the 0-d tensor of a zero-qubit state a ufunc returns a scalar, not an array, and the protocol refuses it (the default '
             'DensityMatrixSimulator could not run a circuit containing a global phase operation); np.asarray(...) or out= keeps the array', floor=2, style='EFF')
    n = 0
    for mod, ci, fn in repo.all_functions():
        if mod.rel.endswith('_test.py') or '/testing/' in mod.rel or not mod.rel.startswith('cirq-core/cirq/'):
            continue
        for c in ast.walk(fn):
            if not (isinstance(c, ast.Call) and call_name(c).split('.')[-1] in ('ApplyUnitaryArgs', 'ApplyChannelArgs', 'ApplyMixtureArgs')):
                continue
            for k in c.keywords:
                if k.arg not in ('target_tensor', 'available_buffer', 'out_buffer', 'auxiliary_buffer0', 'auxiliary_buffer1'):
                    continue
                v = k.value
                if not isinstance(v, ast.Call):
                    continue
                n += 1
                f = v.func
                bare = isinstance(f, ast.Attribute) and isinstance(f.value, ast.Name) and f.value.id in ('np', 'numpy') and f.attr in UFUNC_NAMES \
                    and not any(kk.arg == 'out' for kk in v.keywords)
                ctx.ob(rid, f'{mod.name}.{(ci.name + ".") if ci else ""}{fn.name}:{k.arg}', not bare, '' if not bare else
                       f'`{k.arg}={ast.unparse(v)}`: for a 0-d tensor np.{f.attr} returns a numpy scalar, which is not a view of anything', mod.rel, v.lineno)
    if n == 0:
        raise AnalysisError(f'{rid}: no computed tensor argument found')
