"""Rules about the simulators shared by C01, C02 and C09."""
from __future__ import annotations

import ast
import itertools

import numpy as np

from ..core import AnalysisError, call_name, dotted, func_params, func_param_defaults, is_self_attr, kwarg
from ..flow import dominating_atoms, block_of, enclosing_loops
from .. import fdx
from .. import fields as F

MUT_METH = {'append', 'add', 'update', 'pop', 'clear', 'extend', 'insert', 'remove', 'setdefault', 'fill', 'sort', '__setitem__'}
COPIERS = {'copy', 'deepcopy', 'list', 'dict', 'set', 'tuple', 'array', 'asarray_copy', 'frozenset'}

STATE_CLASSES = [
    'cirq.sim.state_vector_simulation_state._BufferedStateVector',
    'cirq.sim.density_matrix_simulation_state._BufferedDensityMatrix',
    'cirq.sim.clifford.stabilizer_state_ch_form.StabilizerStateChForm',
    'cirq.qis.clifford_tableau.CliffordTableau',
    'cirq.value.classical_data.ClassicalDataDictionaryStore',
    'cirq.sim.simulation_state.SimulationState',
    'cirq.sim.simulation_product_state.SimulationProductState',
    'cirq.sim.classical_simulator.ClassicalBasisState',
]


def mutated_fields(repo, ci):
    """Fields of self that some method mutates in place (item store, augmented op, mutating method, out=)."""
    out = {}
    whole_aug = set()
    for c in repo.mro(ci):
        for mn, fn in c.methods.items():
            if mn in ('__init__', 'copy', '__copy__', '__deepcopy__'):
                continue
            # names that may denote self or a shallow copy of self (which shares every field object with self):
            #   args = self if inplace else copy.copy(self)
            selfish = {'self'}
            for _ in range(2):
                for a in ast.walk(fn):
                    if isinstance(a, ast.Assign) and len(a.targets) == 1 and isinstance(a.targets[0], ast.Name):
                        vals = [a.value.body, a.value.orelse] if isinstance(a.value, ast.IfExp) else [a.value]
                        for v in vals:
                            if (isinstance(v, ast.Name) and v.id in selfish) or (
                                    isinstance(v, ast.Call) and dotted(v.func) in ('copy.copy',) and v.args and isinstance(v.args[0], ast.Name) and v.args[0].id in selfish):
                                selfish.add(a.targets[0].id)

            def is_self_attr(node, _s=selfish):   # noqa: F811 - shadows the module-level helper for this method only
                return isinstance(node, ast.Attribute) and isinstance(node.value, ast.Name) and node.value.id in _s
            for n in ast.walk(fn):
                f = None
                if isinstance(n, ast.Subscript) and isinstance(n.ctx, (ast.Store, ast.Del)):
                    b = n.value
                    while isinstance(b, ast.Subscript):
                        b = b.value
                    if is_self_attr(b):
                        f = b.attr
                elif isinstance(n, ast.AugAssign):
                    b = n.target
                    sub = isinstance(b, ast.Subscript)
                    while isinstance(b, ast.Subscript):
                        b = b.value
                    if is_self_attr(b):
                        if sub:
                            f = b.attr
                        else:
                            whole_aug.add(b.attr)   # `self.f op= x` is in place only for array-like fields
                elif isinstance(n, ast.Call) and isinstance(n.func, ast.Attribute) and n.func.attr in MUT_METH and is_self_attr(n.func.value):
                    f = n.func.value.attr
                elif isinstance(n, ast.Call):
                    o = kwarg(n, 'out')
                    if o is not None and is_self_attr(o):
                        f = o.attr
                if f:
                    out.setdefault(F.norm_field(repo, ci, f), f'{c.name}.{mn}')
    # whole-attribute augmented assignment counts only for fields that are array-like (indexed or used as out= somewhere)
    arrayish = set(out)
    for c in repo.mro(ci):
        for fn in c.methods.values():
            for n in ast.walk(fn):
                if isinstance(n, ast.Subscript) and is_self_attr(n.value):
                    arrayish.add(F.norm_field(repo, ci, n.value.attr))
    for f in whole_aug:
        nf = F.norm_field(repo, ci, f)
        if nf in arrayish:
            out.setdefault(nf, f'{ci.name} (augmented assignment)')
    return out


def _is_copied(expr, field_names, deep_param='deep_copy_buffers'):
    """Does `expr` duplicate self.<field> rather than alias it?  Returns (ok, shares_under_param)."""
    if isinstance(expr, ast.IfExp):
        a = _is_copied(expr.body, field_names)
        b = _is_copied(expr.orelse, field_names)
        if deep_param in ast.unparse(expr.test):
            # sharing under deep_copy_buffers=False is a licence for scratch buffers only: a field that carries state must be duplicated on both arms
            scratch = all('buffer' in f.lower() for f in field_names) if field_names else False
            return ((a[0] or b[0]) if scratch else (a[0] and b[0])), True
        return (a[0] and b[0]), False
    if is_self_attr(expr) and expr.attr in field_names:
        return False, False
    if isinstance(expr, (ast.ListComp, ast.DictComp, ast.SetComp, ast.GeneratorExp)):
        elt = expr.elt if not isinstance(expr, ast.DictComp) else expr.value
        return _is_copied(elt, set())[0] and (isinstance(elt, ast.Call) and call_name(elt) in COPIERS or not any(isinstance(x, ast.Name) for x in [elt])), False
    if isinstance(expr, ast.Call):
        nm = call_name(expr)
        if nm in COPIERS:
            return True, False
        # constructor / helper wrapping: look inside the arguments
        inner = [_is_copied(a, field_names) for a in list(expr.args) + [k.value for k in expr.keywords]]
        if inner:
            return all(i[0] for i in inner), any(i[1] for i in inner)
        return True, False
    # anything that mentions the bare field
    for n in ast.walk(expr):
        if is_self_attr(n) and n.attr in field_names:
            par_ok = False
            return par_ok, False
    return True, False


def copy_isolation_rule(ctx, rid, floor=8):
    repo = ctx.repo
    ctx.rule(rid, 'copy isolation: in copy(), every field that some method of the class mutates in place is bound to a duplicate '
             '(.copy()/deepcopy/list/dict/...), never to the bare self.<field>; buffers may be shared only under deep_copy_buffers=False', floor=floor, style='COH')
    for cq in STATE_CLASSES:
        ci = repo.cls(cq)
        r = repo.find_method(ci, 'copy')
        if r is None:
            raise AnalysisError(f'{cq}.copy vanished')
        fn = r[1]
        mut = mutated_fields(repo, ci)
        # names by which a field may be referred to (property or backing field)
        alias = {}
        for f in mut:
            alias[f] = {f, f.lstrip('_')}
        assigns = {}   # field -> value expr
        for n in ast.walk(fn):
            if isinstance(n, ast.Assign):
                for t in n.targets:
                    if isinstance(t, ast.Attribute) and isinstance(t.value, ast.Name) and t.value.id != 'self':
                        assigns[F.norm_field(repo, ci, t.attr)] = n.value
            if isinstance(n, ast.Call) and isinstance(n.func, (ast.Name, ast.Attribute)) and (dotted(n.func) or '').split('.')[-1] in (ci.name, 'cls'):
                from .. import coh
                info = coh.init_info(repo, ci)
                if info and info[1] is not None:
                    p2f = F.init_param_to_field(repo, ci)
                    pos = [a.arg for a in info[1].args.posonlyargs + info[1].args.args[1:]]
                    bound, _ = coh.bind_call(n, pos)
                    for p, v in bound.items():
                        for f in p2f.get(p, ()):
                            assigns.setdefault(f, v)
        generic = any(isinstance(c, ast.Call) and dotted(c.func) in ('copy.copy',) for c in ast.walk(fn))
        for f, where in sorted(mut.items()):
            key = f'{cq}.copy:{f}'
            v = assigns.get(f)
            if v is None:
                if generic:
                    ctx.ob(rid, key, False, f'copy() makes a shallow copy.copy(self) and never rebinds `{f}`, which {where} mutates in place: '
                           'the copy and the original share it', ci.mod.rel, fn.lineno)
                else:
                    ctx.ob(rid, key, True, 'not carried by copy() (fresh object)', ci.mod.rel, fn.lineno)
                continue
            ok, shared = _is_copied(v, alias[f])
            ctx.ob(rid, key, ok, '' if ok else f'copy() binds `{f}` to `{ast.unparse(v)[:60]}` without duplicating it, but {where} mutates it in place: '
                   'acting on the copy changes the original (every later repetition starts from a corrupted state)', ci.mod.rel, v.lineno)


def sample_pure_rule(ctx, rid, floor=7):
    repo = ctx.repo
    ctx.rule(rid, 'sampling is pure: sample() of every state class stores nothing on self, performs no in-place operation on a self field, '
             'passes no self field as out=, and calls measure()/collapsing routines only on copies', floor=floor, style='EFF')
    targets = list(STATE_CLASSES) + ['cirq.qis.quantum_state_representation.QuantumStateRepresentation']
    for cq in targets:
        ci = repo.classes.get(cq)
        if ci is None:
            raise AnalysisError(f'{cq} vanished')
        fn = ci.methods.get('sample')
        if fn is None:
            continue
        bad = None
        w = F.self_writes(fn)
        if w:
            bad = f'stores into self.{sorted(w)}'
        for n in ast.walk(fn):
            if isinstance(n, ast.AugAssign):
                b = n.target
                while isinstance(b, ast.Subscript):
                    b = b.value
                if is_self_attr(b):
                    bad = bad or f'in-place update of self.{b.attr}'
            if isinstance(n, ast.Subscript) and isinstance(n.ctx, ast.Store):
                b = n.value
                while isinstance(b, ast.Subscript):
                    b = b.value
                if is_self_attr(b):
                    bad = bad or f'item store into self.{b.attr}'
            if isinstance(n, ast.Call):
                o = kwarg(n, 'out')
                if o is not None and any(is_self_attr(x) for x in ast.walk(o)):
                    bad = bad or f'passes self state as out= to {call_name(n)}'
                if isinstance(n.func, ast.Attribute) and n.func.attr in ('measure', '_measure', 'apply_unitary', 'apply_channel', 'apply_mixture') and \
                        (is_self_attr(n.func.value) or (isinstance(n.func.value, ast.Name) and n.func.value.id == 'self')):
                    bad = bad or f'calls the collapsing routine {n.func.attr} on self'
                if isinstance(n.func, ast.Attribute) and n.func.attr in ('measure', '_measure') and isinstance(n.func.value, ast.Name) and n.func.value.id != 'self':
                    # local must be a copy
                    local = n.func.value.id
                    defs = [a.value for a in ast.walk(fn) if isinstance(a, ast.Assign) and any(isinstance(t, ast.Name) and t.id == local for t in a.targets)]
                    if not defs or not all(isinstance(d, ast.Call) and call_name(d) in ('copy', 'deepcopy') for d in defs):
                        bad = bad or f'measures `{local}`, which is not a copy'
        ctx.ob(rid, f'{cq}.sample', bad is None, '' if bad is None else f'sample() {bad}: sampling changes the state it samples', ci.mod.rel, fn.lineno)
    # module-level sampling helpers
    for modrel, fname in (('cirq-core/cirq/sim/state_vector.py', 'sample_state_vector'), ('cirq-core/cirq/sim/density_matrix_utils.py', 'sample_density_matrix')):
        m = repo.module(modrel)
        fn = m.defs.get(fname)
        if not isinstance(fn, ast.FunctionDef):
            raise AnalysisError(f'{fname} vanished')
        p0 = fn.args.args[0].arg
        bad = None
        for n in ast.walk(fn):
            if isinstance(n, ast.Subscript) and isinstance(n.ctx, ast.Store) and isinstance(n.value, ast.Name) and n.value.id == p0:
                bad = f'writes into its input `{p0}`'
            if isinstance(n, ast.AugAssign) and isinstance(n.target, ast.Name) and n.target.id == p0:
                bad = f'updates its input `{p0}` in place'
            if isinstance(n, ast.Call):
                o = kwarg(n, 'out')
                if isinstance(o, ast.Name) and o.id == p0:
                    bad = f'passes its input `{p0}` as out='
        ctx.ob(rid, f'{m.name}.{fname}', bad is None, '' if bad is None else f'{fname} {bad}', m.rel, fn.lineno)


def replay_isolation_rule(ctx, rid):
    repo = ctx.repo
    ctx.rule(rid, 'replay isolation: inside the loop over repetitions / sweep points, the simulation state defined before the loop is handed to '
             'the iterator as a copy (the bare state only under a last-iteration test); the sample-many fast path is taken only when every '
             'operation of the suffix is a MeasurementGate', floor=3, style='EFF')
    sb = repo.cls('cirq.sim.simulator_base.SimulatorBase')
    run = repo.method(sb.qual, '_run')
    parents = sb.mod.parents()
    from ..flow import is_all_but_last_test, loop_index_and_bound
    calls = [c for c in ast.walk(run) if isinstance(c, ast.Call) and call_name(c) == '_core_iterator']
    rep_params = {p for p in func_params(run) if 'repetition' in p}
    in_loop = []
    for c in calls:
        for l in enclosing_loops(parents, c, run):
            ib = loop_index_and_bound(l) if isinstance(l, ast.For) else None
            if ib is not None and {n.id for n in ast.walk(ib[1]) if isinstance(n, ast.Name)} & rep_params:
                in_loop.append((c, l))
    if not in_loop:
        raise AnalysisError('_run: per-repetition _core_iterator call vanished')
    for c, l in in_loop:
        v = kwarg(c, 'sim_state')
        if isinstance(v, ast.Name):
            # a named local defined once inside the loop stands for the expression it was given
            defs_ = [a.value for a in ast.walk(l) if isinstance(a, ast.Assign) and len(a.targets) == 1 and isinstance(a.targets[0], ast.Name) and a.targets[0].id == v.id]
            if len(defs_) == 1:
                v = defs_[0]
        ok = False
        msg = 'sim_state argument missing'
        if v is not None:
            if isinstance(v, ast.Call) and call_name(v) == 'copy':
                ok = True
            elif isinstance(v, ast.IfExp):
                cp = isinstance(v.body, ast.Call) and call_name(v.body) == 'copy'
                last = is_all_but_last_test(v.test, l)
                ok = cp and last and isinstance(v.orelse, ast.Name)
                msg = '' if ok else f'`{ast.unparse(v)[:70]}` does not copy the state for every repetition but the last'
            else:
                msg = f'every repetition acts on the same state object `{ast.unparse(v)[:40]}`'
        ctx.ob(rid, f'{sb.qual}._run:per-repetition-copy', ok, '' if ok else msg + ': repetition k starts from the collapsed state of repetition k-1', sb.mod.rel, c.lineno)
    fast = [c for c in ast.walk(run) if isinstance(c, ast.Call) and call_name(c) == 'sample_measurement_ops']
    if not fast:
        raise AnalysisError('_run: sample_measurement_ops fast path vanished')
    # guard: all(isinstance(<op>.gate, MeasurementGate) for <op> in <the operations of the suffix>)
    ok = False
    for a, pol in dominating_atoms(parents, fast[0], run):
        if pol and isinstance(a, ast.Call) and call_name(a) == 'all' and a.args and isinstance(a.args[0], (ast.GeneratorExp, ast.ListComp)):
            g = a.args[0]
            e = g.elt
            if isinstance(e, ast.Call) and call_name(e) == 'isinstance' and len(e.args) == 2 and 'MeasurementGate' in ast.unparse(e.args[1]) and not g.generators[0].ifs:
                ok = True
    ctx.ob(rid, f'{sb.qual}._run:fast-path-guard', ok, '' if ok else 'the one-simulation/many-samples path is not restricted to suffixes made only of measurement gates', sb.mod.rel, fast[0].lineno)
    # sweep: the state handed in is copied for every point but the last
    sis = repo.cls('cirq.sim.simulator.SimulatesIntermediateState')
    ssi = repo.method(sis.qual, 'simulate_sweep_iter')
    ok = False
    state_params = {p for p in func_params(ssi) if 'state' in p}
    for n in ast.walk(ssi):
        if isinstance(n, ast.IfExp) and isinstance(n.body, ast.Call) and call_name(n.body) == 'copy' and isinstance(n.body.func, ast.Attribute) \
                and isinstance(n.body.func.value, ast.Name) and n.body.func.value.id in state_params:
            loops = [l for l in enclosing_loops(sis.mod.parents(), n, ssi) if isinstance(l, ast.For)]
            ok = any(is_all_but_last_test(n.test, l) for l in loops) and isinstance(n.orelse, ast.Name) and n.orelse.id == n.body.func.value.id
    ctx.ob(rid, f'{sis.qual}.simulate_sweep_iter:per-point-copy', ok, '' if ok else 'sweep points share one simulation state (it is not copied for every point but the last)', sis.mod.rel, ssi.lineno)


def measure_chain_rule(ctx, rid):
    repo = ctx.repo
    ctx.rule(rid, 'recorded value: SimulationState.measure records, under the given key, the measured bits after the confusion map and the invert '
             'mask; MeasurementGate._act_on_ hands over its key, full invert mask and confusion map', floor=5, style='TNT')
    ss = repo.cls('cirq.sim.simulation_state.SimulationState')
    fn = repo.method(ss.qual, 'measure')
    # def-use chain:  bits <- _perform_measurement ; confused <- f(bits, confusion_map) ; corrected <- f(confused, invert_mask) ; record(key, corrected)
    from ..flow import name_deps
    dep = name_deps(fn, {a.arg: {a.arg} for a in fn.args.args},
                    source_of=lambda x: {'<measured>'} if isinstance(x, ast.Call) and call_name(x) == '_perform_measurement' else None)
    rec = [c for c in ast.walk(fn) if isinstance(c, ast.Call) and call_name(c) == 'record_measurement']
    if not rec:
        raise AnalysisError('SimulationState.measure: record_measurement call vanished')
    def deps_of(e):
        out = set()
        for x in ast.walk(e):
            if isinstance(x, ast.Name) and x.id in dep:
                out |= dep[x.id]
            if isinstance(x, ast.Call) and call_name(x) == '_perform_measurement':
                out.add('<measured>')
        return out
    vdep = deps_of(rec[0].args[1]) if len(rec[0].args) > 1 else set()
    kdep = deps_of(rec[0].args[0]) if rec[0].args else set()
    for need, what in (('<measured>', 'the measured bits'), ('confusion_map', 'the confusion map'), ('invert_mask', 'the invert mask')):
        ok = need in vdep
        ctx.ob(rid, f'{ss.qual}.measure:recorded-value:{need}', ok, '' if ok else f'the recorded digits do not depend on {what}', ss.mod.rel, rec[0].lineno)
    ok = 'key' in kdep
    ctx.ob(rid, f'{ss.qual}.measure:recorded-key', ok, '' if ok else 'the record is not stored under the given key', ss.mod.rel, rec[0].lineno)
    mg = repo.cls('cirq.ops.measurement_gate.MeasurementGate')
    ao = repo.method(mg.qual, '_act_on_')
    mc = [c for c in ast.walk(ao) if isinstance(c, ast.Call) and call_name(c) == 'measure']
    if not mc:
        raise AnalysisError('MeasurementGate._act_on_: measure call vanished')
    src = [ast.unparse(a) for a in mc[0].args]
    ok = len(src) >= 4 and src[0] == 'qubits' and 'key' in src[1] and 'invert_mask' in src[2] and 'confusion_map' in src[3]
    ctx.ob(rid, f'{mg.qual}._act_on_:passes-key-mask-confusion', ok, '' if ok else f'measure(...) is called with {src}', mg.mod.rel, mc[0].lineno)
    cc = repo.cls('cirq.ops.classically_controlled_operation.ClassicallyControlledOperation')
    ca = repo.method(cc.qual, '_act_on_')
    rd = F.self_reads(repo, cc, ca, depth=1)
    ok = '_conditions' in rd and '_sub_operation' in rd and 'all(' in ast.unparse(ca)
    ctx.ob(rid, f'{cc.qual}._act_on_:all-conditions', ok, '' if ok else 'the sub-operation is not guarded by every classical condition', cc.mod.rel, ca.lineno)


def product_sample_order_rule(ctx, rid):
    """FDX: SimulationProductState.sample returns column j = sample of qubits[j] for every grouping/order of 3 qubits."""
    repo = ctx.repo
    ctx.rule(rid, 'sample column order (finite-domain extraction): for every assignment of three qubits to sub-states and every requested order, '
             'column j of SimulationProductState.sample is the sample of qubits[j]', floor=1, style='FDX')
    ps = repo.cls('cirq.sim.simulation_product_state.SimulationProductState')
    fn = repo.method(ps.qual, 'sample')
    labels = ['a', 'b', 'c']
    groupings = [[['a'], ['b'], ['c']], [['c'], ['a'], ['b']], [['a', 'c'], ['b']], [['b'], ['c', 'a']], [['a', 'b', 'c']], [['b', 'a'], ['c']]]
    bad = None
    n = 0
    for groups in groupings:
        states = []
        for g in groups:
            st = {'qubits': list(g)}
            st['sample'] = (lambda qs, reps, seed, g=g: np.array([[ord(q) for q in qs]]))
            states.append(st)
        sim_states = {}
        for st in states:
            for q in st['qubits']:
                sim_states[q] = st

        class _States(dict):
            __hash__ = None
        # dict.fromkeys needs hashable states: wrap by identity
        order_states = states

        for perm in itertools.permutations(labels):
            for sub in (perm, perm[:2]):
                def call_hook(call, it):
                    s = ast.unparse(call.func)
                    if s == 'dict.fromkeys':
                        return order_states
                    if s == 'np.column_stack':
                        return np.column_stack(it.ev(call.args[0]))
                    if s.split('.')[-1] == 'parse_random_state':
                        return it.ev(call.args[0])  # the generator is opaque to the column-order question
                    return NotImplemented
                it = fdx.NumInterp({'self': {'sim_states': sim_states}, 'qubits': list(sub), 'repetitions': 1, 'seed': None}, call_hook=call_hook)
                it.builtins.update({'set': set, 'any': any, 'dict': dict})
                try:
                    res = it.call(fn)
                except (fdx.Unsupported, fdx.Raised) as ex:
                    raise AnalysisError(f'cannot interpret SimulationProductState.sample: {ex}')
                n += 1
                got = [chr(int(x)) for x in np.array(res)[0]]
                if got != list(sub):
                    bad = bad or f'sub-states {groups}, requested order {list(sub)}: returned columns are the samples of {got}'
    ctx.ob(rid, f'{ps.qual}.sample:column-order', bad is None, bad or '', ps.mod.rel, fn.lineno)
    ctx.notes.append(f'{rid}: {n} grouping/order cases interpreted')


def buffer_commit_rule(ctx, rid, classes):
    repo = ctx.repo
    ctx.rule(rid, 'buffer commit: every method that writes the scratch buffer (out=self._buffer / in-place) ends by swapping it in '
             '(_swap_target_tensor_for); the tensor returned by apply_unitary is what gets committed; the swap exchanges buffer and state '
             'before rebinding; create() copies an input array it would otherwise alias', floor=6, style='MPT')
    for cq in classes:
        ci = repo.cls(cq)
        skip = ('__init__', 'copy', 'create', '_swap_target_tensor_for', 'kron', 'factor', 'reindex')

        def direct_writes(fn, helpers):
            writes = []
            for n in ast.walk(fn):
                if isinstance(n, ast.Call):
                    o = kwarg(n, 'out')
                    if o is not None and is_self_attr(o) and 'buffer' in o.attr:
                        writes.append(n)
                    if isinstance(n.func, ast.Attribute) and isinstance(n.func.value, ast.Name) and n.func.value.id == 'self' and n.func.attr in helpers:
                        writes.append(n)
                if isinstance(n, ast.AugAssign) and is_self_attr(n.target) and 'buffer' in n.target.attr:
                    writes.append(n)
            return writes

        def swaps_of(fn):
            return [c for c in ast.walk(fn) if isinstance(c, ast.Call) and call_name(c) == '_swap_target_tensor_for']
        # a private method that fills the buffer and leaves the commit to its callers is a *writer helper*: a call of it counts as a write in the caller
        helpers = set()
        for _ in range(3):
            for mn, fn in ci.methods.items():
                if mn in skip or mn in helpers or not (mn.startswith('_') and not mn.startswith('__')):
                    continue
                if direct_writes(fn, helpers) and not swaps_of(fn) and any(
                        isinstance(c, ast.Call) and isinstance(c.func, ast.Attribute) and c.func.attr == mn and isinstance(c.func.value, ast.Name) and c.func.value.id == 'self'
                        for f2 in ci.methods.values() if f2 is not fn for c in ast.walk(f2)):
                    helpers.add(mn)
        for mn, fn in sorted(ci.methods.items()):
            if mn in skip or mn in helpers:
                continue
            writes = direct_writes(fn, helpers)
            if not writes:
                continue
            swaps = swaps_of(fn)
            last_write = max(w.lineno for w in writes)
            ok = bool(swaps) and max(s.lineno for s in swaps) > last_write
            ctx.ob(rid, f'{cq}.{mn}:commit-after-write', ok, '' if ok else f'{mn} computes into the scratch buffer but never commits it as the new state', ci.mod.rel, fn.lineno)
        au = ci.methods.get('apply_unitary')
        if au is not None:
            asg = [n for n in ast.walk(au) if isinstance(n, ast.Assign) and isinstance(n.value, ast.Call) and call_name(n.value) == 'apply_unitary']
            sw = [c for c in ast.walk(au) if isinstance(c, ast.Call) and call_name(c) == '_swap_target_tensor_for']
            ok = bool(asg) and bool(sw) and ast.unparse(sw[0].args[0]) == ast.unparse(asg[0].targets[0])
            ctx.ob(rid, f'{cq}.apply_unitary:commits-result', ok, '' if ok else 'the tensor returned by protocols.apply_unitary is not the one committed', ci.mod.rel, au.lineno)
            ok = any(isinstance(n, ast.If) and 'NotImplemented' in ast.unparse(n.test) and any(isinstance(s, ast.Return) and ast.unparse(s.value) == 'False' for s in n.body) for n in ast.walk(au))
            ctx.ob(rid, f'{cq}.apply_unitary:refusal-reported', ok, '' if ok else 'a refused kernel is not reported as failure', ci.mod.rel, au.lineno)
        sw = ci.methods.get('_swap_target_tensor_for')
        if sw is None:
            # density matrix: the exchange is inlined in apply_channel
            dc = ci.methods.get('apply_channel')
            if dc is None:
                raise AnalysisError(f'{cq}: neither _swap_target_tensor_for nor apply_channel')
            res = [n for n in ast.walk(dc) if isinstance(n, ast.Assign) and isinstance(n.value, ast.Call) and call_name(n.value) == 'apply_channel']
            commit = [n for n in ast.walk(dc) if isinstance(n, ast.Assign) and is_self_attr(n.targets[0]) and 'buffer' not in n.targets[0].attr
                      and not isinstance(n.targets[0], ast.Subscript)]
            exch = [n for n in ast.walk(dc) if isinstance(n, ast.Assign) and isinstance(n.targets[0], ast.Subscript) and is_self_attr(n.targets[0].value)
                    and 'buffer' in n.targets[0].value.attr and is_self_attr(n.value)]
            ok = bool(res) and bool(commit) and bool(exch) and ast.unparse(commit[-1].value) == ast.unparse(res[0].targets[0]) and exch[0].lineno < commit[-1].lineno \
                and ast.unparse(exch[0].value) == ast.unparse(commit[-1].targets[0])
            ctx.ob(rid, f'{cq}.apply_channel:exchange-then-commit', ok, '' if ok else 'the channel result is not committed as the new density matrix after handing the old one back as scratch space', ci.mod.rel, dc.lineno)
            ok = any(isinstance(n, ast.If) and 'is None' in ast.unparse(n.test) and any(isinstance(s_, ast.Return) and ast.unparse(s_.value) == 'False' for s_ in n.body) for n in ast.walk(dc))
            ctx.ob(rid, f'{cq}.apply_channel:refusal-reported', ok, '' if ok else 'a refused channel is not reported as failure', ci.mod.rel, dc.lineno)
            cr = ci.methods.get('create')
            if cr is not None:
                ok = any(isinstance(n, ast.If) and 'may_share_memory' in ast.unparse(n.test) and '.copy()' in ' '.join(ast.unparse(s_) for s_ in n.body) for n in ast.walk(cr))
                ctx.ob(rid, f'{cq}.create:copies-aliased-input', ok, '' if ok else "create() can adopt the caller's array as the simulator state: simulating overwrites the caller's initial_state", ci.mod.rel, cr.lineno)
            continue
        ifs = [n for n in sw.body if isinstance(n, ast.If)]
        final = [n for n in sw.body if isinstance(n, ast.Assign)]
        ok = bool(ifs) and bool(final) and 'is self._buffer' in ast.unparse(ifs[0].test) and ifs[0].lineno < final[-1].lineno and \
            any(isinstance(s, ast.Assign) and is_self_attr(s.targets[0]) and 'buffer' in s.targets[0].attr and is_self_attr(s.value) and 'buffer' not in s.value.attr for s in ifs[0].body)
        ctx.ob(rid, f'{cq}._swap_target_tensor_for:exchange-first', ok, '' if ok else 'the old state is not kept as the new scratch buffer before the state is rebound: state and buffer end up the same array',
               ci.mod.rel, sw.lineno)
        cr = ci.methods.get('create')
        if cr is not None:
            src = ast.unparse(cr)
            ok = 'may_share_memory' in src and any(isinstance(n, ast.If) and 'may_share_memory' in ast.unparse(n.test) and '.copy()' in ' '.join(ast.unparse(s) for s in n.body) for n in ast.walk(cr))
            ctx.ob(rid, f'{cq}.create:copies-aliased-input', ok, '' if ok else 'create() can adopt the caller\'s array as the simulator state: simulating overwrites the caller\'s initial_state', ci.mod.rel, cr.lineno)


def noise_hook_rule(ctx, rid):
    repo = ctx.repo
    ctx.rule(rid, 'one noise hook, whole system: Circuit.with_noise and SimulatorBase._core_iterator obtain the noisy moments from noisy_moments(<circuit>, sorted(<circuit>.all_qubits())) '
             '(the iterator through a parameter with that default); every iteration over a *part* of a split program passes the qubits of the whole program as noise_qubits, or follows a guard '
             'that abandons the split unless both parts touch every qubit of the program', floor=6, style='COH')
    sites = [('cirq.circuits.circuit.Circuit', 'with_noise'), ('cirq.sim.simulator_base.SimulatorBase', '_core_iterator')]
    for cq, mn in sites:
        ci = repo.cls(cq)
        fn = repo.method(cq, mn)
        calls = [c for c in ast.walk(fn) if isinstance(c, ast.Call) and call_name(c) == 'noisy_moments']
        if not calls:
            raise AnalysisError(f'{cq}.{mn}: noisy_moments call vanished')
        c = calls[0]
        circ = ast.unparse(c.args[0]) if c.args else ''
        q = c.args[1] if len(c.args) > 1 else None
        qsrc = ast.unparse(q) if q is not None else ''
        if isinstance(q, ast.Name):
            for n in ast.walk(fn):
                if isinstance(n, ast.Assign) and isinstance(n.targets[0], ast.Name) and n.targets[0].id == q.id:
                    qsrc = ast.unparse(n.value)
        flat = qsrc.replace(' ', '')
        ok = flat.startswith('sorted(') and f'{circ}.all_qubits()' in flat
        if not ok and isinstance(q, ast.Name) and q.id in [a.arg for a in fn.args.args + fn.args.kwonlyargs]:
            # a parameter: its None default must be filled with the circuit's own qubits
            fills = [n for n in ast.walk(fn) if isinstance(n, ast.Assign) and isinstance(n.targets[0], ast.Name) and n.targets[0].id == q.id]
            ok = any(ast.unparse(n.value).replace(' ', '') == f'sorted({circ}.all_qubits())' for n in fills)
            qsrc = f'parameter {q.id}'
        ctx.ob(rid, f'{cq}.{mn}:system-qubits', ok, '' if ok else f'noise is generated for system qubits `{qsrc}` instead of the sorted qubits of {circ}: '
               'simulating with a noise model differs from simulating circuit.with_noise(model)', ci.mod.rel, c.lineno)
    # parts of a split program: every _core_iterator call on a part tells the noise model the qubits of the whole program, or the split is abandoned when a part leaves qubits idle
    sb = repo.cls('cirq.sim.simulator_base.SimulatorBase')
    n_parts = 0
    for fn in sb.methods.values():
        splits = [s_ for s_ in ast.walk(fn) if isinstance(s_, ast.Assign) and isinstance(s_.targets[0], ast.Tuple)
                  and any(isinstance(c, ast.Call) and call_name(c) == 'split_into_matching_protocol_then_general' for c in ast.walk(s_.value))]
        if not splits:
            continue
        sp = splits[0]
        parts = [e.id for e in sp.targets[0].elts if isinstance(e, ast.Name)]
        whole = [c for c in ast.walk(sp.value) if isinstance(c, ast.Call) and call_name(c) == 'split_into_matching_protocol_then_general'][0].args[0]
        whole_src = ast.unparse(whole)
        # names holding the qubits of the whole program
        wq = {n.targets[0].id for n in ast.walk(fn) if isinstance(n, ast.Assign) and isinstance(n.targets[0], ast.Name) and f'{whole_src}.all_qubits()' in ast.unparse(n.value)}
        guard = None
        for i_ in ast.walk(fn):
            if isinstance(i_, ast.If) and all(f'{p}.all_qubits()' in ast.unparse(i_.test) for p in parts) and f'{whole_src}.all_qubits()' in ast.unparse(i_.test) \
                    and any(isinstance(b, ast.Assign) and isinstance(b.targets[0], ast.Tuple) and [ast.unparse(e) for e in b.targets[0].elts] == parts
                            and ast.unparse(b.value).replace(' ', '').strip('()').endswith(f',{whole_src}') for b in i_.body):
                guard = i_
        for c in ast.walk(fn):
            if not (isinstance(c, ast.Call) and call_name(c) == '_core_iterator'):
                continue
            carg = c.args[0] if c.args else next((k.value for k in c.keywords if k.arg == 'circuit'), None)
            if not (isinstance(carg, ast.Name) and carg.id in parts):
                continue
            n_parts += 1
            nq = next((k.value for k in c.keywords if k.arg == 'noise_qubits'), None)
            if nq is None:
                # **kw where kw = {} if self.noise is NO_NOISE else {'noise_qubits': <whole>}: without a noise model the hook adds nothing, so the argument is moot on that arm
                for k in c.keywords:
                    if k.arg is None and isinstance(k.value, ast.Name):
                        for a_ in ast.walk(fn):
                            tgt_ = a_.targets[0] if isinstance(a_, ast.Assign) else (a_.target if isinstance(a_, ast.AnnAssign) else None)
                            val_ = getattr(a_, 'value', None)
                            if isinstance(tgt_, ast.Name) and tgt_.id == k.value.id and val_ is not None:
                                arms = [(val_, None)]
                                if isinstance(val_, ast.IfExp):
                                    arms = [(val_.body, (val_.test, True)), (val_.orelse, (val_.test, False))]
                                good = True
                                found = None
                                for d_, cond in arms:
                                    if not isinstance(d_, ast.Dict):
                                        good = False
                                        break
                                    keys_ = {kk.value: vv for kk, vv in zip(d_.keys, d_.values) if isinstance(kk, ast.Constant)}
                                    if 'noise_qubits' in keys_:
                                        found = keys_['noise_qubits']
                                    else:
                                        t_ = ast.unparse(cond[0]).replace(' ', '') if cond else ''
                                        no_noise = cond is not None and ((cond[1] and t_ in ('self.noiseisdevices.NO_NOISE', 'self.noiseisNO_NOISE', 'self._noiseisdevices.NO_NOISE'))
                                                                         or (not cond[1] and t_ in ('self.noiseisnotdevices.NO_NOISE', 'self.noiseisnotNO_NOISE')))
                                        if not no_noise:
                                            good = False
                                if good and found is not None:
                                    nq = found
            passes = nq is not None and (f'{whole_src}.all_qubits()' in ast.unparse(nq) or (isinstance(nq, ast.Name) and nq.id in wq))
            ok = passes or (guard is not None and guard.lineno < c.lineno)
            ctx.ob(rid, f'{sb.qual}.{fn.name}:_core_iterator({carg.id})', ok, '' if ok else
                   f'`{carg.id}` is a part of `{whole_src}`; the noise model is asked for its noise with only that part\'s qubits as the system, so qubits idle in `{carg.id}` get none: '
                   'Simulator(noise=m) differs from simulating circuit.with_noise(m)', sb.mod.rel, c.lineno)
    # the suffix of simulate_sweep_iter is handed to the parent class: covered by the guard alone
    for fn in sb.methods.values():
        if fn.name != 'simulate_sweep_iter':
            continue
        splits = [s_ for s_ in ast.walk(fn) if isinstance(s_, ast.Assign) and isinstance(s_.targets[0], ast.Tuple)
                  and any(isinstance(c, ast.Call) and call_name(c) == 'split_into_matching_protocol_then_general' for c in ast.walk(s_.value))]
        if not splits:
            continue
        parts = [e.id for e in splits[0].targets[0].elts if isinstance(e, ast.Name)]
        handed = [c for c in ast.walk(fn) if isinstance(c, ast.Call) and isinstance(c.func, ast.Attribute) and c.func.attr == 'simulate_sweep_iter'
                  and c.args and isinstance(c.args[0], ast.Name) and c.args[0].id in parts]
        for c in handed:
            n_parts += 1
            whole_src = ast.unparse([x for x in ast.walk(splits[0].value) if isinstance(x, ast.Call) and call_name(x) == 'split_into_matching_protocol_then_general'][0].args[0])
            g = [i_ for i_ in ast.walk(fn) if isinstance(i_, ast.If) and all(f'{p}.all_qubits()' in ast.unparse(i_.test) for p in parts) and f'{whole_src}.all_qubits()' in ast.unparse(i_.test)
                 and i_.lineno < c.lineno]
            ctx.ob(rid, f'{sb.qual}.simulate_sweep_iter:parent({c.args[0].id})', bool(g), '' if g else
                   f'the suffix `{c.args[0].id}` is simulated by the parent class, which can only give the noise model the suffix\'s own qubits; without a guard that abandons the split when a '
                   'part leaves qubits idle, those qubits get no noise', sb.mod.rel, c.lineno)
    if n_parts < 3:
        raise AnalysisError(f'{rid}: only {n_parts} part-circuit iterations found in SimulatorBase')


def own_callees(repo, ci, fn, depth=2):
    """Private methods of the same class (and module-level private functions) that `fn` calls, transitively up to `depth`."""
    out, seen, todo = [], {fn}, [(fn, 0)]
    while todo:
        f, d = todo.pop(0)
        if d >= depth:
            continue
        for c in ast.walk(f):
            if not isinstance(c, ast.Call):
                continue
            tgt = None
            if isinstance(c.func, ast.Attribute) and isinstance(c.func.value, ast.Name) and c.func.value.id in ('self', 'cls'):
                r = repo.find_method(ci, c.func.attr)
                tgt = r[1] if r else None
            elif isinstance(c.func, ast.Name) and isinstance(ci.mod.defs.get(c.func.id), ast.FunctionDef):
                tgt = ci.mod.defs[c.func.id]
            if tgt is not None and tgt not in seen:
                seen.add(tgt)
                out.append(tgt)
                todo.append((tgt, d + 1))
    return out


def confusion_before_inversion_rule(ctx, rid):
    """Both recording paths apply the confusion map to the raw outcome and the invert mask afterwards (the order MeasurementGate documents:
    'the invert_mask ... is applied after confusion')."""
    repo = ctx.repo
    from ..flow import name_deps, stmts_in_order
    ctx.rule(rid, 'order of read-out corrections: in SimulationState.measure (one simulation per repetition) and in StepResult.sample_measurement_ops (one simulation, many '
             'samples) the confusion map is applied before the invert mask; with an asymmetric confusion matrix the two orders give different distributions', floor=2, style='MPT')
    sites = [('cirq.sim.simulation_state.SimulationState', 'measure'), ('cirq.sim.simulator.StepResult', 'sample_measurement_ops')]
    for cq, mn in sites:
        ci = repo.cls(cq)
        fn0 = repo.method(cq, mn)
        # the steps may live in a private helper the method hands each operation to (an extracted loop body): look there too
        cands = [fn0] + own_callees(repo, ci, fn0)
        fn = next((f_ for f_ in cands if any(isinstance(x, ast.Call) and call_name(x) in ('_confuse_result', '_confuse_results') for x in ast.walk(f_))), fn0)
        # names holding the invert mask: the parameter, or locals bound from *.invert_mask / full_invert_mask()
        dep = name_deps(fn, {a.arg: {a.arg} for a in fn.args.args if 'invert' in a.arg},
                        source_of=lambda x: {'invert_mask'} if (isinstance(x, ast.Attribute) and 'invert_mask' in x.attr) or
                        (isinstance(x, ast.Call) and 'invert_mask' in call_name(x)) else None)

        def mask_derived(e):
            for x in ast.walk(e):
                if isinstance(x, ast.Name) and (dep.get(x.id) or 'invert' in x.id):
                    if any('invert' in l for l in dep.get(x.id, {x.id})):
                        return True
                if isinstance(x, ast.Attribute) and 'invert_mask' in x.attr:
                    return True
            return False
        order = stmts_in_order(fn)
        c_pos = i_pos = None
        for k, st in enumerate(order):
            if isinstance(st, (ast.For, ast.While, ast.If, ast.With, ast.Try, ast.FunctionDef)):
                heads = [st.test] if isinstance(st, (ast.If, ast.While)) else []
            else:
                heads = [st]
            for h in heads:
                for x in ast.walk(h):
                    if isinstance(x, ast.Call) and call_name(x) in ('_confuse_result', '_confuse_results') and c_pos is None:
                        c_pos = k
                    # the inversion handed to a helper: a call whose callee (module-level function or own method) XORs, given a mask-derived argument
                    if isinstance(x, ast.Call) and i_pos is None:
                        tgt = None
                        if isinstance(x.func, ast.Name):
                            tgt = ci.mod.defs.get(x.func.id)
                        elif isinstance(x.func, ast.Attribute) and isinstance(x.func.value, ast.Name) and x.func.value.id == 'self':
                            r_ = repo.find_method(ci, x.func.attr)
                            tgt = r_[1] if r_ else None
                        if isinstance(tgt, ast.FunctionDef) and any((isinstance(y, ast.AugAssign) and isinstance(y.op, ast.BitXor)) or (isinstance(y, ast.BinOp) and isinstance(y.op, ast.BitXor))
                                                                    for y in ast.walk(tgt)) \
                                and any(mask_derived(a_) for a_ in list(x.args) + [k_.value for k_ in x.keywords]):
                            i_pos = k
            # an inversion: a XOR (binary or augmented) that is controlled by / combined with a value derived from the invert mask
            if isinstance(st, ast.AugAssign) and isinstance(st.op, ast.BitXor):
                from ..flow import enclosing_tests
                tests = enclosing_tests(ci.mod.parents(), st, fn)
                if (mask_derived(st.value) or any(mask_derived(t[0] if isinstance(t, tuple) else t) for t in tests)) and i_pos is None:
                    i_pos = k
            elif not isinstance(st, (ast.For, ast.While, ast.If, ast.With, ast.Try, ast.FunctionDef)):
                for x in ast.walk(st):
                    if isinstance(x, ast.BinOp) and isinstance(x.op, ast.BitXor) and (mask_derived(x) or mask_derived(st)) and i_pos is None:
                        i_pos = k
        if c_pos is None or i_pos is None:
            raise AnalysisError(f'{cq}.{mn}: confusion step ({c_pos}) or inversion step ({i_pos}) not found')
        ok = c_pos < i_pos
        ctx.ob(rid, f'{cq}.{mn}:confusion-then-inversion', ok,
               '' if ok else f'{mn} flips the bits of the invert mask before it applies the confusion map; SimulationState.measure and the MeasurementGate documentation '
               'apply the confusion map to the raw outcome first: the terminal-measurement fast path and the per-repetition path disagree when both options are set',
               ci.mod.rel, order[min(c_pos, i_pos)].lineno)


def nested_copy_rule(ctx, rid):
    """copy() of the classical measurement store: containers whose *elements* are mutated in place need one more level of copying."""
    repo = ctx.repo
    ctx.rule(rid, 'nested copy isolation: a field whose elements are themselves mutated in place (self.f[k].append(...)) is duplicated element by element in copy() '
             '(a comprehension rebuilding every inner container, or deepcopy); a shallow self.f.copy() shares the inner lists between the copy and the original', floor=3, style='COH')
    ci = repo.cls('cirq.value.classical_data.ClassicalDataDictionaryStore')
    fn = ci.methods.get('copy')
    if fn is None:
        raise AnalysisError('ClassicalDataDictionaryStore.copy vanished')
    nested = {}
    for mn, m in ci.methods.items():
        if mn in ('__init__', 'copy'):
            continue
        for n in ast.walk(m):
            if isinstance(n, ast.Call) and isinstance(n.func, ast.Attribute) and n.func.attr in MUT_METH and isinstance(n.func.value, ast.Subscript) \
                    and is_self_attr(n.func.value.value):
                nested.setdefault(n.func.value.value.attr, f'{mn} ({ast.unparse(n)[:50]})')
            # local alias of an element: x = self.f[k] ... x.append(..)
        elem_alias = {}
        for n in ast.walk(m):
            if isinstance(n, ast.Assign) and isinstance(n.targets[0], ast.Name) and isinstance(n.value, ast.Subscript) and is_self_attr(n.value.value):
                elem_alias[n.targets[0].id] = n.value.value.attr
        for n in ast.walk(m):
            if isinstance(n, ast.Call) and isinstance(n.func, ast.Attribute) and n.func.attr in MUT_METH and isinstance(n.func.value, ast.Name) and n.func.value.id in elem_alias:
                nested.setdefault(elem_alias[n.func.value.id], f'{mn} ({ast.unparse(n)[:50]})')
    if not nested:
        raise AnalysisError('ClassicalDataDictionaryStore: no element-wise mutation found (record_measurement changed shape)')
    calls = [c for c in ast.walk(fn) if isinstance(c, ast.Call) and call_name(c) in (ci.name, 'cls', 'type')]
    if not calls:
        raise AnalysisError('ClassicalDataDictionaryStore.copy: constructor call vanished')
    kws = {k.arg: k.value for k in calls[0].keywords}
    for f, where in sorted(nested.items()):
        v = kws.get(f) or kws.get(f.lstrip('_'))
        ok = False
        if v is not None:
            if isinstance(v, ast.Call) and call_name(v) == 'deepcopy':
                ok = True
            if isinstance(v, ast.DictComp):
                e = v.value
                ok = (isinstance(e, ast.Call) and (call_name(e) in ('copy', 'list', 'tuple', 'deepcopy'))) or (isinstance(e, ast.Subscript) and isinstance(e.slice, ast.Slice)) \
                    or isinstance(e, (ast.ListComp, ast.List))
        ctx.ob(rid, f'{ci.qual}.copy:{f}', ok, '' if ok else f'copy() passes `{ast.unparse(v)[:50] if v is not None else None}` for `{f}`, but {where} appends to the inner list in place: '
               'a copied simulation state that measures the same key again also changes the records of the original (repeated keys, replay from copies)', ci.mod.rel, fn.lineno)


def pauli_measurement_decomposition_rule(ctx, rid):
    """PauliMeasurementGate._decompose_ = V^-1 . measure Z on one qubit . V, with V P V^dag = Z on that qubit (interpreted, all masks on <= 3 qubits)."""
    import itertools
    import numpy as np
    from .. import fdx
    from . import c14, decomp
    from .c19 import _embed
    repo = ctx.repo
    ctx.rule(rid, 'Pauli measurement by decomposition: the operations yielded before the single-qubit measurement map the observable P to +Z on the measured qubit, '
             'the operations yielded after it undo exactly those operations (so the post-measurement state is the projection onto the eigenspace of P), and the '
             'measured bit is inverted exactly when the coefficient is -1 - for every Pauli mask on up to 3 qubits', floor=40, style='FDX')
    ci = repo.cls('cirq.ops.pauli_measurement_gate.PauliMeasurementGate')
    fn = ci.methods.get('_decompose_')
    if fn is None:
        raise AnalysisError('PauliMeasurementGate._decompose_ vanished')
    pm = repo.module('cirq-core/cirq/ops/pauli_string_phasor.py')
    xor_fn = pm.defs.get('xor_nonlocal_decompose')
    if xor_fn is None:
        raise AnalysisError('xor_nonlocal_decompose vanished')
    H = np.array([[1, 1], [1, -1]], dtype=complex) / np.sqrt(2)
    S = np.diag([1, 1j]).astype(complex)
    TO_Z = {'X': H, 'Y': H @ np.conj(S).T, 'Z': None}
    comps = {}

    class Obs:
        def __init__(self, names, coefficient):
            self.names, self.coefficient = names, coefficient

    for n in (1, 2, 3):
        for names in itertools.product('XYZ', repeat=n):
            for coef in (1, -1):
                self_obj = {'_observable': Obs(names, coef), 'mkey': 'k', '_mkey': 'k', 'confusion_matrix': None, '_confusion_matrix': None, 'key': 'k'}
                attr_hook, base_call_hook, name_lookup = decomp.make_env_hooks(repo, ci, fn, self_obj)
                marks = []

                def call_hook(call, it, _b=base_call_hook, _names=names):
                    s = ast.unparse(call.func)
                    if s.endswith('to_z_basis_ops'):
                        qs = it.env['qubits']
                        return [decomp.OpV(decomp.GateV(None, kind='matrix', coefficient=TO_Z[c], n=1), [q]) for q, c in zip(qs, _names) if c in 'XY']
                    if s.endswith('freeze_op_tree'):
                        v = it.ev(call.args[0])
                        return tuple(v) if isinstance(v, (list, tuple)) else v
                    if s.endswith('inverse') and len(call.args) == 1:
                        flat = []
                        decomp._flatten(it.ev(call.args[0]), flat)
                        return [o ** -1 for o in reversed(flat)]
                    if s.endswith('xor_nonlocal_decompose'):
                        class _Owner:           # the helper lives in another module: names inside it resolve there
                            mod = pm
                            methods = {}
                        ah, ch, nl = decomp.make_env_hooks(repo, _Owner, xor_fn, {})
                        sub = decomp.GenInterp({a.arg: it.ev(v) for a, v in zip(xor_fn.args.args, call.args)}, call_hook=ch, attr_hook=ah)
                        c14._wire(sub, nl, ah)
                        sub.call(xor_fn)
                        return sub.out
                    if s.endswith('MeasurementGate'):
                        inv = None
                        for k in call.keywords:
                            if k.arg == 'invert_mask':
                                inv = it.ev(k.value)
                        return ('MEASURE-GATE', inv)
                    if isinstance(call.func, ast.Attribute) and call.func.attr == 'on':
                        recv = it.ev(call.func.value)
                        if isinstance(recv, tuple) and recv and recv[0] == 'MEASURE-GATE':
                            q = it.ev(call.args[0])
                            m = decomp.OpV(decomp.GateV(None, kind='identity', n=1), [q])
                            m.measure = recv[1]
                            return m
                    return _b(call, it)
                it = decomp.GenInterp({'self': self_obj, 'qubits': tuple(decomp.Q(i) for i in range(n))}, call_hook=call_hook, attr_hook=attr_hook)
                c14._wire(it, name_lookup, attr_hook)
                base_attr = it.attr_hook

                def attr3(node, itp, _o=base_attr):
                    r = _o(node, itp)
                    if r is not NotImplemented:
                        return r
                    try:
                        v = itp.ev(node.value)
                    except fdx.Unsupported:
                        return NotImplemented
                    if isinstance(v, Obs) and hasattr(v, node.attr):
                        return getattr(v, node.attr)
                    return NotImplemented
                it.attr_hook = attr3
                key = f'{ci.qual}._decompose_:{"-" if coef < 0 else "+"}{"".join(names)}'
                try:
                    ret = it.call(fn)
                    tree = it.out if it.out else ret
                    ops_ = []
                    decomp._flatten(tree, ops_)
                except fdx.Unsupported as ex:
                    raise AnalysisError(f'PauliMeasurementGate._decompose_ is outside the interpretable subset: {ex}')
                mi = [i for i, o in enumerate(ops_) if hasattr(o, 'measure')]
                if len(mi) != 1:
                    ctx.ob(rid, key, False, f'decomposition contains {len(mi)} measurements instead of one', ci.mod.rel, fn.lineno)
                    continue

                def product(seq):
                    u = np.eye(2 ** n, dtype=complex)
                    for op in seq:
                        mtx = decomp.gate_matrix(repo, comps, op.gate)
                        u = _embed(mtx, [q.idx for q in op.qubits], n) @ u
                    return u
                pre, post = product(ops_[:mi[0]]), product(ops_[mi[0] + 1:])
                mq = ops_[mi[0]].qubits[0].idx
                P = np.eye(1, dtype=complex)
                for c in names:
                    P = np.kron(P, c14.MATS[c])
                Zq = _embed(c14.PZ, [mq], n)
                ok_map = np.allclose(pre @ P @ np.conj(pre).T, Zq, atol=1e-9)
                ok_undo = np.allclose(post @ pre, np.eye(2 ** n), atol=1e-9)
                inv = ops_[mi[0]].measure
                ok_inv = inv is not None and bool(tuple(inv)[0]) == (coef != 1)
                msg = ''
                if not ok_map:
                    msg = 'the operations before the measurement do not map the observable to +Z on the measured qubit'
                elif not ok_undo:
                    msg = 'the operations after the measurement are not the inverse of the operations before it: the recorded bit is right but the post-measurement state is not the eigenspace projection'
                elif not ok_inv:
                    msg = f'invert mask {inv} does not match the sign of the observable'
                ctx.ob(rid, key, not msg, msg, ci.mod.rel, fn.lineno, construct=f'{ci.qual}._decompose_:{len(names)}q')


def swap_shortcut_rule(ctx, rid):
    """SimulationProductState._act_on_fallback_ relabels the sub-states instead of applying the gate: only sound for a gate that is exactly SWAP."""
    import numpy as np
    from .. import fdx
    from . import c03
    repo = ctx.repo
    ctx.rule(rid, 'relabelling shortcut: the guard under which SimulationProductState swaps the bookkeeping of two qubits instead of simulating the gate (interpreted for probe '
             'exponents and global shifts) holds only when SwapPowGate(exponent, global_shift) is exactly the SWAP matrix', floor=20, style='FDX')
    ps = repo.cls('cirq.sim.simulation_product_state.SimulationProductState')
    fn = repo.method(ps.qual, '_act_on_fallback_')
    guards = [i for i in ast.walk(fn) if isinstance(i, ast.If) and 'SwapPowGate' in ast.unparse(i.test)]
    if not guards:
        raise AnalysisError('SimulationProductState._act_on_fallback_: SWAP shortcut vanished')
    g = guards[0]
    subj = None
    for c in ast.walk(g.test):
        if isinstance(c, ast.Call) and call_name(c) == 'isinstance' and isinstance(c.args[0], ast.Name):
            subj = c.args[0].id
    if subj is None:
        raise AnalysisError('SWAP shortcut: isinstance subject not found')
    comps, _ = c03._components(repo, repo.cls('cirq.ops.swap_gates.SwapPowGate'), 2)
    swap = sum(np.exp(1j * np.pi * 1 * t) * m for t, m in comps)

    class G:
        def __init__(self, e, s):
            self.exponent = self._exponent = e
            self.global_shift = self._global_shift = s
    for e in (1, 3, -1, 5, 0.75, 0.9, 1.25, -0.75, 2.6, 0.5, 1.5, 2, 0, 1.0000001):
        for s in (0, 0.5, 1.0):
            gm = G(e, s)

            def attr_hook(node, it, _g=gm):
                if isinstance(node.value, ast.Name) and node.value.id == 'ops':
                    return node.attr
                try:
                    v = it.ev(node.value)
                except fdx.Unsupported:
                    return NotImplemented
                if isinstance(v, G) and hasattr(v, node.attr):
                    return getattr(v, node.attr)
                return NotImplemented
            it = fdx.NumInterp({subj: gm, 'isinstance': lambda v, t: isinstance(v, G) and 'SwapPowGate' in (t if isinstance(t, tuple) else (t,))}, attr_hook=attr_hook)
            try:
                taken = bool(it.ev(g.test))
            except fdx.Unsupported as ex:
                raise AnalysisError(f'SWAP shortcut guard is outside the interpretable subset: {ex}')
            u = sum(np.exp(1j * np.pi * e * (t + s)) * m for t, m in comps)
            exact = np.allclose(u, swap, atol=1e-6)
            ok = (not taken) or exact
            ctx.ob(rid, f'{ps.qual}._act_on_fallback_:swap-shortcut:e={e}:shift={s}', ok,
                   '' if ok else f'SwapPowGate(exponent={e}, global_shift={s}) is not the SWAP matrix, yet the product state only exchanges the bookkeeping of the two qubits',
                   ps.mod.rel, g.lineno, construct=f'{ps.qual}._act_on_fallback_:swap-shortcut')


def controlled_special_case_rule(ctx, rid):
    """Code that special-cases ControlledGate / ControlledOperation must look at the control values: a controlled gate is not 'fires iff all controls are 1'."""
    repo = ctx.repo
    ctx.rule(rid, 'controlled special-casing: every function (outside contrib) that tests isinstance(x, ControlledGate / ControlledOperation) and then treats x specially '
             'reads x.control_values (anti-controls, mixed and sum-of-product controls are part of the gate)', floor=8, style='COH')
    n = 0
    for m in sorted(repo.modules.values(), key=lambda x: x.rel):
        if '/testing/' in m.rel or '/contrib/' in m.rel:
            continue
        for fn in [f for f in ast.walk(m.tree) if isinstance(f, ast.FunctionDef)]:
            subj = set()
            for c in ast.walk(fn):
                if isinstance(c, ast.Call) and call_name(c) == 'isinstance' and len(c.args) == 2 and isinstance(c.args[0], ast.Name) \
                        and any(t.split('.')[-1] in ('ControlledGate', 'ControlledOperation') for t in
                                ([ast.unparse(e) for e in c.args[1].elts] if isinstance(c.args[1], ast.Tuple) else [ast.unparse(c.args[1])])):
                    subj.add(c.args[0].id)
            for s_ in sorted(subj):
                n += 1
                reads = {a.attr for a in ast.walk(fn) if isinstance(a, ast.Attribute) and isinstance(a.value, ast.Name) and a.value.id == s_}
                ok = 'control_values' in reads or '_control_values' in reads
                ctx.ob(rid, f'{m.name}.{fn.name}:{s_}', ok, '' if ok else f'{fn.name} singles out controlled gates (`{s_}`) and reads {sorted(reads)} but never control_values: '
                       'a gate controlled on 0 or on a sum of products is handled as if it fired on all-ones', m.rel, fn.lineno)
    if n == 0:
        raise AnalysisError('no special-casing of ControlledGate / ControlledOperation left')


def classical_basis_index_rule(ctx, rid):
    """ClassicalBasisSimState keeps one entry per qubit *position*; a gate acts on the positions its qubits map to, so every
    subscript of the basis list inside _act_on_fallback_ must be one of those mapped positions - never a gate-local index."""
    repo = ctx.repo
    ctx.rule(rid, 'position discipline of the classical simulator: inside ClassicalBasisSimState._act_on_fallback_ every read or write basis[k] uses a k that is an element '
             'of the list of positions obtained through self.qubit_map (unpacked from it, iterated from it, or indexed out of it), never a gate-local index', floor=10, style='TNT')
    cls = repo.cls('cirq.sim.classical_simulator.ClassicalBasisSimState')
    fn = repo.method(cls.qual, '_act_on_fallback_')
    lists, elems, basis_alias = set(), set(), set()

    def is_basis(e):
        return (isinstance(e, ast.Attribute) and e.attr == 'basis') or (isinstance(e, ast.Name) and e.id in basis_alias)

    def is_list(e):
        if isinstance(e, ast.Name):
            return e.id in lists
        if isinstance(e, ast.Subscript) and isinstance(e.slice, ast.Slice):
            return is_list(e.value)
        if isinstance(e, ast.Call) and call_name(e) in ('list', 'tuple', 'reversed', 'sorted') and e.args:
            return is_list(e.args[0])
        if isinstance(e, (ast.ListComp, ast.GeneratorExp)) and len(e.generators) == 1:
            g = e.generators[0]
            # [self.qubit_map[q] for q in qubits]
            if isinstance(e.elt, ast.Subscript) and isinstance(e.elt.value, ast.Attribute) and e.elt.value.attr == 'qubit_map':
                return True
            if isinstance(e.elt, ast.Name) and isinstance(g.target, ast.Name) and e.elt.id == g.target.id and is_list(g.iter):
                return True
        return False

    def is_elem(e, extra=()):
        if isinstance(e, ast.Name):
            return e.id in elems or e.id in extra
        if isinstance(e, ast.Subscript) and not isinstance(e.slice, ast.Slice):
            if isinstance(e.value, ast.Attribute) and e.value.attr == 'qubit_map':
                return True
            return is_list(e.value)
        return False

    def bind_iter(target, it):
        if is_list(it):
            if isinstance(target, ast.Name):
                return {target.id}
            return set()
        if isinstance(it, ast.Call) and call_name(it) == 'enumerate' and it.args and is_list(it.args[0]) and isinstance(target, ast.Tuple) and len(target.elts) == 2 \
                and isinstance(target.elts[1], ast.Name):
            return {target.elts[1].id}
        if isinstance(it, ast.Call) and call_name(it) == 'zip' and isinstance(target, ast.Tuple):
            return {t.id for t, a in zip(target.elts, it.args) if isinstance(t, ast.Name) and is_list(a)}
        return set()

    changed = True
    while changed:
        changed = False
        for n in ast.walk(fn):
            new_l, new_e, new_b = set(), set(), set()
            if isinstance(n, ast.Assign) and len(n.targets) == 1:
                t = n.targets[0]
                if isinstance(t, ast.Name):
                    if is_list(n.value):
                        new_l.add(t.id)
                    if is_elem(n.value):
                        new_e.add(t.id)
                    if is_basis(n.value):
                        new_b.add(t.id)
                elif isinstance(t, (ast.Tuple, ast.List)) and is_list(n.value):
                    new_e |= {e.id for e in t.elts if isinstance(e, ast.Name)}
                    new_l |= {e.value.id for e in t.elts if isinstance(e, ast.Starred) and isinstance(e.value, ast.Name)}
            elif isinstance(n, ast.For):
                new_e |= bind_iter(n.target, n.iter)
            if new_l - lists or new_e - elems or new_b - basis_alias:
                lists |= new_l
                elems |= new_e
                basis_alias |= new_b
                changed = True
    # a name that is also assigned something else somewhere is not reliably a position
    other = set()
    for n in ast.walk(fn):
        if isinstance(n, ast.Assign):
            for t in n.targets:
                for nm in ([t] if isinstance(t, ast.Name) else [e for e in getattr(t, 'elts', []) if isinstance(e, ast.Name)]):
                    if nm.id in elems and isinstance(t, ast.Name) and not is_elem(n.value):
                        other.add(nm.id)
                    if nm.id in elems and not isinstance(t, ast.Name) and not is_list(n.value):
                        other.add(nm.id)
    if not lists:
        raise AnalysisError('ClassicalBasisSimState._act_on_fallback_: the list of mapped positions (self.qubit_map[...]) was not found')
    # comprehension-local element names
    comp_local = {}
    for n in ast.walk(fn):
        if isinstance(n, (ast.ListComp, ast.GeneratorExp, ast.SetComp, ast.DictComp)):
            loc = set()
            for g in n.generators:
                loc |= bind_iter(g.target, g.iter)
            for s in ast.walk(n):
                if isinstance(s, ast.Subscript):
                    comp_local.setdefault(id(s), set()).update(loc)
    k = 0
    for n in ast.walk(fn):
        if isinstance(n, ast.Subscript) and is_basis(n.value):
            k += 1
            idx = n.slice
            ok = is_elem(idx, comp_local.get(id(n), ())) and not (isinstance(idx, ast.Name) and idx.id in other)
            ctx.ob(rid, f'{cls.qual}._act_on_fallback_:basis[{ast.unparse(idx)}]#{k}', ok,
                   '' if ok else f'basis[{ast.unparse(idx)}] is indexed by a value that is not one of the positions the operation\'s qubits map to '
                   f'(positions: {sorted(lists)} / {sorted(elems)}): the gate acts on the wrong wires whenever its qubits are not the first ones of the simulator',
                   cls.mod.rel, n.lineno, construct=f'{cls.qual}._act_on_fallback_')


def merged_state_rule(ctx, rid):
    """The zero-qubit factor sim_states[None] accumulates global phases (and scalars of every gate applied to no qubit); every merged state must be built from it."""
    from ..flow import name_deps
    repo = ctx.repo
    ctx.rule(rid, 'phase carrier: every value returned by SimulationProductState.create_merged_state depends on self.sim_states[None], the zero-qubit factor into which global phases are '
             'multiplied - a result assembled from the other factors alone drops the phase', floor=2, style='TNT')
    ps = repo.cls('cirq.sim.simulation_product_state.SimulationProductState')
    fn = repo.method(ps.qual, 'create_merged_state')

    def source_of(node):
        if isinstance(node, ast.Subscript) and isinstance(node.slice, ast.Constant) and node.slice.value is None and ast.unparse(node.value).endswith('sim_states'):
            return {'carrier'}
        return None
    # path-sensitive, with strong updates: re-binding the local to something that does not come from the carrier loses it
    from ..flow import PathWalker
    results = {}

    def carries(e, st):
        env = dict(st)
        for x in ast.walk(e):
            if source_of(x):
                return True
            if isinstance(x, ast.Name) and isinstance(x.ctx, ast.Load) and env.get(x.id, False):
                return True
        return False

    def transfer(node, st):
        env = dict(st)
        if isinstance(node, ast.Return) and node.value is not None:
            results.setdefault(node, []).append(carries(node.value, st))
            return [st]
        if isinstance(node, (ast.Assign, ast.AnnAssign)) and getattr(node, 'value', None) is not None:
            c = carries(node.value, st)
            for t in (node.targets if isinstance(node, ast.Assign) else [node.target]):
                for x in ast.walk(t):
                    if isinstance(x, ast.Name) and isinstance(x.ctx, ast.Store):
                        env[x.id] = c
        elif isinstance(node, ast.AugAssign) and isinstance(node.target, ast.Name):
            env[node.target.id] = env.get(node.target.id, False) or carries(node.value, st)
        return [tuple(sorted(env.items()))]
    try:
        PathWalker(transfer).run(fn, ())
    except RuntimeError:
        raise AnalysisError('create_merged_state: path explosion')
    if not results:
        raise AnalysisError('create_merged_state: no return')
    for k, r in enumerate(sorted(results, key=lambda r_: r_.lineno), 1):
        ok = all(results[r])
        ctx.ob(rid, f'{ps.qual}.create_merged_state:return#{k}', ok, '' if ok else f'`return {ast.unparse(r.value)[:70]}` can be reached with a value built without self.sim_states[None]: '
               'global phase operations applied so far are lost from the merged state (final state vectors come out with the wrong phase)', ps.mod.rel, r.lineno)


# gate classes after which every touched qubit is, by construction, unentangled with the rest (so an unchecked factor() is exact)
DISENTANGLING = {
    'MeasurementGate': 'a computational-basis measurement projects each measured qubit onto a basis state',
    'ResetChannel': 'reset leaves the qubit in |0>',
}


def unchecked_factor_rule(ctx, rid):
    repo = ctx.repo
    ctx.rule(rid, 'unchecked factoring: every factor(..., validate=False) in cirq.sim sits under an isinstance test that admits only the tabled disentangling gate classes '
             f'({", ".join(sorted(DISENTANGLING))}); for any other operation (e.g. a joint Pauli measurement, which leaves its qubits entangled) splitting without validation replaces '
             'the state by a product state', floor=1, style='RG')
    n = 0
    for m in sorted(repo.modules.values(), key=lambda x: x.rel):
        if not m.rel.startswith('cirq-core/cirq/sim/') or m.rel.endswith('_test.py'):
            continue
        par = None
        for c in ast.walk(m.tree):
            if not (isinstance(c, ast.Call) and isinstance(c.func, ast.Attribute) and c.func.attr == 'factor'
                    and any(k.arg == 'validate' and isinstance(k.value, ast.Constant) and k.value.value is False for k in c.keywords)):
                continue
            if par is None:
                par = m.parents()
            n += 1
            def guards(node, depth=0):
                """(classes admitted by the isinstance tests enclosing `node`, enclosing function); an unguarded private helper is judged at each of its call sites."""
                classes, fnname = None, '?'
                while node in par:
                    p = par[node]
                    if isinstance(p, ast.If) and node in p.body:
                        for t in ast.walk(p.test):
                            if isinstance(t, ast.Call) and call_name(t) == 'isinstance' and len(t.args) == 2:
                                cl = t.args[1].elts if isinstance(t.args[1], ast.Tuple) else [t.args[1]]
                                classes = (classes or set()) | {ast.unparse(x).split('.')[-1] for x in cl}
                    if isinstance(p, (ast.FunctionDef, ast.AsyncFunctionDef)):
                        fnname = p.name
                        break
                    node = p
                if classes is None and fnname.startswith('_') and not fnname.startswith('__') and depth < 3:
                    sites = [x for x in ast.walk(m.tree) if isinstance(x, ast.Call) and (
                        (isinstance(x.func, ast.Attribute) and x.func.attr == fnname) or (isinstance(x.func, ast.Name) and x.func.id == fnname))]
                    got = [guards(x, depth + 1)[0] for x in sites]
                    if sites and all(g is not None for g in got):
                        classes = set().union(*got)
                return classes, fnname
            classes, fnname = guards(c)
            extra = sorted((classes or set()) - set(DISENTANGLING))
            ok = classes is not None and not extra
            ctx.ob(rid, f'{m.name}.{fnname}:factor(validate=False)', ok, '' if ok else
                   (f'the unchecked factor() is also reached for {extra}: after such an operation the qubits may still be entangled, and the sub-states are split anyway' if classes is not None
                    else 'the unchecked factor() is not guarded by a test on the gate class'), m.rel, c.lineno)
    if n == 0:
        raise AnalysisError(f'{rid}: no factor(validate=False) left in cirq.sim')


def measured_qubits_rule(ctx, rid):
    """_core_iterator: which later operations are skipped after a deferred terminal measurement is decided per qubit, not per qubit tuple."""
    repo = ctx.repo
    ctx.rule(rid, 'terminal-measurement bookkeeping by qubit: in SimulatorBase._core_iterator the record of what has been measured is filled from the qubits of each measurement (update / add '
             'per qubit) and the skip test compares an operation\'s qubits element-wise (issuperset / all(q in ...)); a container keyed by the whole op.qubits tuple lets noise on a sub-tuple '
             'of a measured multi-qubit operation through, which changes the sampled bits', floor=1, style='COH')
    sb = repo.cls('cirq.sim.simulator_base.SimulatorBase')
    fn = repo.method(sb.qual, '_core_iterator')
    loops = [l for l in ast.walk(fn) if isinstance(l, ast.For)]
    opvars = {l.target.id for l in loops if isinstance(l.target, ast.Name)}
    keyed = []
    for x in ast.walk(fn):
        if isinstance(x, ast.Subscript) and isinstance(x.slice, ast.Attribute) and x.slice.attr == 'qubits' and isinstance(x.slice.value, ast.Name) and x.slice.value.id in opvars:
            keyed.append(x)
        if isinstance(x, ast.Compare) and isinstance(x.ops[0], (ast.In, ast.NotIn)) and isinstance(x.left, ast.Attribute) and x.left.attr == 'qubits' \
                and isinstance(x.left.value, ast.Name) and x.left.value.id in opvars:
            keyed.append(x)
    ok = not keyed
    ctx.ob(rid, f'{sb.qual}._core_iterator:no-tuple-key', ok, '' if ok else f'`{ast.unparse(keyed[0])}` identifies measured qubits by the operation\'s whole qubit tuple: noise on (q0,) after a '
           'deferred measure(q0, q1) is not recognised as acting on measured qubits and flips the sampled bits', sb.mod.rel, (keyed[0].lineno if keyed else fn.lineno))


def ancilla_initial_state_rule(ctx, rid):
    """A function that enlarges the program with ancilla qubits (defer_measurements) cannot pass an integer initial_state through unchanged."""
    repo = ctx.repo
    ctx.rule(rid, 'integer initial state vs. added ancillas: a function of cirq.sim that rewrites its circuit with defer_measurements and hands its own initial_state parameter to a simulator '
             're-binds that parameter under an isinstance(..., int) test before the call (the integer indexes basis states of the original qubits only)', floor=1, style='MPT')
    n = 0
    for m in sorted(repo.modules.values(), key=lambda x: x.rel):
        if not m.rel.startswith('cirq-core/cirq/sim/') or m.rel.endswith('_test.py'):
            continue
        for fn in [f for f in ast.walk(m.tree) if isinstance(f, ast.FunctionDef)]:
            params = {a.arg for a in fn.args.args + fn.args.kwonlyargs}
            if not any(isinstance(c, ast.Call) and (call_name(c) or '').split('.')[-1] == 'defer_measurements' for c in ast.walk(fn)):
                continue
            sims = [c for c in ast.walk(fn) if isinstance(c, ast.Call) and isinstance(c.func, ast.Attribute) and c.func.attr in ('simulate', 'simulate_sweep', 'simulate_moment_steps')]
            # names assigned (plain assignment chains, in source order) from the result of defer_measurements: name -> line from which it holds the enlarged circuit
            enlarged = {}
            grew = True
            while grew:
                grew = False
                for a_ in ast.walk(fn):
                    if isinstance(a_, ast.Assign) and len(a_.targets) == 1 and isinstance(a_.targets[0], ast.Name) and a_.targets[0].id not in enlarged:
                        v = a_.value
                        direct = any(isinstance(x, ast.Call) and (call_name(x) or '').split('.')[-1] == 'defer_measurements' for x in ast.walk(v)) and not isinstance(v, ast.Compare)
                        via = isinstance(v, (ast.Name, ast.Call)) and any(isinstance(x, ast.Name) and x.id in enlarged and enlarged[x.id] < a_.lineno for x in ast.walk(v))
                        if direct or via:
                            enlarged[a_.targets[0].id] = a_.lineno
                            grew = True
            for c in sims:
                prog = c.args[0] if c.args else next((k.value for k in c.keywords if k.arg in ('program', 'circuit')), None)
                if prog is None or not any(isinstance(x, ast.Name) and x.id in enlarged and enlarged[x.id] < c.lineno for x in ast.walk(prog)):
                    continue  # simulates the circuit as given: no ancillas
                passed = [k.value.id for k in c.keywords if k.arg == 'initial_state' and isinstance(k.value, ast.Name) and k.value.id in params]
                for p in passed:
                    n += 1
                    fixes = []
                    for i_ in ast.walk(fn):
                        if isinstance(i_, ast.If) and any(isinstance(t, ast.Call) and call_name(t) == 'isinstance' and t.args and isinstance(t.args[0], ast.Name) and t.args[0].id == p
                                                         and 'int' in ast.unparse(t.args[1]) for t in ast.walk(i_.test)):
                            for s_ in ast.walk(i_):
                                if isinstance(s_, (ast.Assign, ast.AugAssign)):
                                    tg = s_.targets[0] if isinstance(s_, ast.Assign) else s_.target
                                    if isinstance(tg, ast.Name) and tg.id == p and s_.lineno < c.lineno:
                                        fixes.append(s_)
                    ok = bool(fixes)
                    ctx.ob(rid, f'{m.name}.{fn.name}:{p}', ok, '' if ok else
                           f'{fn.name} simulates a circuit enlarged by defer_measurements with `{p}` passed through unchanged: an integer is then read as a basis state of qubits + ancillas '
                           '(initial_state=2 on two qubits prepares |01>|0> instead of |10>|0>)', m.rel, c.lineno)
    if n == 0:
        raise AnalysisError(f'{rid}: no simulation of a deferred circuit with an initial_state parameter found')


def noise_before_deferral_rule(ctx, rid):
    """final_density_matrix under classical control: the noise model acts on the circuit as written, then measurements are deferred; the simulator of the rewritten circuit adds none."""
    repo = ctx.repo
    ctx.rule(rid, 'noise exactly once, on the original circuit: in cirq.sim.mux.final_density_matrix the circuit given to defer_measurements comes from <circuit>.with_noise(noise), and the '
             'simulator that runs the deferred circuit is created with noise=None on that path (noise applied after deferral would also hit the ancilla qubits that stand for classical bits and '
             'see a different moment structure)', floor=2, style='MPT')
    m = repo.module('cirq-core/cirq/sim/mux.py')
    fn = m.defs.get('final_density_matrix')
    if fn is None:
        raise AnalysisError('final_density_matrix vanished')
    defs = {}
    for a_ in ast.walk(fn):
        if isinstance(a_, ast.Assign) and len(a_.targets) == 1 and isinstance(a_.targets[0], ast.Name):
            defs.setdefault(a_.targets[0].id, []).append(a_)
    dcalls = [c for c in ast.walk(fn) if isinstance(c, ast.Call) and (call_name(c) or '').split('.')[-1] == 'defer_measurements' and c.args]
    par = m.parents()
    # the deferral whose result is simulated (assigned), not the one used only in a comparison
    dcalls = [c for c in dcalls if isinstance(par.get(c), ast.Assign)]
    if not dcalls:
        raise AnalysisError('final_density_matrix: defer_measurements result is no longer assigned')
    d = dcalls[0]

    def chain_has_with_noise(e, depth=0):
        if any(isinstance(x, ast.Call) and isinstance(x.func, ast.Attribute) and x.func.attr == 'with_noise' for x in ast.walk(e)):
            return True
        if depth < 4:
            for x in ast.walk(e):
                if isinstance(x, ast.Name):
                    for a_ in defs.get(x.id, []):
                        if a_.lineno < d.lineno and chain_has_with_noise(a_.value, depth + 1):
                            return True
        return False
    ok1 = chain_has_with_noise(d.args[0])
    ctx.ob(rid, 'cirq.sim.mux.final_density_matrix:noise-then-defer', ok1, '' if ok1 else
           f'`{ast.unparse(d)[:80]}` defers the measurements of a circuit that has not been through with_noise: the noise is either lost or added to the rewritten circuit', m.rel, d.lineno)
    # the guard of the deferral branch
    node, flag = d, None
    while node in par:
        p = par[node]
        if isinstance(p, ast.If) and any(node is s or any(node is y for y in ast.walk(s)) for s in p.body):
            flag = p.test
            break
        node = p
    sims = [c for c in ast.walk(fn) if isinstance(c, ast.Call) and (call_name(c) or '').split('.')[-1] == 'DensityMatrixSimulator']
    if not sims or flag is None:
        raise AnalysisError('final_density_matrix: DensityMatrixSimulator construction / deferral guard not found')
    for k, c in enumerate(sims, 1):
        nz = next((kw.value for kw in c.keywords if kw.arg == 'noise'), None)
        ok2 = isinstance(nz, ast.IfExp) and ast.unparse(nz.test) == ast.unparse(flag) and isinstance(nz.body, ast.Constant) and nz.body.value is None
        ok2 = ok2 or (isinstance(nz, ast.Constant) and nz.value is None)
        ctx.ob(rid, f'cirq.sim.mux.final_density_matrix:simulator-noise#{k}', ok2, '' if ok2 else
               f'the simulator is created with noise={ast.unparse(nz) if nz is not None else "<default>"}: on the `{ast.unparse(flag)}` path the circuit already contains the noise '
               '(or should), so the model would be applied to the deferred circuit - ancillas included', m.rel, c.lineno)


def order_independent_reduction_rule(ctx, rid):
    """Noise models: a quantity reduced over the operations of a moment (or over sub-models) must not depend on the order in which they are listed."""
    repo = ctx.repo
    ctx.rule(rid, 'order-independent reduction: in the noise-model packages, a local that is initialised before a top-level loop, assigned inside it and read after it is assigned only by '
             'expressions that read its previous value (x = max(x, e), x += e, x = f(x)); a plain `x = e` keeps the value of whichever item happens to come last (a Moment lists equal '
             'contents in any order)', floor=2, style='TNT')
    n = 0
    for m in sorted(repo.modules.values(), key=lambda x: x.rel):
        if not m.rel.startswith(('cirq-core/cirq/devices/', 'cirq-google/cirq_google/devices/', 'cirq-aqt/cirq_aqt/', 'cirq-pasqal/cirq_pasqal/', 'cirq-core/cirq/contrib/noise_models')) \
                or m.rel.endswith('_test.py'):
            continue
        for fn in [f for f in ast.walk(m.tree) if isinstance(f, ast.FunctionDef)]:
            body = fn.body
            for i, st in enumerate(body):
                if not isinstance(st, ast.For):
                    continue
                assigned = {}
                for a in ast.walk(st):
                    if isinstance(a, ast.Assign) and len(a.targets) == 1 and isinstance(a.targets[0], ast.Name):
                        assigned.setdefault(a.targets[0].id, []).append(a)
                before = {t.id for s in body[:i] if isinstance(s, (ast.Assign, ast.AnnAssign)) for t in ([*s.targets] if isinstance(s, ast.Assign) else [s.target]) if isinstance(t, ast.Name)}
                after = {x.id for s in body[i + 1:] for x in ast.walk(s) if isinstance(x, ast.Name) and isinstance(x.ctx, ast.Load)}
                for v, asg in sorted(assigned.items()):
                    if v not in before or v not in after:
                        continue
                    n += 1
                    plain = [a for a in asg if not any(isinstance(x, ast.Name) and x.id == v for x in ast.walk(a.value))]
                    ok = not plain
                    ctx.ob(rid, f'{m.name}.{fn.name}:{v}', ok, '' if ok else f'`{ast.unparse(plain[0])[:60]}` inside the loop over `{ast.unparse(st.iter)[:30]}` overwrites `{v}` instead of combining '
                           'it with the value so far: the result after the loop depends on which item is listed last (two equal moments get different noise)', m.rel, (plain[0].lineno if plain else st.lineno))
    if n == 0:
        raise AnalysisError(f'{rid}: no reduction loop found in the noise-model packages')


def integer_digit_rule(ctx, rid):
    """Mixed-radix digit extraction on basis-state indices stays in the integers."""
    repo = ctx.repo
    ctx.rule(rid, 'exact digit extraction: in cirq.sim, cirq.value.digits, cirq.qis, cirq.linalg and cirq.study, a name that is reduced with `%` (taking a digit) is never the numerator of a true division `/` in the '
             'same function - the quotient of a basis-state index must be taken with `//`; a float quotient silently loses the low digits of indices above 2**53', floor=2, style='TNT')
    n = 0
    for m in sorted(repo.modules.values(), key=lambda x: x.rel):
        if not m.rel.startswith(('cirq-core/cirq/sim/', 'cirq-core/cirq/value/digits.py', 'cirq-core/cirq/qis/', 'cirq-core/cirq/study/', 'cirq-core/cirq/linalg/')) or m.rel.endswith('_test.py'):
            continue
        for fn in [f for f in ast.walk(m.tree) if isinstance(f, ast.FunctionDef)]:
            mod = {b.left.id for b in ast.walk(fn) if isinstance(b, ast.BinOp) and isinstance(b.op, ast.Mod) and isinstance(b.left, ast.Name)}
            mod |= {b.target.id for b in ast.walk(fn) if isinstance(b, ast.AugAssign) and isinstance(b.op, ast.Mod) and isinstance(b.target, ast.Name)}
            if not mod:
                continue
            quot = [b for b in ast.walk(fn) if (isinstance(b, ast.BinOp) and isinstance(b.op, (ast.Div, ast.FloorDiv)) and isinstance(b.left, ast.Name) and b.left.id in mod)
                    or (isinstance(b, ast.AugAssign) and isinstance(b.op, (ast.Div, ast.FloorDiv)) and isinstance(b.target, ast.Name) and b.target.id in mod)]
            if not quot:
                continue
            n += 1
            bad = [b for b in quot if isinstance(b.op, ast.Div)]
            ctx.ob(rid, f'{m.name}.{fn.name}:digits', not bad, '' if not bad else
                   f'`{ast.unparse(bad[0])}` divides the index whose digits are taken with `%` by true division: above 2**53 the float quotient is rounded and the remaining digits are wrong '
                   '(a 60-qubit all-ones initial state is prepared with a single 1)', m.rel, (bad[0].lineno if bad else fn.lineno))
    if n == 0:
        raise AnalysisError(f'{rid}: no digit-extraction loop found')


def factoring_rule(ctx, rid):
    """linalg.factor_state_vector / factor_density_matrix, which the product-state container uses to split sub-states, by interpretation on labelled product tensors."""
    import itertools
    from .. import fdx
    repo = ctx.repo
    ctx.rule(rid, 'factoring of product tensors: interpreting cirq.linalg.transformations.factor_state_vector and factor_density_matrix (with the helpers they call) with validate=True on the '
             'product of three different one-qubit states, for every ordered choice of 1 or 2 axes, returns (without raising) the requested factors in the requested order and the remaining '
             'ones in their original order; a GHZ-type tensor is refused', floor=20, style='FDX')
    m = repo.module('cirq-core/cirq/linalg/transformations.py')
    rs = np.random.RandomState(11)
    vecs = []
    for _ in range(3):
        v = rs.randn(2) + 1j * rs.randn(2)
        vecs.append(v / np.linalg.norm(v))
    rhos = [np.outer(v, v.conj()) for v in vecs]

    def resolver(call):
        nm = ast.unparse(call.func)
        t = m.defs.get(nm)
        return t if isinstance(t, ast.FunctionDef) else None

    def prod_sv(ix):
        out = np.array(1.0 + 0j)
        for i in ix:
            out = np.tensordot(out, vecs[i], axes=0)
        return out

    def prod_dm(ix):
        # axes: left indices then right indices
        k = len(ix)
        out = np.array(1.0 + 0j)
        for i in ix:
            out = np.tensordot(out, rhos[i], axes=0)
        perm = [2 * j for j in range(k)] + [2 * j + 1 for j in range(k)]
        return np.transpose(out, perm) if k else out

    def up_to_phase(x, y):
        x, y = np.asarray(x).ravel(), np.asarray(y).ravel()
        return x.shape == y.shape and abs(abs(np.vdot(x, y)) - np.linalg.norm(x) * np.linalg.norm(y)) < 1e-7 and abs(np.linalg.norm(x) - np.linalg.norm(y)) < 1e-7
    for fname, whole, part, same in (('factor_state_vector', prod_sv([0, 1, 2]), prod_sv, up_to_phase),
                                     ('factor_density_matrix', prod_dm([0, 1, 2]), prod_dm, lambda x, y: np.asarray(x).shape == np.asarray(y).shape and np.allclose(x, y, atol=1e-7))):
        fn = m.defs.get(fname)
        if not isinstance(fn, ast.FunctionDef):
            raise AnalysisError(f'{fname} vanished')
        for r in (1, 2):
            for axes in itertools.permutations(range(3), r):
                it = fdx.NumInterp({'t': whole, 'axes': list(axes), 'validate': True, 'atol': 1e-7})
                it.resolver = resolver
                it.builtins.update({'range': range, 'list': list, 'len': len, 'set': set, 'int': int, 'tuple': tuple, 'slice': slice, 'abs': abs})
                why = ''
                try:
                    res = it.call(fn)
                    rest = [i for i in range(3) if i not in axes]
                    ok = isinstance(res, tuple) and len(res) == 2 and same(res[0], part(list(axes))) and same(res[1], part(rest))
                    if not ok:
                        why = f'{fname}(product of 3 states, axes={list(axes)}) does not return the factors on {list(axes)} and {rest}'
                except fdx.Raised as ex:
                    ok, why = False, f'{fname}(product of 3 states, axes={list(axes)}, validate=True) refuses a tensor that factors cleanly ({str(ex)[:60]})'
                except fdx.Unsupported as ex:
                    raise AnalysisError(f'cannot interpret {fname}: {ex}')
                ctx.ob(rid, f'cirq.linalg.transformations.{fname}:axes={list(axes)}', ok, why, m.rel, fn.lineno)
        # an entangled input must be refused when validating
        if fname == 'factor_state_vector':
            ghz = np.zeros((2, 2, 2), dtype=complex)
            ghz[0, 0, 0] = ghz[1, 1, 1] = 1 / np.sqrt(2)
        else:
            g = np.zeros(8, dtype=complex)
            g[0] = g[7] = 1 / np.sqrt(2)
            ghz = np.outer(g, g.conj()).reshape((2,) * 6)
        it = fdx.NumInterp({'t': ghz, 'axes': [0], 'validate': True, 'atol': 1e-7})
        it.resolver = resolver
        it.builtins.update({'range': range, 'list': list, 'len': len, 'set': set, 'int': int, 'tuple': tuple, 'slice': slice, 'abs': abs})
        try:
            it.call(fn)
            refused = False
        except fdx.Raised:
            refused = True
        except fdx.Unsupported as ex:
            raise AnalysisError(f'cannot interpret {fname}: {ex}')
        ctx.ob(rid, f'cirq.linalg.transformations.{fname}:entangled-refused', refused, '' if refused else f'{fname}(GHZ, [0], validate=True) accepts an entangled tensor', m.rel, fn.lineno)


# ---------------------------------------------------------------------------------------------------------------------
# A measurement key can be recorded several times; the classical data store keeps every record.  "The" value of a key -
# what a classical control reads, what simulate() reports - is the latest record (get_digits / get_int default to index -1).
def latest_record_rule(ctx, rid, floor=3):
    repo = ctx.repo
    ctx.rule(rid, 'latest record: wherever a single record is picked out of a per-key record list (the value of `.records` / `.channel_records` of a classical data store, '
             'iterated with .items() or subscripted by key) with a constant index, that index is -1, and get_digits / get_int default to index -1 - classical controls read the latest '
             'record, so a report built from another one disagrees with the feed-forward that actually happened', floor=floor, style='COH')
    ci = repo.cls('cirq.value.classical_data.ClassicalDataDictionaryStore')
    for mn in ('get_digits', 'get_int'):
        fn = ci.methods.get(mn)
        if fn is None:
            raise AnalysisError(f'ClassicalDataDictionaryStore.{mn} vanished')
        dflt = func_param_defaults(fn).get('index')
        ok = dflt is not None and ast.unparse(dflt) == '-1'
        ctx.ob(rid, f'{ci.qual}.{mn}:default-index', ok, '' if ok else f'{mn} defaults to index {ast.unparse(dflt) if dflt is not None else "?"} instead of -1 (the latest record)', ci.mod.rel, fn.lineno)
    for m in sorted(repo.modules.values(), key=lambda x: x.rel):
        if not m.rel.startswith(('cirq-core/cirq/sim/', 'cirq-core/cirq/value/', 'cirq-core/cirq/ops/', 'cirq-core/cirq/study/', 'cirq-core/cirq/work/')) or 'records' not in m.src:
            continue
        for fn in [f for f in ast.walk(m.tree) if isinstance(f, (ast.FunctionDef, ast.AsyncFunctionDef))]:
            # variables bound to one per-key record list: `for k, v in X.records.items()` / `v = X.records[k]`
            lists = {}
            for n in ast.walk(fn):
                it = tgt = None
                if isinstance(n, (ast.For, ast.comprehension)):
                    it, tgt = n.iter, n.target
                if it is not None and isinstance(it, ast.Call) and isinstance(it.func, ast.Attribute) and it.func.attr in ('items', 'values') \
                        and isinstance(it.func.value, ast.Attribute) and it.func.value.attr in ('records', 'channel_records', '_records', '_channel_records'):
                    v = tgt.elts[1] if it.func.attr == 'items' and isinstance(tgt, ast.Tuple) and len(tgt.elts) == 2 else tgt
                    if isinstance(v, ast.Name):
                        lists[v.id] = it.func.value.attr
            k = 0
            for n in ast.walk(fn):
                if not (isinstance(n, ast.Subscript) and isinstance(n.ctx, ast.Load)):
                    continue
                base = n.value
                is_list = (isinstance(base, ast.Name) and base.id in lists) or (
                    isinstance(base, ast.Subscript) and isinstance(base.value, ast.Attribute) and base.value.attr in ('records', 'channel_records', '_records', '_channel_records'))
                if not is_list:
                    continue
                idx = n.slice
                cval = None
                if isinstance(idx, ast.Constant) and isinstance(idx.value, int):
                    cval = idx.value
                elif isinstance(idx, ast.UnaryOp) and isinstance(idx.op, ast.USub) and isinstance(idx.operand, ast.Constant):
                    cval = -idx.operand.value
                if cval is None:
                    continue        # a variable index (the caller's choice) or a slice
                k += 1
                ok = cval == -1
                ctx.ob(rid, f'{m.name}.{fn.name}:record-pick#{k}', ok, '' if ok else
                       f'`{ast.unparse(n)}` picks record {cval} of a key that may have been recorded several times; the value of a key is its latest record (index -1)', m.rel, n.lineno)


# ---------------------------------------------------------------------------------------------------------------------
# `log_of_measurement_results` (and StepResult.measurements built from it) is a latest-record-per-key view.  The records a
# sampler returns for run() hold *every* record of a key; they must come from the classical data store.
def run_records_rule(ctx, rid, floor=3):
    repo = ctx.repo
    ctx.rule(rid, 'run() returns every record: no method of a class that implements run_sweep / run_sweep_iter / _run (a sampler) reads the latest-record view '
             '`log_of_measurement_results`; per-repetition results are assembled from `classical_data.records` / `channel_records` - a key measured twice per repetition otherwise comes '
             'back with one record, unlike every other simulator', floor=floor, style='WMW')
    n = 0
    for ci in sorted(repo.classes.values(), key=lambda c: c.qual):
        if '.testing.' in ci.qual or '.contrib.' in ci.qual or not ci.qual.startswith(('cirq.sim.', 'cirq.work.', 'cirq_google.', 'cirq_ionq.', 'cirq_aqt.', 'cirq_pasqal.')):
            continue
        if not ({'run_sweep', 'run_sweep_iter', '_run', 'run_sweep_async'} & set(ci.methods)):
            continue
        for mn, fn in sorted(ci.methods.items()):
            if mn not in ('run_sweep', 'run_sweep_iter', '_run', 'run_sweep_async', 'run', 'run_batch'):
                continue
            reads = [x for x in ast.walk(fn) if isinstance(x, ast.Attribute) and x.attr == 'log_of_measurement_results']
            n += 1
            ok = not reads
            ctx.ob(rid, f'{ci.qual}.{mn}:all-records', ok, '' if ok else
                   f'`{ast.unparse(reads[0])}` holds only the latest record of each key; a circuit that records a key twice per repetition loses the earlier records in the result',
                   ci.mod.rel, reads[0].lineno if reads else fn.lineno)
    if n == 0:
        raise AnalysisError(f'{rid}: no sampler class found')


def noise_loop_no_break_rule(ctx, rid, floor=2):
    """Noise models: what one operation of a moment gets must not depend on which operations are listed before it."""
    repo = ctx.repo
    ctx.rule(rid, 'every operation of the moment is looked at: in the noise-model packages, a loop over the operations of a moment (`for op in moment` / `moment.operations` / the '
             'operations argument) that appends to a result inside its body has no `break` - leaving the loop at an operation that gets no noise deprives the operations listed after '
             'it of theirs, and a Moment lists equal contents in any order', floor=floor, style='MPT')
    n = 0
    for m in sorted(repo.modules.values(), key=lambda x: x.rel):
        if not m.rel.startswith(('cirq-core/cirq/devices/', 'cirq-google/cirq_google/devices/', 'cirq-aqt/cirq_aqt/', 'cirq-pasqal/cirq_pasqal/', 'cirq-core/cirq/contrib/noise_models')) \
                or m.rel.endswith('_test.py'):
            continue
        for fn in [f for f in ast.walk(m.tree) if isinstance(f, ast.FunctionDef)]:
            if not (fn.name.startswith('noisy_') or fn.name in ('_noisy_moment', '_noisy_moments', '_noisy_operation')):
                continue
            k = 0
            for lp in ast.walk(fn):
                if not isinstance(lp, ast.For):
                    continue
                it = ast.unparse(lp.iter)
                if not ('moment' in it or 'operations' in it):
                    continue
                grows = any(isinstance(c, ast.Call) and isinstance(c.func, ast.Attribute) and c.func.attr in ('append', 'extend') for c in ast.walk(lp)) or \
                    any(isinstance(a, ast.AugAssign) for a in ast.walk(lp))
                if not grows:
                    continue
                k += 1
                n += 1
                # breaks that belong to this loop (not to a nested one)
                brk = []

                def scan(stmts):
                    for s_ in stmts:
                        if isinstance(s_, ast.Break):
                            brk.append(s_)
                        elif isinstance(s_, (ast.For, ast.While, ast.FunctionDef)):
                            continue
                        else:
                            for fld in ('body', 'orelse', 'finalbody', 'handlers'):
                                sub = getattr(s_, fld, None)
                                if isinstance(sub, list):
                                    scan([x for x in sub if isinstance(x, ast.stmt)] + [y for x in sub if isinstance(x, ast.ExceptHandler) for y in x.body])
                scan(lp.body)
                ctx.ob(rid, f'{m.name}.{fn.name}:loop#{k}', not brk, '' if not brk else
                       f'`break` at line {brk[0].lineno} leaves the loop over `{it[:30]}`: operations listed after that point get no noise, so two equal moments can be given different noise',
                       m.rel, (brk[0].lineno if brk else lp.lineno))
    if n == 0:
        raise AnalysisError(f'{rid}: no accumulating loop over a moment found in the noise-model packages')


def repeated_key_map_rule(ctx, rid, floor=1):
    """A measurement key may be measured several times; a dictionary from key to *the* operation keeps only the last one."""
    repo = ctx.repo
    ctx.rule(rid, 'one key, many measurements: in the noise-model packages, a dictionary indexed by the measurement key of an operation (protocols.measurement_key_obj / _name of the '
             'loop operation) that stores the operation itself accumulates (setdefault(...).append / a list value), never a plain `d[key] = op` - with a key measured twice the earlier '
             'measurement would be replaced by the later one when the operations are put back', floor=floor, style='COH')
    from ..flow import name_deps
    KEYF = {'measurement_key_obj', 'measurement_key_name'}
    n = 0
    for m in sorted(repo.modules.values(), key=lambda x: x.rel):
        if not m.rel.startswith(('cirq-core/cirq/devices/', 'cirq-google/cirq_google/devices/', 'cirq-aqt/cirq_aqt/', 'cirq-pasqal/cirq_pasqal/')) or m.rel.endswith('_test.py'):
            continue
        for fn in [f for f in ast.walk(m.tree) if isinstance(f, ast.FunctionDef)]:
            if 'measurement_key' not in ast.unparse(fn):
                continue
            dep = name_deps(fn, {}, source_of=lambda x: {'KEY'} if isinstance(x, ast.Call) and (call_name(x) or '').split('.')[-1] in KEYF else None)
            for lp in ast.walk(fn):
                if not (isinstance(lp, ast.For) and isinstance(lp.target, ast.Name)):
                    continue
                opv = lp.target.id
                for s_ in ast.walk(lp):
                    # plain store d[key] = op
                    if isinstance(s_, ast.Assign) and len(s_.targets) == 1 and isinstance(s_.targets[0], ast.Subscript) and isinstance(s_.targets[0].value, ast.Name):
                        idx = s_.targets[0].slice
                        keyed = any((isinstance(x, ast.Name) and 'KEY' in dep.get(x.id, set())) or (isinstance(x, ast.Call) and (call_name(x) or '').split('.')[-1] in KEYF) for x in ast.walk(idx))
                        if keyed and isinstance(s_.value, ast.Name) and s_.value.id == opv:
                            n += 1
                            ctx.ob(rid, f'{m.name}.{fn.name}:{s_.targets[0].value.id}[key]', False,
                                   f'`{ast.unparse(s_)}` keeps one operation per measurement key: a second measurement of the same key replaces the first', m.rel, s_.lineno)
                    # accumulating store d.setdefault(key, []).append(op)
                    if isinstance(s_, ast.Call) and isinstance(s_.func, ast.Attribute) and s_.func.attr == 'append' and isinstance(s_.func.value, ast.Call) \
                            and isinstance(s_.func.value.func, ast.Attribute) and s_.func.value.func.attr == 'setdefault' and s_.args and isinstance(s_.args[0], ast.Name) and s_.args[0].id == opv:
                        karg = s_.func.value.args[0] if s_.func.value.args else None
                        keyed = karg is not None and any((isinstance(x, ast.Name) and 'KEY' in dep.get(x.id, set())) or (isinstance(x, ast.Call) and (call_name(x) or '').split('.')[-1] in KEYF)
                                                         for x in ast.walk(karg))
                        if keyed:
                            n += 1
                            ctx.ob(rid, f'{m.name}.{fn.name}:{ast.unparse(s_.func.value.func.value)}[key]', True, '', m.rel, s_.lineno)
    if n == 0:
        raise AnalysisError(f'{rid}: no per-key store of operations found in the noise-model packages')


def named_initial_state_rule(ctx, rid):
    """An initial state that names its qubits is expressed in the simulation's qubit order before it becomes a bare vector."""
    repo = ctx.repo
    ctx.rule(rid, 'named initial states follow the qubit order: SimulatorBase._create_simulation_state converts a cirq.ProductState (which says which qubit is in which state) with '
             'state_vector(qubit_order=<built from its qubits argument>) under an isinstance test, before any _create_partial_simulation_state call - the state factories receive no '
             'qubits and would read the vector of the sorted order in the order of the simulation', floor=1, style='MPT')
    sb = repo.cls('cirq.sim.simulator_base.SimulatorBase')
    fn = sb.methods.get('_create_simulation_state')
    if fn is None:
        raise AnalysisError('SimulatorBase._create_simulation_state vanished')
    params = [a.arg for a in fn.args.args]
    st, qb = params[1], params[2]
    conv = None
    for i_ in ast.walk(fn):
        if isinstance(i_, ast.If) and any(isinstance(c, ast.Call) and call_name(c) == 'isinstance' and 'ProductState' in ast.unparse(c) for c in ast.walk(i_.test)):
            for a in i_.body:
                if isinstance(a, ast.Assign) and isinstance(a.targets[0], ast.Name) and a.targets[0].id == st and isinstance(a.value, ast.Call) \
                        and isinstance(a.value.func, ast.Attribute) and a.value.func.attr == 'state_vector' \
                        and any(isinstance(x, ast.Name) and x.id == qb for k in list(a.value.args) + [kw.value for kw in a.value.keywords] for x in ast.walk(k)):
                    conv = i_
    uses = [c for c in ast.walk(fn) if isinstance(c, ast.Call) and (call_name(c) or '').endswith('_create_partial_simulation_state')]
    if not uses:
        raise AnalysisError('_create_simulation_state: no _create_partial_simulation_state call')
    ok = conv is not None and all(conv.lineno < c.lineno for c in uses)
    ctx.ob(rid, f'{sb.qual}._create_simulation_state:product-state-order', ok, '' if ok else
           f'a ProductState passed as `{st}` reaches the state factories without being written in the order of `{qb}`: with a qubit_order that is not the sorted one every qubit starts in '
           'another qubit\'s state', sb.mod.rel, fn.lineno)


def confusion_key_positions_rule(ctx, rid):
    """A confusion-map key is a tuple of positions; consumers use it position by position."""
    repo = ctx.repo
    ctx.decided.append(f'{rid} every consumer of confusion_map.items() uses the key tuple position by position (iteration / len / as a whole), never through one picked element or a slice')
    ctx.rule(rid, 'confusion-map keys name arbitrary positions of the measurement: wherever `<..>confusion_map.items()` is iterated, the key variable is only iterated, measured with len(), '
             'or passed on whole - a subscript `key[0]` / `key[a:b]` (or a slice of the measured digits built from it) treats the key as a contiguous ascending run, which scrambles '
             'the recorded digits of every other key shape', floor=4, style='EFF')
    n = 0
    for mod, ci, fn in repo.all_functions():
        if mod.rel.endswith('_test.py'):
            continue
        sites = []
        for node in ast.walk(fn):
            gens = []
            if isinstance(node, ast.For):
                gens.append((node.target, node.iter, node.body))
            elif isinstance(node, (ast.ListComp, ast.SetComp, ast.GeneratorExp, ast.DictComp)):
                for g in node.generators:
                    gens.append((g.target, g.iter, [node]))
            for tgt, it, body in gens:
                if not (isinstance(it, ast.Call) and isinstance(it.func, ast.Attribute) and it.func.attr == 'items' and 'confusion_map' in ast.unparse(it.func.value).split('.')[-1]):
                    continue
                if not (isinstance(tgt, ast.Tuple) and len(tgt.elts) == 2 and isinstance(tgt.elts[0], ast.Name)):
                    continue
                sites.append((tgt.elts[0].id, body, node))
        for key, body, node in sites:
            n += 1
            bad = [x for s in body for x in ast.walk(s) if isinstance(x, ast.Subscript) and isinstance(x.value, ast.Name) and x.value.id == key
                   and (isinstance(x.slice, (ast.Slice, ast.Constant)) or (isinstance(x.slice, ast.UnaryOp) and isinstance(x.slice.operand, ast.Constant)))]
            k = f'{mod.name}.{(ci.name + ".") if ci else ""}{fn.name}:{key}@{sum(1 for a, _, _ in sites[:sites.index((key, body, node))] if a == key)}'
            ctx.ob(rid, k, not bad, f'`{ast.unparse(bad[0])}` picks one position of the key: the other positions are assumed, not read' if bad else '', mod.rel, node.lineno)
    if n == 0:
        raise AnalysisError('no consumer of confusion_map.items() found')


def homogeneous_moment_predicate_rule(ctx, rid):
    """validate_all_measurements, interpreted on the four kinds of moment."""
    repo = ctx.repo
    m = repo.module('cirq-core/cirq/devices/noise_model.py')
    fn = m.defs.get('validate_all_measurements')
    ctx.decided.append(f'{rid} validate_all_measurements: all measurements -> True, no measurement (also the empty moment) -> False, mixed -> ValueError')
    ctx.rule(rid, 'measurement-moment test: validate_all_measurements, which the noise models use to choose between gate noise and readout noise for a whole moment, interpreted on model '
             'moments: only measurements -> True; only other operations -> False; an empty (idle) moment -> False (it gets gate / idle noise, not readout noise); a mixture raises',
             floor=4, style='FDX')
    if not isinstance(fn, ast.FunctionDef):
        raise AnalysisError('noise_model.validate_all_measurements vanished')
    p0 = fn.args.args[0].arg

    def call_hook(call, it):
        if ast.unparse(call.func).split('.')[-1] == 'is_measurement':
            return bool(it.ev(call.args[0]))
        return NotImplemented
    for name, moment, want in (('measurements', [True, True], True), ('operations', [False, False, False], False), ('empty', [], False), ('one-measurement', [True], True),
                               ('mixed', [True, False], 'raise'), ('mixed2', [False, True, True], 'raise')):
        it = fdx.NumInterp({p0: list(moment)}, call_hook=call_hook)
        try:
            got = it.call(fn)
        except fdx.Raised:
            got = 'raise'
        except fdx.Unsupported as ex:
            raise AnalysisError(f'cannot interpret validate_all_measurements: {ex}')
        ok = got == want and (isinstance(got, str) or isinstance(got, (bool, np.bool_)))
        ctx.ob(rid, f'cirq.devices.noise_model.validate_all_measurements:{name}', ok, '' if ok else
               f'a moment of kind `{name}` ({moment}) gives {got!r}, expected {want!r}', m.rel, fn.lineno)


def term_starts_from_stash_rule(ctx, rid):
    """apply_channel / apply_mixture strategies: every term of the sum is computed from the same input tensor."""
    repo = ctx.repo
    ctx.decided.append(f'{rid} every loop of the channel / mixture strategies that sums terms into args.out_buffer restores args.target_tensor from a stash before computing each term')
    ctx.rule(rid, 'every term starts from the input: in cirq.protocols.apply_channel_protocol / apply_mixture_protocol, a loop that accumulates into `args.out_buffer` and lets a term '
             'overwrite `args.target_tensor` (an `out=args.target_tensor`, or the whole `args` handed to a strategy - apply_unitary may scribble on its target) runs '
             '`np.copyto(dst=args.target_tensor, src=args.<B>)` in each iteration before anything touches the target; `args.<B>` is filled from `args.target_tensor` outside the loops of the module and is no `out=` of the loop body - '
             'otherwise term k is applied to the result of term k-1 (rho -> sum_k p_k U_k rho U_k^+ becomes a product)', floor=3, style='MPT')

    def is_args_attr(x, attr=None):
        return isinstance(x, ast.Attribute) and isinstance(x.value, ast.Name) and x.value.id == 'args' and (attr is None or x.attr == attr)

    def copyto(st):
        """(dst attr, src attr) of np.copyto(dst=args.X, src=args.Y) statement, else None"""
        if isinstance(st, ast.Expr) and isinstance(st.value, ast.Call) and call_name(st.value) == 'copyto':
            c = st.value
            kw = {k.arg: k.value for k in c.keywords}
            dst = kw.get('dst', c.args[0] if c.args else None)
            src = kw.get('src', c.args[1] if len(c.args) > 1 else None)
            if is_args_attr(dst) and is_args_attr(src):
                return dst.attr, src.attr
        return None
    n = 0
    for rel in ('cirq-core/cirq/protocols/apply_channel_protocol.py', 'cirq-core/cirq/protocols/apply_mixture_protocol.py'):
        m = repo.module(rel)
        par = m.parents()
        stashes = set()
        for st in ast.walk(m.tree):
            ct = copyto(st)
            if ct and ct[1] == 'target_tensor':
                a = par.get(st)
                inloop = False
                while a is not None and not isinstance(a, (ast.FunctionDef, ast.AsyncFunctionDef)):
                    inloop = inloop or isinstance(a, (ast.For, ast.While))
                    a = par.get(a)
                if not inloop:
                    stashes.add(ct[0])
        for fn in [x for x in ast.walk(m.tree) if isinstance(x, ast.FunctionDef)]:
            for l in [x for x in ast.walk(fn) if isinstance(x, ast.For)]:
                acc = [x for x in ast.walk(l) if isinstance(x, ast.AugAssign) and is_args_attr(x.target, 'out_buffer')]
                if not acc:
                    continue
                scribbles = [x for st in l.body for x in ast.walk(st) if isinstance(x, ast.Call) and (
                    any(k.arg == 'out' and is_args_attr(k.value, 'target_tensor') for k in x.keywords)
                    or (call_name(x) != 'copyto' and any(isinstance(a_, ast.Name) and a_.id == 'args' for a_ in x.args)))]
                if not scribbles:
                    continue
                n += 1
                first = None
                for st in l.body:
                    ct = copyto(st)
                    if ct and ct[0] == 'target_tensor':
                        first = ct
                        break
                    if any(x in scribbles or (isinstance(x, ast.Attribute) and is_args_attr(x, 'target_tensor')) for x in ast.walk(st)):
                        break    # the term reads or overwrites the target before it is restored
                why = ''
                if not first or first[0] != 'target_tensor':
                    why = f'the loop at line {l.lineno} computes a term that may overwrite args.target_tensor (`{ast.unparse(scribbles[0])[:50]}`) without first restoring it from a stash'
                elif first[1] not in stashes:
                    why = f'args.{first[1]} restores the input at line {l.lineno + 1} but is never filled from args.target_tensor outside a loop in this module'
                elif any(isinstance(x, ast.Call) and any(k.arg == 'out' and is_args_attr(k.value, first[1]) for k in x.keywords) for st in l.body for x in ast.walk(st)):
                    why = f'args.{first[1]}, the stash of the input, is also an out= buffer of the loop body'
                ctx.ob(rid, f'{m.name}.{fn.name}:term-from-input', not why, why, rel, l.lineno)


def configured_duration_first_rule(ctx, rid):
    """ThermalNoiseModel: the duration a wait gate carries is a default; the configured gate_durations_ns table is consulted before it."""
    from ..flow import PathWalker
    repo = ctx.repo
    ci = repo.cls('cirq.devices.thermal_noise_model.ThermalNoiseModel')
    ctx.decided.append(f'{rid} ThermalNoiseModel consults the configured gate_durations_ns before it falls back to the duration a WaitGate carries')
    ctx.rule(rid, 'configured durations override defaults: in ThermalNoiseModel, on every path that reads the duration carried by the operation\'s own gate (`<op>.gate.duration`), the '
             'configured table `self.gate_durations_ns` has been consulted before (the documented meaning of gate_durations_ns: "will override default values for gate duration, if any '
             '(e.g. WaitGate)")', floor=1, style='MPT')
    n = 0
    for mn, fn in sorted(ci.methods.items()):
        reads = [x for x in ast.walk(fn) if isinstance(x, ast.Attribute) and x.attr == 'duration' and isinstance(x.value, ast.Attribute) and x.value.attr == 'gate']
        if not reads:
            continue

        def has(node, pred):
            return any(pred(x) for x in ast.walk(node))

        def is_table(x):
            return isinstance(x, ast.Attribute) and x.attr in ('gate_durations_ns', '_gate_durations_ns') and isinstance(x.value, ast.Name) and x.value.id == 'self'

        def is_own(x):
            return isinstance(x, ast.Attribute) and x.attr == 'duration' and isinstance(x.value, ast.Attribute) and x.value.attr == 'gate'
        found = []

        def transfer(node, st):
            seen = st
            if has(node, is_own) and not seen:
                found.append(node)
            if has(node, is_table):
                seen = True
            return [seen]
        w = PathWalker(transfer)
        try:
            w.run(fn, False)
        except RuntimeError as e:
            ctx.unres(rid, f'{ci.qual}.{mn}', str(e), ci.mod.rel, fn.lineno)
            continue
        n += 1
        ctx.ob(rid, f'{ci.qual}.{mn}:table-before-own-duration', not found, '' if not found else
               f'line {found[0].lineno}: the duration carried by the gate itself is used on a path that has not looked at self.gate_durations_ns: a configured duration for that gate '
               'type is ignored', ci.mod.rel, getattr(found[0], 'lineno', fn.lineno) if found else fn.lineno)
    if n == 0:
        raise AnalysisError('ThermalNoiseModel: no method reads <op>.gate.duration any more')


def unsigned_digit_arrays_rule(ctx, rid):
    """Measured digits are stored in unsigned bytes on every path (terminal sampling, per repetition, both simulators)."""
    repo = ctx.repo
    ctx.decided.append(f'{rid} every 8-bit array of measured digits in cirq.sim is unsigned (siblings agree on np.uint8)')
    ctx.rule(rid, 'one digit type on all paths: every 8-bit integer dtype that cirq.sim gives to an array (np.zeros / np.array / np.asarray / astype, dtype=np.int8 | np.uint8) is np.uint8 - '
             'the per-repetition path and sample_state_vector record digits as unsigned bytes; a signed array on the terminal-sampling path turns the digit 150 of a qudit into -106, '
             'so the same run seen through run() and simulate() disagrees', floor=5, style='COH')
    n = 0
    for m in sorted(repo.modules.values(), key=lambda x: x.rel):
        if not m.rel.startswith('cirq-core/cirq/sim/') or m.rel.endswith('_test.py'):
            continue
        for k in ast.walk(m.tree):
            if isinstance(k, ast.keyword) and k.arg == 'dtype' and isinstance(k.value, ast.Attribute) and k.value.attr in ('int8', 'uint8'):
                n += 1
                ok = k.value.attr == 'uint8'
                ctx.ob(rid, f'{m.name}:dtype@{sum(1 for k2 in ast.walk(m.tree) if isinstance(k2, ast.keyword) and k2.arg == "dtype" and isinstance(k2.value, ast.Attribute) and k2.value.attr in ("int8", "uint8") and k2.value.lineno < k.value.lineno)}',
                       ok, '' if ok else 'a signed 8-bit array holds measured digits here; the sibling paths use np.uint8 (digits 128..255 of a qudit come back negative)', m.rel, k.value.lineno)
    if n == 0:
        raise AnalysisError(f'{rid}: no 8-bit digit array found in cirq.sim')


def confusion_read_write_rule(ctx, rid):
    """Both confusion routines apply the entries of a confusion map one after the other on the same digits."""
    repo = ctx.repo
    ctx.decided.append(f'{rid} in every routine that applies a confusion map, the digits an entry reads are the digits the entries write (entries act in sequence on one array)')
    ctx.rule(rid, 'entries of a confusion map act in sequence: inside the loop over confusion_map.items() the container from which the row index is read (the argument of '
             'big_endian_digits_to_int) is the container the new digits are stored into - one routine reading the original digits while its sibling reads the digits already '
             'rewritten gives different records for a map whose keys share a position, depending on whether the measurement is terminal', floor=2, style='COH')
    n = 0
    for mod, ci, fn in repo.all_functions():
        if not mod.rel.startswith('cirq-core/cirq/sim/') or mod.rel.endswith('_test.py'):
            continue
        for lp in [l for l in ast.walk(fn) if isinstance(l, ast.For) and isinstance(l.iter, ast.Call) and isinstance(l.iter.func, ast.Attribute) and l.iter.func.attr == 'items'
                   and 'confusion_map' in ast.unparse(l.iter.func.value)]:
            reads = set()
            for c in ast.walk(lp):
                if isinstance(c, ast.Call) and call_name(c).split('.')[-1] == 'big_endian_digits_to_int' and c.args:
                    reads |= {s_.value.id for s_ in ast.walk(c.args[0]) if isinstance(s_, ast.Subscript) and isinstance(s_.value, ast.Name)}
            writes = {t.value.id for s_ in ast.walk(lp) if isinstance(s_, ast.Assign) for t in s_.targets if isinstance(t, ast.Subscript) and isinstance(t.value, ast.Name)}
            if not reads or not writes:
                continue
            n += 1
            ok = reads <= writes
            ctx.ob(rid, f'{mod.name}.{(ci.name + ".") if ci else ""}{fn.name}:reads-what-it-writes', ok, '' if ok else
                   f'the row is read from {sorted(reads)} but the new digits go to {sorted(writes)}: a later entry does not see what an earlier entry wrote, unlike the sibling routine',
                   mod.rel, lp.lineno)
    if n == 0:
        raise AnalysisError(f'{rid}: no confusion-map application loop found')


def key_shapes_from_running_operations_rule(ctx, rid):
    """Per-key facts a sampler derives from a circuit come from the operations that run, not from the top-level operations."""
    repo = ctx.repo
    ctx.decided.append(f'{rid} a sampler that derives per-key shapes with the one-key-per-operation protocols walks the operations sub-circuits stand for')
    ctx.rule(rid, 'shapes from the operations that run: in cirq.work / cirq.sim, a loop that applies measurement_key_name / measurement_key_obj (one key per operation) to the operations of a '
             'caller\'s circuit iterates an unrolled view (the loop, or the repository function it iterates, goes through mapped_circuit of sub-circuit operations) - at top level a '
             'CircuitOperation is one operation with the qid shape of its whole body and possibly several keys, so run(repetitions=0) and ZerosSampler disagree with run(repetitions=3)',
             floor=1, style='COH')
    n = 0
    for mod, ci, fn in repo.all_functions():
        if mod.rel.endswith('_test.py') or not (mod.rel.startswith('cirq-core/cirq/work/') or mod.rel.startswith('cirq-core/cirq/sim/')):
            continue
        for lp in [l for l in ast.walk(fn) if isinstance(l, ast.For) and isinstance(l.target, ast.Name)]:
            v = lp.target.id
            uses = [c for c in ast.walk(lp) if isinstance(c, ast.Call) and call_name(c).split('.')[-1] in ('measurement_key_name', 'measurement_key_obj')
                    and c.args and isinstance(c.args[0], ast.Name) and c.args[0].id == v]
            if not uses or not isinstance(lp.iter, ast.Call):
                continue
            it = lp.iter
            unrolled = 'mapped_circuit' in ast.unparse(lp) or 'CircuitOperation' in ast.unparse(lp)
            if isinstance(it.func, ast.Attribute) and it.func.attr == 'all_operations':
                pass
            else:
                tgt = None
                if isinstance(it.func, ast.Name):
                    tgt = mod.defs.get(it.func.id)
                if isinstance(tgt, ast.FunctionDef):
                    unrolled = unrolled or 'mapped_circuit' in ast.unparse(tgt)
                else:
                    continue
            n += 1
            ctx.ob(rid, f'{mod.name}.{(ci.name + ".") if ci else ""}{fn.name}:key-per-operation', unrolled, '' if unrolled else
                   f'`for {v} in {ast.unparse(it)[:50]}` applies the one-key protocol to top-level operations: a sub-circuit operation is counted once, with the shape of its whole body',
                   mod.rel, lp.lineno)
    if n == 0:
        raise AnalysisError(f'{rid}: no per-operation key walk found in cirq.work / cirq.sim')
