"""C12 - sub-circuits, loops and classical control equal their unrolled form.

Decided: no field of a CircuitOperation can be lost by replace/with_*/protocol methods or
by equality/hash/JSON/repr; the object is never written after construction; the key
protocols of Moment/AbstractCircuit visit every operation through the protocol function;
classically controlled ops implement the key protocols over their conditions and delegate
the rest to the wrapped operation.  Not decided: equality with the unrolled circuit.
"""
from __future__ import annotations

import ast

from ..core import AnalysisError, call_name, dotted, is_self_attr, walk_local
from .. import coh
from .. import fields as F
from . import shared

CO = 'cirq.circuits.circuit_operation.CircuitOperation'

# fields that legitimately do not take part in equality / JSON (reason)
EQ_EXEMPT = {'extern_keys': 'binding context supplied by the enclosing scope (set by _with_rescoped_keys_), not part of the value'}

# methods returning a CircuitOperation that are *documented* to drop the maps
BUILD_EXEMPT = {'mapped_op': 'wraps mapped_circuit(), in which every map, repetition and resolver has already been applied',
                'base_operation': "documented: 'Key and qubit mappings, parameter values, and repetitions are not copied'"}


def run(ctx):
    repo = ctx.repo
    _control_keys_from_scoped_body(ctx, repo)
    ctx.decided += [
        'C12.a CircuitOperation.replace/__eq__/_hash/_json_dict_/_from_json_dict_/__repr__ cover the constructor fields',
        'C12.b every with_*/protocol method of CircuitOperation builds its result through replace() (unnamed fields carry over)',
        'C12.c CircuitOperation fields are stored only in __init__',
        'C12.d Moment/AbstractCircuit key-protocol methods map every operation through the protocol function of the same name; '
        'ClassicallyControlledOperation covers its conditions and delegates to the sub-operation',
        'C12.e CircuitOperation parameter triple (shared with C10.a)',
        'C12.f rescoping into the parent scope keeps the extern-key binding context',
        'C12.g classical conditions rebuilt under key remapping keep every other field (index, bitmask, target)',
    ]
    ctx.not_decided += ['semantic equality with the unrolled circuit', 'key scoping rules', 'repeat_until evaluation']
    ci = repo.cls(CO)
    rel = ci.mod.rel
    info = coh.init_info(repo, ci)
    params = info[2]
    p2f = F.init_param_to_field(repo, ci)

    # ------------------------------------------------------------------ C12.a
    ctx.rule('C12.a', 'CircuitOperation field coherence: replace() keys == constructor parameters; __eq__ compares every '
             'parameter-backed field except extern_keys; _hash fields subset of __eq__ fields; JSON keys cover __eq__ fields '
             'and the reader forwards them; __repr__ mentions them', floor=30, style='COH')
    rep = repo.method(CO, 'replace')
    dicts = [n for n in ast.walk(rep) if isinstance(n, ast.Dict)]
    if not dicts:
        raise AnalysisError('CircuitOperation.replace no longer builds a kwargs dict')
    d = max(dicts, key=lambda n: len(n.keys))
    rkeys = {k.value for k in d.keys if isinstance(k, ast.Constant)}
    has_changes = any(k is None for k in d.keys)
    for p in params:
        ctx.ob('C12.a', f'{CO}.replace:{p}', p in rkeys,
               '' if p in rkeys else f'replace() does not carry constructor parameter `{p}`: every with_* method resets it',
               rel, d.lineno)
    extra = rkeys - set(params)
    ctx.ob('C12.a', f'{CO}.replace:extra', not extra, f'replace() passes unknown parameter(s) {sorted(extra)}' if extra else '', rel, d.lineno)
    ctx.ob('C12.a', f'{CO}.replace:changes-last', has_changes and d.keys[-1] is None,
           '' if has_changes and d.keys[-1] is None else '**changes is not the last entry: current values would override the requested changes',
           rel, d.lineno)
    # value of each key reads the matching field
    for k, v in zip(d.keys, d.values):
        if isinstance(k, ast.Constant) and k.value in params:
            reads = {F.norm_field(repo, ci, n.attr) for n in ast.walk(v) if is_self_attr(n)}
            want = p2f.get(k.value, set())
            ok = bool(reads & want)
            ctx.ob('C12.a', f'{CO}.replace:{k.value}:source', ok,
                   '' if ok else f'replace() fills `{k.value}` from {sorted(reads)} instead of its own field {sorted(want)}', rel, v.lineno)
    eqfn = repo.method(CO, '__eq__')
    eqf = F.self_reads(repo, ci, eqfn, depth=1)
    for p in params:
        if p in EQ_EXEMPT:
            continue
        ok = bool(p2f.get(p, set()) & eqf)
        ctx.ob('C12.a', f'{CO}.__eq__:{p}', ok, '' if ok else f'__eq__ ignores `{p}`', rel, eqfn.lineno)
    # both sides of each comparison use the same attribute
    for cmp in [n for n in ast.walk(eqfn) if isinstance(n, ast.Compare)]:
        l, r = cmp.left, cmp.comparators[0]
        if isinstance(l, ast.Attribute) and isinstance(r, ast.Attribute) and isinstance(l.value, ast.Name) and isinstance(r.value, ast.Name) \
                and {l.value.id, r.value.id} == {'self', 'other'}:
            ctx.ob('C12.a', f'{CO}.__eq__:sides:{l.attr}', l.attr == r.attr,
                   '' if l.attr == r.attr else f'__eq__ compares self.{l.attr} with other.{r.attr}', rel, cmp.lineno)
    hfn = repo.method(CO, '_hash')
    hf = F.self_reads(repo, ci, hfn, depth=1)
    extra = hf - eqf
    ctx.ob('C12.a', f'{CO}._hash:subset', not extra, f'_hash reads {sorted(extra)} which __eq__ ignores' if extra else '', rel, hfn.lineno)
    jk = coh.json_keys(repo, ci)
    for p in params:
        if p in EQ_EXEMPT:
            continue
        ok = p in jk['all']
        ctx.ob('C12.a', f'{CO}._json_dict_:{p}', ok, '' if ok else f'JSON omits `{p}`', rel, jk['fn'].lineno)
    # JSON values read the matching field
    for dn in [n for n in ast.walk(jk['fn']) if isinstance(n, ast.Dict)]:
        for k, v in zip(dn.keys, dn.values):
            if isinstance(k, ast.Constant) and k.value in params:
                reads = {F.norm_field(repo, ci, n.attr) for n in ast.walk(v) if is_self_attr(n)}
                ok = bool(reads & p2f.get(k.value, set()))
                ctx.ob('C12.a', f'{CO}._json_dict_:{k.value}:source', ok,
                       '' if ok else f'JSON key `{k.value}` written from {sorted(reads)}', rel, v.lineno)
    rd = repo.method(CO, '_from_json_dict_')
    rparams = [a.arg for a in rd.args.args[1:] + rd.args.kwonlyargs]
    calls = [c for c in ast.walk(rd) if isinstance(c, ast.Call) and isinstance(c.func, ast.Name) and c.func.id == 'cls']
    if not calls:
        raise AnalysisError('CircuitOperation._from_json_dict_ no longer calls cls(...)')
    bound, opaque = coh.bind_call(calls[0], params)
    for p in rparams:
        v = bound.get(p)
        ok = v is not None and p in {n.id for n in ast.walk(v) if isinstance(n, ast.Name)}
        ctx.ob('C12.a', f'{CO}._from_json_dict_:{p}', ok,
               '' if ok else f'reader does not forward `{p}` to the constructor as `{p}`', rel, rd.lineno)
    for k in jk['all']:
        ctx.ob('C12.a', f'{CO}._from_json_dict_:accepts:{k}', k in rparams, '' if k in rparams else f'reader does not accept written key `{k}`', rel, rd.lineno)
    rp = repo.method(CO, '__repr__')
    rpf = F.self_reads(repo, ci, rp, depth=1)
    for p in params:
        if p in EQ_EXEMPT or p == 'use_repetition_ids':
            continue
        ok = bool(p2f.get(p, set()) & rpf)
        ctx.ob('C12.a', f'{CO}.__repr__:{p}', ok, '' if ok else f'__repr__ never mentions `{p}`', rel, rp.lineno)

    # ------------------------------------------------------------------ C12.b
    ctx.rule('C12.b', 'every method of CircuitOperation that returns a CircuitOperation returns self, the result of '
             'self.replace(...)/<op>.replace(...), or of another such method; a direct CircuitOperation(...) construction '
             'must pass every parameter (else unnamed maps are dropped)', floor=12, style='COH')
    builders = set()
    for mn, fn in ci.methods.items():
        ann = ast.unparse(fn.returns) if fn.returns is not None else ''
        if 'CircuitOperation' in ann or mn.startswith('_with_') or mn in ('__pow__', 'repeat', '_resolve_parameters_'):
            builders.add(mn)
    for mn in sorted(builders):
        fn = ci.methods[mn]
        if mn in ('replace', '_from_json_dict_'):
            continue
        rets = [r for r in ast.walk(fn) if isinstance(r, ast.Return) and r.value is not None]
        assigned = {}
        for n in ast.walk(fn):
            if isinstance(n, ast.Assign) and len(n.targets) == 1 and isinstance(n.targets[0], ast.Name):
                assigned.setdefault(n.targets[0].id, []).append(n.value)
        for r in rets:
            vals = [r.value]
            if isinstance(r.value, ast.Name) and r.value.id in assigned:
                vals = assigned[r.value.id]
            for v in vals:
                ok, why = _is_carrying(v, ci, builders, params, assigned)
                if mn in BUILD_EXEMPT:
                    ok = True
                ctx.ob('C12.b', f'{CO}.{mn}', ok, '' if ok else f'{mn} returns `{ast.unparse(v)[:80]}` which {why}', rel, r.lineno)

    # ------------------------------------------------------------------ C12.c
    ctx.rule('C12.c', 'who-may-write: attributes of a CircuitOperation are stored only in __init__ (caches only via cached_property/cached_method)', floor=5, style='WMW')
    for mn, fn in ci.methods.items():
        w = F.self_writes(fn)
        if mn == '__init__':
            ctx.ob('C12.c', f'{CO}.__init__:stores', len(w) >= 9, f'__init__ stores only {sorted(w)}' if len(w) < 9 else '', rel, fn.lineno)
            continue
        ctx.ob('C12.c', f'{CO}.{mn}', not w, f'{mn} stores into self.{sorted(w)} after construction' if w else '', rel, fn.lineno)
    # other modules must not store into a CircuitOperation's private fields
    priv = {f for fs in p2f.values() for f in fs}
    hits = []
    for m in repo.modules.values():
        if m is ci.mod:
            continue
        for n in ast.walk(m.tree):
            if isinstance(n, ast.Attribute) and isinstance(n.ctx, ast.Store) and n.attr in priv and n.attr in (
                    '_repetitions', '_repetition_ids', '_use_repetition_ids', '_repeat_until', '_qubit_map',
                    '_measurement_key_map', '_param_resolver', '_parent_path', '_extern_keys'):
                if not (isinstance(n.value, ast.Name) and n.value.id == 'self'):
                    hits.append(f'{m.rel}:{n.lineno}')
    ctx.ob('C12.c', f'{CO}:foreign-stores', not hits, f'stores into CircuitOperation fields from outside: {hits}' if hits else '', rel, ci.node.lineno)

    # ------------------------------------------------------------------ C12.d
    ctx.rule('C12.d', 'key-protocol methods of Moment/AbstractCircuit/TaggedOperation/ClassicallyControlledOperation call the '
             'protocol function of the same name on every child (loop/comprehension over all operations or moments) and '
             'pass their own argument on', floor=12, style='COH')
    proto = {
        '_with_measurement_key_mapping_': 'with_measurement_key_mapping',
        '_with_key_path_': 'with_key_path',
        '_with_key_path_prefix_': 'with_key_path_prefix',
        '_with_rescoped_keys_': 'with_rescoped_keys',
    }
    for cq in ('cirq.circuits.moment.Moment', 'cirq.circuits.circuit.AbstractCircuit',
               'cirq.ops.raw_types.TaggedOperation', 'cirq.ops.classically_controlled_operation.ClassicallyControlledOperation',
               'cirq.ops.gate_operation.GateOperation', 'cirq.ops.controlled_operation.ControlledOperation'):
        c = repo.cls(cq)
        for mn, pf in proto.items():
            fn = c.methods.get(mn)
            if fn is None:
                continue
            calls = [x for x in ast.walk(fn) if isinstance(x, ast.Call) and call_name(x) == pf]
            arg = fn.args.args[1].arg if len(fn.args.args) > 1 else None
            ok = bool(calls)
            msg = '' if ok else f'{mn} does not call protocols.{pf} on its children'
            if ok and arg:
                fwd = any(arg in {n.id for a in x.args[1:] + [k.value for k in x.keywords] for n in ast.walk(a) if isinstance(n, ast.Name)} for x in calls)
                if not fwd:
                    ok = False
                    msg = f'{mn} does not pass `{arg}` to protocols.{pf}'
            if ok and cq.endswith(('Moment', 'AbstractCircuit')):
                # child iteration must be over all operations/moments of self (no slicing/filter dropping elements)
                it_ok = False
                for n in ast.walk(fn):
                    gens = []
                    if isinstance(n, (ast.GeneratorExp, ast.ListComp)):
                        gens = n.generators
                    elif isinstance(n, ast.For):
                        gens = [n]
                    for g in gens:
                        src = ast.unparse(g.iter)
                        if src in ('self', 'self.operations', 'self.moments', 'self._operations', 'self._moments') and not getattr(g, 'ifs', []):
                            it_ok = True
                if not it_ok:
                    ok = False
                    msg = f'{mn} does not iterate over all children of self unfiltered'
            ctx.ob('C12.d', f'{cq}.{mn}', ok, msg, c.mod.rel, fn.lineno)
    # ClassicallyControlledOperation: key protocols cover the conditions as well
    cco = repo.cls('cirq.ops.classically_controlled_operation.ClassicallyControlledOperation')
    for mn in ('_with_measurement_key_mapping_', '_with_key_path_prefix_', '_with_rescoped_keys_', '_control_keys_', '_with_key_path_'):
        fn = cco.methods.get(mn)
        if fn is None:
            continue
        rd = F.self_reads(repo, cco, fn, depth=1)
        ok = '_conditions' in rd
        ctx.ob('C12.d', f'{cco.qual}.{mn}:conditions', ok, '' if ok else f'{mn} ignores the classical conditions', cco.mod.rel, fn.lineno)
        if mn != '_control_keys_':
            ok2 = '_sub_operation' in rd
            ctx.ob('C12.d', f'{cco.qual}.{mn}:sub', ok2, '' if ok2 else f'{mn} ignores the wrapped operation', cco.mod.rel, fn.lineno)

    # sibling agreement: the key-rewriting protocol methods of one class rewrite the same children
    REWRITERS = ['_with_measurement_key_mapping_', '_with_key_path_', '_with_key_path_prefix_', '_with_rescoped_keys_']
    for kc in sorted(repo.classes.values(), key=lambda c_: c_.qual):
        if '.testing.' in kc.qual or '.contrib.' in kc.qual or kc.qual == 'cirq.value.measurement_key.MeasurementKey':
            continue
        own = [m_ for m_ in REWRITERS if m_ in kc.methods]
        if len(own) < 2:
            continue
        from ..flow import name_deps

        def applied(fn_, pf_):
            # fields of self that flow into an argument of the protocol function of the same name (copying a child through does not rewrite it)
            def src(n_):
                if isinstance(n_, ast.Attribute) and isinstance(n_.value, ast.Name) and n_.value.id == 'self':
                    return {F.norm_field(repo, kc, n_.attr)}
                return None
            dep = name_deps(fn_, {}, source_of=src)
            out_ = set()
            for c_ in ast.walk(fn_):
                if isinstance(c_, ast.Call) and call_name(c_) in (pf_, '_' + pf_ + '_'):
                    exprs = list(c_.args) + [k_.value for k_ in c_.keywords]
                    if isinstance(c_.func, ast.Attribute):
                        exprs.append(c_.func.value)        # key._with_key_path_(path): the receiver is what gets rewritten
                    for a_ in exprs:
                        for x_ in ast.walk(a_):
                            if isinstance(x_, ast.Name):
                                out_ |= dep.get(x_.id, set())
                            out_ |= src(x_) or set()
            return {f for f in out_ if f.startswith('_')}
        reads = {m_: applied(kc.methods[m_], proto[m_]) for m_ in own}
        if not any(reads.values()):
            continue               # leaf classes rewrite their own key, not children
        union = set().union(*reads.values())
        for m_ in own:
            miss = sorted(union - reads[m_])
            ctx.ob('C12.d', f'{kc.qual}.{m_}:same-children-as-siblings', not miss,
                   '' if not miss else f'{m_} never looks at {miss}, which the sibling key-rewriting methods of {kc.name} do rewrite: keys inside that child keep their old scope/name',
                   kc.mod.rel, kc.methods[m_].lineno)

    shared.control_keys_cover_rule(ctx, 'C12.o', floor=4)
    _terminal_queries_use_mapped_circuit(ctx, repo)
    _unitary_fast_path_arity(ctx, repo)
    _rescoping_by_interpretation(ctx, repo)
    ctx.decided.append('C12.o _control_keys_ of every wrapping operation covers the children whose keys the class rewrites')

    # ------------------------------------------------------------------ C12.g
    cond = repo.cls('cirq.value.condition.Condition')
    shared.rebuild_rule(ctx, 'C12.g', only_methods={'replace_key', '_with_key_path_', '_with_key_path_prefix_', '_with_rescoped_keys_',
                                                     '_with_measurement_key_mapping_', '_resolve_parameters_'},
                        floor=3, scope=lambda c: cond in repo.mro(c))

    # ------------------------------------------------------------------ C12.f
    ctx.rule('C12.f', 'binding context: every with_rescoped_keys call made by CircuitOperation passes bindable keys that include its '
             'extern keys, and _with_rescoped_keys_ re-prefixes the extern keys it carries over with the new path', floor=3, style='COH')  # 2 call sites + 1
    for mn, fn in sorted(ci.methods.items()):
        for c in ast.walk(fn):
            if isinstance(c, ast.Call) and call_name(c) == 'with_rescoped_keys':
                if not (len(c.args) >= 2 and 'parent_path' in ast.unparse(c.args[1])):
                    continue  # only the rescoping into the parent scope needs the binding context
                bk = None
                for k in c.keywords:
                    if k.arg == 'bindable_keys':
                        bk = k.value
                if bk is None and len(c.args) >= 3:
                    bk = c.args[2]
                ok = bk is not None and any(is_self_attr(x, '_extern_keys') for x in ast.walk(bk))
                ctx.ob('C12.f', f'{CO}.{mn}:with_rescoped_keys:bindable', ok,
                       '' if ok else f'{mn} rescopes keys with bindable_keys=`{ast.unparse(bk) if bk is not None else None}`, leaving out the extern keys: '
                       'conditions on keys measured in an enclosing scope bind to the wrong measurement', rel, c.lineno)
    fn = repo.method(CO, '_with_rescoped_keys_')
    uses = [n for n in ast.walk(fn) if is_self_attr(n, '_extern_keys')]
    parents = ci.mod.parents()
    okp = bool(uses)
    for u in uses:
        # must sit inside a comprehension/expression that applies with_key_path_prefix
        cur = u
        wrapped = False
        while cur in parents and not isinstance(cur, ast.stmt):
            cur = parents[cur]
            if isinstance(cur, (ast.SetComp, ast.GeneratorExp, ast.ListComp)) and 'with_key_path_prefix' in ast.unparse(cur.elt):
                wrapped = True
        okp = okp and wrapped
    ctx.ob('C12.f', f'{CO}._with_rescoped_keys_:extern-keys-reprefixed', okp,
           '' if okp else '_with_rescoped_keys_ carries its extern keys over without prefixing them with the new path: after a second rescoping '
           'they no longer name the enclosing iteration\'s measurement', rel, fn.lineno)

    # ------------------------------------------------------------------ C12.e
    ctx.rule('C12.e', 'CircuitOperation parameter triple: _is_parameterized_/_parameter_names_ read repetitions, repeat_until and '
             'the mapped circuit; _resolve_parameters_ reads repetitions, repeat_until and the resolver and applies the resolver to repetitions', floor=4, style='COH')
    need = {'_repetitions'}
    for mn in ('_is_parameterized_', '_parameter_names_'):
        fn = repo.method(CO, mn)
        rd = F.self_reads(repo, ci, fn, depth=3)
        miss = {'_repetitions', '_circuit', '_repeat_until', '_param_resolver'} - rd
        ctx.ob('C12.e', f'{CO}.{mn}', not miss, f'{mn} does not depend on {sorted(miss)}' if miss else '', rel, fn.lineno)
    fn = repo.method(CO, '_resolve_parameters_')
    rd = F.self_reads(repo, ci, fn, depth=2)
    miss = {'_repetitions', '_repeat_until', '_param_resolver'} - rd
    ctx.ob('C12.e', f'{CO}._resolve_parameters_', not miss, f'_resolve_parameters_ does not resolve {sorted(miss)}' if miss else '', rel, fn.lineno)
    # reading `repetitions` only as the default of replace() does not resolve it: the resolver must be applied to it
    applied = False
    for c in ast.walk(fn):
        if isinstance(c, ast.Call) and call_name(c) in ('value_of', 'resolve_parameters'):
            for a in list(c.args) + [k.value for k in c.keywords]:
                if any(isinstance(n, ast.Attribute) and n.attr in ('repetitions', '_repetitions') and isinstance(n.value, ast.Name) and n.value.id == 'self' for n in ast.walk(a)):
                    applied = True
    ctx.ob('C12.e', f'{CO}._resolve_parameters_:repetitions-resolved', applied,
           '' if applied else '_resolve_parameters_ never applies the resolver to `repetitions`: a symbolic repetition count stays symbolic after resolution', rel, fn.lineno)

    # ------------------------------------------------------------------ C12.h
    ctx.decided.append('C12.h every behaviour protocol of CircuitOperation depends on every field that changes that aspect of the flattened circuit')
    ctx.rule('C12.h', 'aspect coverage: the fields a behaviour protocol of CircuitOperation reads (through helpers and cached properties) include every '
             'field that changes that aspect of the flattened circuit - a protocol that never reads param_resolver answers for the unbound circuit', floor=10, style='COH')
    ASPECT = {
        '_unitary_': {'_circuit', '_repetitions', '_param_resolver'},
        '_has_unitary_': {'_circuit', '_param_resolver', '_repeat_until'},
        '_decompose_': {'_circuit', '_qubit_map', '_measurement_key_map', '_param_resolver', '_repetitions', '_parent_path', '_repetition_ids'},
        '_act_on_': {'_circuit', '_qubit_map', '_measurement_key_map', '_param_resolver', '_repetitions', '_parent_path', '_repetition_ids', '_repeat_until'},
        '_qid_shape_': {'_circuit', '_qubit_map'},
        '_measurement_key_objs_': {'_circuit', '_measurement_key_map', '_parent_path', '_repetition_ids', '_repetitions'},
        '_control_keys_': {'_circuit', '_measurement_key_map', '_parent_path', '_repeat_until'},
        '_parameter_names_': {'_circuit', '_param_resolver', '_repetitions', '_repeat_until'},
        '_is_parameterized_': {'_circuit', '_param_resolver', '_repetitions', '_repeat_until'},
        'mapped_circuit': {'_circuit', '_qubit_map', '_measurement_key_map', '_param_resolver', '_repetitions', '_parent_path', '_repetition_ids'},
    }
    for mn, need in ASPECT.items():
        fn = ci.methods.get(mn)
        if fn is None:
            continue
        rd = F.self_reads(repo, ci, fn, depth=8)
        miss = sorted(need - rd)
        ctx.ob('C12.h', f'{CO}.{mn}:aspect-fields', not miss,
               '' if not miss else f'{mn} never reads {miss}: its answer is that of the nested circuit without '
               f'{"the bound parameters" if "_param_resolver" in miss else "those maps"}, not of the flattened circuit', rel, fn.lineno)

    # ------------------------------------------------------------------ C12.i
    ctx.decided.append('C12.i the sign of `repetitions` (inversion of the nested circuit) is applied exactly once on every path that repeats the circuit')
    ctx.rule('C12.i', 'negative repetitions invert the circuit exactly once: a method that repeats/powers the already inverted mapped loop (_mapped_any_loop / '
             '_mapped_single_loop) uses abs(repetitions); a method that works on the raw nested circuit uses the signed count', floor=2, style='MPT')
    parents = ci.mod.parents()
    for mn, fn in ci.methods.items():
        if mn in ('_mapped_any_loop', '__init__', 'replace', '__repr__', '__str__', '_json_dict_', '_hash', '__eq__'):
            continue
        uses_mapped = any(isinstance(n, ast.Attribute) and n.attr in ('_mapped_any_loop', '_mapped_single_loop') for n in ast.walk(fn))
        uses_raw = any(isinstance(n, ast.Attribute) and n.attr in ('circuit', '_circuit') and isinstance(n.value, ast.Name) and n.value.id == 'self' for n in ast.walk(fn))
        counts = []
        # locals that stand for the repetition count, with or without its sign:  k = abs(self.repetitions)
        rep_locals = {}
        for st_ in ast.walk(fn):
            if isinstance(st_, ast.Assign) and len(st_.targets) == 1 and isinstance(st_.targets[0], ast.Name):
                occ = [x_ for x_ in ast.walk(st_.value) if isinstance(x_, ast.Attribute) and x_.attr in ('repetitions', '_repetitions')
                       and isinstance(x_.value, ast.Name) and x_.value.id == 'self']
                if occ:
                    inabs = any(isinstance(c_, ast.Call) and call_name(c_) == 'abs' and any(x_ is o_ for o_ in occ for x_ in ast.walk(c_)) for c_ in ast.walk(st_.value))
                    rep_locals[st_.targets[0].id] = inabs
        for n in ast.walk(fn):
            is_attr = isinstance(n, ast.Attribute) and n.attr in ('repetitions', '_repetitions') and isinstance(n.value, ast.Name) and n.value.id == 'self'
            is_loc = isinstance(n, ast.Name) and isinstance(n.ctx, ast.Load) and n.id in rep_locals
            if is_attr or is_loc:
                # arithmetic use: operand of * / ** or argument of matrix_power / range, possibly through cast()/abs()
                cur, in_abs, arith = n, (rep_locals[n.id] if is_loc else False), False
                while cur in parents:
                    p_ = parents[cur]
                    if isinstance(p_, ast.Call) and call_name(p_) == 'abs':
                        in_abs = True
                    elif isinstance(p_, ast.Call) and call_name(p_) in ('cast', 'int'):
                        pass
                    elif isinstance(p_, ast.BinOp) and isinstance(p_.op, (ast.Mult, ast.Pow)):
                        arith = True
                        break
                    elif isinstance(p_, ast.Call) and call_name(p_) in ('matrix_power', 'range'):
                        arith = True
                        break
                    else:
                        break
                    cur = p_
                if arith:
                    counts.append((n.lineno, in_abs))
        if not counts or not (uses_mapped or uses_raw):
            continue
        for line, in_abs in counts:
            if uses_mapped:
                ok = in_abs
                msg = f'{mn} repeats the mapped loop (already inverted for negative repetitions) by the signed count: the inversion is applied twice'
            else:
                ok = not in_abs
                msg = f'{mn} repeats the raw nested circuit by abs(repetitions): the inversion requested by a negative count is lost'
            ctx.ob('C12.i', f'{CO}.{mn}:repetition-sign', ok, '' if ok else msg, rel, line)

    # ------------------------------------------------------------------ C12.j
    ctx.decided.append('C12.j remapping the keys of a multi-key condition is a simultaneous substitution (interpreted on a two-key model for every map over three names)')
    ctx.rule('C12.j', 'simultaneous key substitution: SympyCondition under with_measurement_key_mapping(key_map) has keys (key_map(a), key_map(b)) for every key_map - a chain '
             'of one-key replacements on an accumulating value applies a later replacement to the image of an earlier one (the swap {a: b, b: a} gives a > a)', floor=9, style='FDX')
    import itertools as _it
    from .. import fdx
    sc = repo.cls('cirq.value.condition.SympyCondition')
    r_ = repo.find_method(sc, '_with_measurement_key_mapping_')
    if r_ is None:
        raise AnalysisError('SympyCondition._with_measurement_key_mapping_ vanished')
    owner_, fn_ = r_

    class Ex:
        """model of a sympy expression over key symbols: an ordered tuple of names"""
        def __init__(self, names):
            self.names = tuple(names)

        def subs(self, mapping, simultaneous=False):
            m = {str(k): str(v) for k, v in (mapping.items() if isinstance(mapping, dict) else mapping)}
            if simultaneous:
                return Ex(m.get(n_, n_) for n_ in self.names)
            cur = list(self.names)
            for k_, v_ in m.items():           # sympy applies the pairs one after the other
                cur = [v_ if n_ == k_ else n_ for n_ in cur]
            return Ex(cur)

        def xreplace(self, mapping):           # structural replacement: every node is looked up once
            m = {str(k): str(v) for k, v in mapping.items()}
            return Ex(m.get(n_, n_) for n_ in self.names)

    class Cm:
        def __init__(self, ex):
            self.expr = ex
            self.keys = tuple(dict.fromkeys(ex.names))

        def replace_key(self, cur, new):
            return Cm(self.expr.subs({str(cur): str(new)}))
    for img in _it.product('abc', repeat=2):
        km = {'a': img[0], 'b': img[1]}

        def call_hook(call, it, _km=km):
            s_ = ast.unparse(call.func)
            if s_.endswith('with_measurement_key_mapping') and len(call.args) == 2:
                return _km.get(str(it.ev(call.args[0])), str(it.ev(call.args[0])))
            if s_.endswith('Symbol') or s_ == 'str':
                return str(it.ev(call.args[0]))
            if s_.split('.')[-1] in ('SympyCondition', 'cls'):
                v = it.ev(call.args[0]) if call.args else it.ev(call.keywords[0].value)
                return Cm(v)
            return NotImplemented
        it = fdx.NumInterp({'self': Cm(Ex(('a', 'b'))), 'key_map': dict(km)}, call_hook=call_hook)
        base_attr = it.attr_hook

        def attr2(node, itp, _o=base_attr):
            if _o is not None:
                r0 = _o(node, itp)
                if r0 is not NotImplemented:
                    return r0
            try:
                v = itp.ev(node.value)
            except fdx.Unsupported:
                return NotImplemented
            if isinstance(v, (Cm, Ex)) and hasattr(v, node.attr):
                return getattr(v, node.attr)
            return NotImplemented
        it.attr_hook = attr2
        try:
            res = it.call(fn_)
        except fdx.Unsupported as ex:
            raise AnalysisError(f'{owner_.name}._with_measurement_key_mapping_ is outside the interpretable subset: {ex}')
        got = res.expr.names if isinstance(res, Cm) else None
        want = (km['a'], km['b'])
        ctx.ob('C12.j', f'cirq.value.condition.SympyCondition:key_map={km}', got == want,
               '' if got == want else f'`a > b` remapped with {km} becomes `{got[0] if got else None} > {got[1] if got else None}` instead of `{want[0]} > {want[1]}`',
               owner_.mod.rel, fn_.lineno, construct='cirq.value.condition.SympyCondition._with_measurement_key_mapping_')

    # the same for the two sibling rewrites: prefixing and rescoping (a key and its own prefixed form in one condition: `a > p:a` under prefix p)
    class K(str):
        def with_key_path_prefix(self, *path):
            return K(':'.join(list(path) + [str(self)]))
    for meth, want_names in (('_with_key_path_prefix_', ('p:a', 'p:p:a')), ('_with_rescoped_keys_', ('p:a', 'p:p:a'))):
        r2 = repo.find_method(sc, meth)
        if r2 is None:
            raise AnalysisError(f'SympyCondition.{meth} vanished')
        o2, f2 = r2
        me = Cm(Ex(('a', 'p:a')))
        me.keys = (K('a'), K('p:a'))

        def call_hook2(call, it):
            s_ = ast.unparse(call.func)
            if s_.endswith('with_key_path_prefix') and len(call.args) == 2 and not isinstance(call.func, ast.Attribute):
                return K(it.ev(call.args[0])).with_key_path_prefix(*it.ev(call.args[1]))
            if s_.endswith('mkp.with_key_path_prefix') and len(call.args) == 2:
                return K(it.ev(call.args[0])).with_key_path_prefix(*it.ev(call.args[1]))
            if s_.endswith('Symbol') or s_ == 'str':
                return str(it.ev(call.args[0]))
            if s_.split('.')[-1] in ('SympyCondition', 'cls'):
                v = it.ev(call.args[0]) if call.args else it.ev(call.keywords[0].value)
                return Cm(v)
            return NotImplemented
        params2 = [a.arg for a in f2.args.args]
        env2 = {params2[0]: me, params2[1]: ('p',)}
        if len(params2) > 2:
            env2[params2[2]] = frozenset([K('p:a'), K('p:p:a')])
        it = fdx.NumInterp(env2, call_hook=call_hook2)

        def attr3(node, itp):
            try:
                v = itp.ev(node.value)
            except fdx.Unsupported:
                return NotImplemented
            if isinstance(v, (Cm, Ex, K)) and hasattr(v, node.attr):
                return getattr(v, node.attr)
            return NotImplemented
        it.attr_hook = attr3
        it.builtins.update({'len': len, 'range': range})
        try:
            res = it.call(f2)
        except (fdx.Unsupported, fdx.Raised) as ex:
            raise AnalysisError(f'{o2.name}.{meth} is outside the interpretable subset: {ex}')
        got = res.expr.names if isinstance(res, Cm) else None
        ctx.ob('C12.j', f'cirq.value.condition.SympyCondition.{meth}:a>p:a', got == want_names, '' if got == want_names else
               f'`a > p:a` under path (p,) becomes `{got[0] if got else None} > {got[1] if got else None}` instead of `p:a > p:p:a`: a key replaced first is replaced again as if it were '
               'the other key', o2.mod.rel, f2.lineno, construct=f'cirq.value.condition.SympyCondition.{meth}')

    # sympy's `subs(..., simultaneous=True)` goes through products of dummy symbols and raises TypeError for Boolean expressions (`a & b | c & d`):
    # a condition may be one, so simultaneous rewriting has to be structural (xreplace)
    ctx.rule('C12.s', 'rewriting the symbols of a condition works for Boolean expressions: no call `.subs(..., simultaneous=True)` on an expression in cirq/value/condition.py - sympy '
             'implements it through arithmetic on dummy symbols, which a Boolean expression (`a & b | c & d`, a legal SympyCondition) rejects with TypeError; xreplace is simultaneous and '
             'structural', floor=1, style='EFF')
    cm_ = repo.module('cirq-core/cirq/value/condition.py')
    nsub = 0
    for c_ in ast.walk(cm_.tree):
        if isinstance(c_, ast.Call) and isinstance(c_.func, ast.Attribute) and c_.func.attr in ('subs', 'xreplace'):
            nsub += 1
            bad_ = c_.func.attr == 'subs' and any(k_.arg == 'simultaneous' and isinstance(k_.value, ast.Constant) and k_.value.value is True for k_ in c_.keywords)
            ctx.ob('C12.s', f'cirq.value.condition:{c_.func.attr}@{nsub}', not bad_, '' if not bad_ else
                   f'`{ast.unparse(c_)[:70]}` raises TypeError when the condition is a Boolean expression', cm_.rel, c_.lineno)
    if nsub == 0:
        raise AnalysisError('C12.s: no symbol substitution left in condition.py')

    # ------------------------------------------------------------------ C12.k
    ctx.decided.append('C12.k an operation cannot satisfy its own classical control: in AbstractCircuit._control_keys_ the keys an operation measures are added to the '
                       'measured set only after its control keys have been tested against that set')
    ctx.rule('C12.k', 'AbstractCircuit._control_keys_: inside the loop over operations the statement that tests `k not in <measured>` precedes the statement that adds '
             'measurement_key_objs(op) to <measured> (a nested operation that reads `a` and then re-measures `a` still needs the outer `a`)', floor=1, style='MPT')
    ac_ = repo.cls('cirq.circuits.circuit.AbstractCircuit')
    ck = ac_.methods.get('_control_keys_')
    if ck is None:
        raise AnalysisError('AbstractCircuit._control_keys_ vanished')
    loops_ = [l for l in ast.walk(ck) if isinstance(l, ast.For)]
    if not loops_:
        raise AnalysisError('AbstractCircuit._control_keys_: loop vanished')
    body_ = loops_[0].body
    upd = tst = None
    for i_, st in enumerate(body_):
        for c_ in ast.walk(st):
            if isinstance(c_, ast.Call) and call_name(c_) == 'measurement_key_objs' and upd is None:
                upd = i_
            if isinstance(c_, ast.Compare) and any(isinstance(o, ast.NotIn) for o in c_.ops) and tst is None:
                tst = i_
    ok = upd is not None and tst is not None and tst < upd
    ctx.ob('C12.k', f'{ac_.qual}._control_keys_:test-before-record', ok, '' if ok else 'the measured-keys set already contains the keys of the operation whose controls are being '
           'tested: a sub-circuit that reads key a from outside and then measures a itself reports no external control', ac_.mod.rel, ck.lineno)
    _scope_and_map_rules(ctx, repo)
    _key_protocol_siblings(ctx, repo)


def _is_carrying(v, ci, builders, params, assigned, depth=0):
    """Is expression v a CircuitOperation that carries all fields of self?"""
    if isinstance(v, ast.Name):
        if v.id == 'self':
            return True, ''
        if v.id in assigned and depth < 3:
            res = [_is_carrying(x, ci, builders, params, assigned, depth + 1) for x in assigned[v.id]]
            bad = [w for ok, w in res if not ok]
            return (not bad, bad[0] if bad else '')
        return False, 'is an unknown local'
    if isinstance(v, ast.IfExp):
        a = _is_carrying(v.body, ci, builders, params, assigned, depth)
        b = _is_carrying(v.orelse, ci, builders, params, assigned, depth)
        return (a[0] and b[0], a[1] or b[1])
    if isinstance(v, ast.Call):
        f = v.func
        if isinstance(f, ast.Attribute) and (f.attr == 'replace' or f.attr in builders):
            return _is_carrying(f.value, ci, builders, params, assigned, depth)
        if isinstance(f, ast.Name) and f.id in ('CircuitOperation', 'cls') or (isinstance(f, ast.Attribute) and f.attr == 'CircuitOperation'):
            bound, opaque = coh.bind_call(v, params)
            miss = [p for p in params if p not in bound and p not in EQ_EXEMPT]
            if opaque:
                return True, ''
            return (not miss, f'constructs a CircuitOperation without {miss}')
    return False, 'is not built from self via replace()'


def _scope_and_map_rules(ctx, repo):
    """C12.l / C12.m - interpretation of the two small functions that decide (l) which measurement a control key binds to and (m) how qubit maps compose."""
    import itertools
    from .. import fdx
    ctx.decided += [
        'C12.l Condition._with_rescoped_keys_ binds each control key to the innermost enclosing scope that measures it (interpreted over all subsets of bindable scopes, depth <= 3)',
        'C12.m CircuitOperation.with_qubit_mapping composes the given map with the stored one: result == {q: new(old(q)) if that differs from q} for every pair of model maps on 3 qubits',
    ]
    # ------------------------------------------------------------------ C12.l
    ctx.rule('C12.l', 'innermost binding: interpreting Condition._with_rescoped_keys_ with path (r, s, t) and every subset of {m, r:m, r:s:m, r:s:t:m} as the bindable keys, the key m is '
             'replaced by the bindable key with the longest path prefix, and left alone when none is bindable', floor=16, style='FDX')
    cfn = repo.method('cirq.value.condition.Condition', '_with_rescoped_keys_')
    params = [a.arg for a in cfn.args.args]
    if len(params) != 3:
        raise AnalysisError('Condition._with_rescoped_keys_: signature changed')
    P_PATH, P_BIND = params[1], params[2]

    class Key:
        def __init__(self, path, name='m'):
            self.path, self.name = tuple(path), name

        def __eq__(self, o):
            return isinstance(o, Key) and (self.path, self.name) == (o.path, o.name)

        def __hash__(self):
            return hash((self.path, self.name))

        def with_key_path_prefix(self, *pfx):
            return Key(tuple(pfx) + self.path, self.name)

    class Cond:
        def __init__(self, keys):
            self.keys = tuple(keys)

        def replace_key(self, old, new):
            return Cond(tuple(new if k == old else k for k in self.keys))
    def model_attr(*classes):
        def hook(node, it):
            try:
                v = it.ev(node.value)
            except fdx.Unsupported:
                return NotImplemented
            if isinstance(v, classes) and hasattr(v, node.attr):
                return getattr(v, node.attr)
            return NotImplemented
        return hook
    full = ('r', 's', 't')
    for depth in (1, 2, 3):
        path = full[:depth]
        scopes = [path[:j] for j in range(depth + 1)]
        for r in range(len(scopes) + 1):
            for sub in itertools.combinations(scopes, r):
                bind = frozenset(Key(p) for p in sub)
                it = fdx.NumInterp({params[0]: Cond([Key(())]), P_PATH: path, P_BIND: bind}, attr_hook=model_attr(Key, Cond))
                it.builtins.update({'len': len, 'range': range, 'tuple': tuple})
                try:
                    res = it.call(cfn)
                except (fdx.Unsupported, fdx.Raised) as ex:
                    raise AnalysisError(f'Condition._with_rescoped_keys_ not interpretable: {ex}')
                want = Key(max(sub, key=len)) if sub else Key(())
                got = res.keys[0] if isinstance(res, Cond) else None
                ok = got == want
                ctx.ob('C12.l', f'cirq.value.condition.Condition._with_rescoped_keys_:path={":".join(path)}:bindable={sorted(":".join(p) for p in sub)}', ok, '' if ok else
                       f'inside scope {":".join(path)} with measurements of m in scopes {[":".join(p) or "<top>" for p in sub]}, the control key binds to '
                       f'{":".join(got.path + (got.name,)) if got else got!r} instead of the nearest enclosing one {":".join(want.path + (want.name,))}', 'cirq-core/cirq/value/condition.py', cfn.lineno)

    # ------------------------------------------------------------------ C12.m
    ctx.rule('C12.m', 'map composition: interpreting CircuitOperation.with_qubit_mapping on a model operation over qubits a,b,c with every stored map and every new map drawn from a family of '
             '7 maps (identity, moves, swaps, cycle, move-to-fresh), the qubit_map handed to replace() is exactly {q: new(old(q))} restricted to the qubits it moves', floor=40, style='FDX')
    co = repo.cls('cirq.circuits.circuit_operation.CircuitOperation')
    wfn = repo.method(co.qual, 'with_qubit_mapping')
    wp = [a.arg for a in wfn.args.args]

    class Q:
        def __init__(self, n):
            self.n, self.dimension = n, 2

        def __repr__(self):
            return self.n
    a, b, c, d = Q('a'), Q('b'), Q('c'), Q('d')
    fam = [{}, {a: b, b: a}, {a: d}, {d: a}, {a: b, b: c, c: a}, {b: c, c: b}, {a: a}]

    class Circ:
        def all_qubits(self):
            return frozenset([a, b, c])

    class Op:
        def __init__(self, qmap):
            self.qubit_map = dict(qmap)
            self.circuit = Circ()

        @property
        def qubits(self):
            return tuple(self.qubit_map.get(q, q) for q in (a, b, c))

        def replace(self, **kw):
            return Op(kw['qubit_map'])
    for i, old in enumerate(fam):
        if len({old.get(q, q) for q in (a, b, c)}) != 3:
            continue
        for j, new in enumerate(fam):
            want = {q: new.get(old.get(q, q), old.get(q, q)) for q in (a, b, c)}
            want = {q: v for q, v in want.items() if v is not q}
            if len({want.get(q, q) for q in (a, b, c)}) != 3:
                continue  # collision: the function raises, nothing to compare
            it = fdx.NumInterp({wp[0]: Op(old), wp[1]: new}, attr_hook=model_attr(Op, Q, Circ))
            it.builtins.update({'len': len, 'set': set, 'callable': callable, 'dict': dict, 'isinstance': isinstance})
            try:
                res = it.call(wfn)
            except fdx.Unsupported as ex:
                raise AnalysisError(f'CircuitOperation.with_qubit_mapping not interpretable: {ex}')
            except fdx.Raised as ex:
                res = f'raises: {str(ex)[:60]}'
            got = res.qubit_map if isinstance(res, Op) else res
            ok = got == want
            ctx.ob('C12.m', f'{co.qual}.with_qubit_mapping:old#{i}:new#{j}', ok, '' if ok else
                   f'stored map {old} followed by {new} must give {want}; the operation is rebuilt with {got} (remapping twice is not the same as remapping once with the composition)',
                   co.mod.rel, wfn.lineno)


def _key_protocol_siblings(ctx, repo):
    """C12.n - the three key-rewriting protocols travel together."""
    ctx.decided.append('C12.n every class that rewrites measurement keys under key mapping (_with_measurement_key_mapping_) also rewrites them under path prefixing and rescoping '
                       '(_with_key_path_prefix_, _with_rescoped_keys_): a wrapper that forwards only one of them leaves its contents unscoped inside repeated sub-circuits')
    ctx.rule('C12.n', 'key protocols come as a set: each class of cirq (outside testing and the protocol documentation classes) that defines _with_measurement_key_mapping_ has - itself or '
             'through its bases - _with_key_path_prefix_ and _with_rescoped_keys_', floor=10, style='COH')
    n = 0
    for ci in sorted(repo.classes.values(), key=lambda c: c.qual):
        if ci.mod.rel.endswith('_test.py') or '.testing.' in ci.qual or ci.name.startswith('Supports'):
            continue
        if '_with_measurement_key_mapping_' not in ci.methods:
            continue
        n += 1
        have = set()
        for k in repo.mro(ci):
            have |= set(k.methods)
        miss = [p for p in ('_with_key_path_prefix_', '_with_rescoped_keys_') if p not in have]
        ctx.ob('C12.n', f'{ci.qual}:key-protocol-set', not miss, '' if not miss else
               f'{ci.name} maps measurement keys but has no {miss}: inside a CircuitOperation with repetition ids or a parent path its keys stay unscoped, so the operation reports other keys '
               'than its unrolled circuit records', ci.mod.rel, ci.node.lineno)
    if n == 0:
        raise AnalysisError('C12.n: no class with _with_measurement_key_mapping_ found')


# ---------------------------------------------------------------------------------------------------------------------
def _terminal_queries_use_mapped_circuit(ctx, repo):
    """C12.p - questions a circuit answers about itself (are all / any matches terminal) descend into the circuit a sub-circuit operation stands for."""
    ctx.decided.append('C12.p the terminal-measurement queries of AbstractCircuit (and the helper they share) read the body of a CircuitOperation only through mapped_circuit(): the qubit map '
                       'and the repetitions decide whether something follows a measurement')
    ctx.rule('C12.p', 'wrapped == unrolled for terminal queries: in AbstractCircuit.are_all_matches_terminal / are_any_matches_terminal and the module-level helpers they call, the raw body '
             '(`.circuit` / getattr(x, "circuit")) of an operation is read only where the operation is known not to be a CircuitOperation (negative isinstance guard); for a '
             'CircuitOperation the sub-circuit examined is the result of mapped_circuit()', floor=2, style='RG')
    from ..flow import dominating_atoms
    m = repo.module('cirq-core/cirq/circuits/circuit.py')
    ac = repo.cls('cirq.circuits.circuit.AbstractCircuit')
    par = m.parents()
    fns = []
    for mn in ('are_all_matches_terminal', 'are_any_matches_terminal'):
        fn = ac.methods.get(mn)
        if fn is None:
            raise AnalysisError(f'AbstractCircuit.{mn} vanished')
        fns.append(fn)
    # module-level helpers called by them
    for fn in list(fns):
        for c in ast.walk(fn):
            if isinstance(c, ast.Call) and isinstance(c.func, ast.Name) and isinstance(m.defs.get(c.func.id), ast.FunctionDef) and m.defs[c.func.id] not in fns:
                fns.append(m.defs[c.func.id])
    for fn in fns:
        raw = []
        for n in ast.walk(fn):
            if isinstance(n, ast.Attribute) and n.attr == 'circuit' and isinstance(n.ctx, ast.Load) and not (isinstance(n.value, ast.Name) and n.value.id == 'self'):
                raw.append(n)
            if isinstance(n, ast.Call) and call_name(n) == 'getattr' and len(n.args) >= 2 and isinstance(n.args[1], ast.Constant) and n.args[1].value == 'circuit':
                raw.append(n)
        mapped = [c for c in ast.walk(fn) if isinstance(c, ast.Call) and isinstance(c.func, ast.Attribute) and c.func.attr == 'mapped_circuit']
        descends = bool(raw or mapped or any(isinstance(c, ast.Call) and isinstance(c.func, ast.Name) and m.defs.get(c.func.id) in fns for c in ast.walk(fn)))
        if not descends:
            ctx.ob('C12.p', f'cirq.circuits.circuit.{fn.name}:descends', False, 'the query no longer looks inside sub-circuit operations at all', m.rel, fn.lineno)
            continue
        bad = []
        for n in raw:
            guarded = False
            for a, pol in dominating_atoms(par, n, fn):
                if isinstance(a, ast.Call) and call_name(a) == 'isinstance' and 'CircuitOperation' in ast.unparse(a.args[1]) and not pol:
                    guarded = True
            if not guarded:
                bad.append(n)
        ctx.ob('C12.p', f'cirq.circuits.circuit.{fn.name}:body-access', not bad, '' if not bad else
               f'`{ast.unparse(bad[0])[:60]}` reads the body of a possible CircuitOperation as written: its qubit map and repetitions are ignored, so a measurement that is followed by '
               'another pass of the loop, or by an operation on the mapped qubit, counts as terminal', m.rel, bad[0].lineno if bad else fn.lineno)


def _unitary_fast_path_arity(ctx, repo):
    """C12.q - the single-qubit fast path of CircuitOperation._unitary_ copes with operations on no qubits."""
    ctx.decided.append('C12.q CircuitOperation._unitary_ brings the matrices of the body to one dimension before it multiplies them (a global phase inside the body is a 1x1 factor)')
    ctx.rule('C12.q', 'one dimension for all factors: in CircuitOperation._unitary_ the list of per-operation matrices that is reduced with np.dot / @ is first rebuilt by an expression that '
             'looks at each matrix\'s `.shape` (so that a zero-qubit operation enters as a scalar), or zero-qubit operations are excluded by a guard', floor=1, style='RG')
    ci = repo.cls('cirq.circuits.circuit_operation.CircuitOperation')
    fn = ci.methods.get('_unitary_')
    if fn is None:
        raise AnalysisError('CircuitOperation._unitary_ vanished')
    mats = None
    for a in ast.walk(fn):
        if isinstance(a, ast.Assign) and isinstance(a.targets[0], ast.Name) and isinstance(a.value, (ast.ListComp, ast.GeneratorExp)) \
                and any(isinstance(c, ast.Call) and (call_name(c) or '').split('.')[-1] == 'unitary' for c in ast.walk(a.value)):
            mats = a.targets[0].id
    if mats is None:
        raise AnalysisError('CircuitOperation._unitary_: list of per-operation matrices not found')
    norm = any(isinstance(a, ast.Assign) and isinstance(a.targets[0], ast.Name) and a.targets[0].id == mats and isinstance(a.value, (ast.ListComp, ast.GeneratorExp))
               and any(isinstance(x, ast.Attribute) and x.attr == 'shape' for x in ast.walk(a.value)) and any(isinstance(x, ast.Name) and x.id == mats for x in ast.walk(a.value))
               for a in ast.walk(fn))
    guard = any(isinstance(i_, ast.If) and 'num_qubits' in ast.unparse(i_.test) and any(isinstance(s_, ast.Return) for s_ in i_.body) for i_ in ast.walk(fn))
    ok = norm or guard
    ctx.ob('C12.q', f'{ci.qual}._unitary_:factor-dimensions', ok, '' if ok else
           f'the matrices in `{mats}` are multiplied as they come: a global phase operation in the body is 1x1 and the product with a 2x2 matrix raises, although has_unitary(op) is True '
           'and the unrolled circuit has a unitary', ci.mod.rel, fn.lineno)


def _rescoping_by_interpretation(ctx, repo):
    """C12.r - what a moment / sub-circuit may bind to while keys are re-scoped: only what was measured before it, in an enclosing scope."""
    from .. import fdx
    ctx.decided.append('C12.r AbstractCircuit._with_rescoped_keys_ hands each moment the keys measured in earlier moments only (never those of later ones), and '
                       'CircuitOperation._with_rescoped_keys_ keeps of the enclosing keys those whose path is no longer than the path of the enclosing scope and records '
                       'path + parent_path as its new parent path (both interpreted on model keys)')
    ctx.rule('C12.r', 'binding follows program order and scope: interpreting AbstractCircuit._with_rescoped_keys_ on three model moments, the bindable keys given to moment i are the initial '
             'ones plus the (re-scoped) keys of moments 0..i-1; interpreting CircuitOperation._with_rescoped_keys_ on model key sets, extern_keys = {k in bindable: len(k.path) <= '
             'len(path)} + the re-prefixed old extern keys and parent_path = path + self.parent_path - a control otherwise binds to a later measurement of the same name, or to the '
             'key of a finished sibling sub-circuit', floor=8, style='FDX')

    class K:
        def __init__(self, path, name):
            self.path, self.name = tuple(path), name

        def with_key_path_prefix(self, *p):
            return K(tuple(p) + self.path, self.name)

        def __eq__(self, o):
            return isinstance(o, K) and (self.path, self.name) == (o.path, o.name)

        def __hash__(self):
            return hash((self.path, self.name))

        def __repr__(self):
            return ':'.join(self.path + (self.name,))

    class M:
        def __init__(self, keys):
            self.keys = frozenset(keys)

    def common_attr(node, it):
        try:
            v = it.ev(node.value)
        except fdx.Unsupported:
            return NotImplemented
        if isinstance(v, K) and node.attr in ('path', 'name', 'with_key_path_prefix'):
            return getattr(v, node.attr)
        return NotImplemented
    # ---- AbstractCircuit
    ac = repo.cls('cirq.circuits.circuit.AbstractCircuit')
    fn = ac.methods.get('_with_rescoped_keys_')
    if fn is None:
        raise AnalysisError('AbstractCircuit._with_rescoped_keys_ vanished')
    for path in (('r',), ('r', 's'), ()):
        moments = [M([K((), 'a')]), M([]), M([K((), 'a'), K((), 'b')])]
        init = frozenset([K((), 'x')])
        seen = []

        def call_hook(call, it, path=path, seen=seen, moments=moments):
            s_ = ast.unparse(call.func)
            last = s_.split('.')[-1]
            if last == 'with_rescoped_keys':
                m_ = it.ev(call.args[0])
                b_ = frozenset(it.ev(call.args[2]))
                seen.append((m_, b_))
                return M([k.with_key_path_prefix(*it.ev(call.args[1])) for k in m_.keys])
            if last == 'measurement_key_objs':
                v = it.ev(call.args[0])
                return frozenset(v.keys) if isinstance(v, M) else frozenset()
            if last in ('all_measurement_key_objs', '_all_measurement_key_objs'):
                return frozenset(k for m_ in moments for k in m_.keys)
            if last == '_from_moments':
                return list(it.ev(call.args[0]))
            return NotImplemented
        params = [a.arg for a in fn.args.args]
        it = fdx.NumInterp({params[0]: {'moments': moments, '_moments': moments, 'tags': ()}, params[1]: path, params[2]: init}, call_hook=call_hook, attr_hook=common_attr)
        it.builtins.update({'frozenset': frozenset})
        try:
            it.call(fn)
        except (fdx.Unsupported, fdx.Raised) as ex:
            raise AnalysisError(f'AbstractCircuit._with_rescoped_keys_ is outside the interpretable subset: {ex}')
        by_m = {id(m_): b_ for m_, b_ in seen}
        for i, m_ in enumerate(moments):
            want = set(init)
            for e in moments[:i]:
                want |= {k.with_key_path_prefix(*path) for k in e.keys}
            got = by_m.get(id(m_))
            ok = got is not None and set(got) == want
            ctx.ob('C12.r', f'{ac.qual}._with_rescoped_keys_:path={path}:moment{i}', ok, '' if ok else
                   f'moment {i} is re-scoped with bindable keys {sorted(map(repr, got or []))}, expected {sorted(map(repr, want))}: keys measured in the same or a later moment must not be '
                   'offered (a control would bind to a measurement that has not happened yet)', ac.mod.rel, fn.lineno, construct=f'{ac.qual}._with_rescoped_keys_')
    # ---- Moment: the operations of one moment are applied in order, so operation j may bind to what operations 0..j-1 of the same moment measure
    mo = repo.cls('cirq.circuits.moment.Moment')
    fnm = mo.methods.get('_with_rescoped_keys_')
    if fnm is None:
        raise AnalysisError('Moment._with_rescoped_keys_ vanished')
    for path in (('r',), ()):
        opsm = [M([K((), 'k')]), M([]), M([K((), 'j')])]
        init = frozenset([K((), 'x')])
        seen = []

        def call_hook_m(call, it, path=path, seen=seen):
            last = ast.unparse(call.func).split('.')[-1]
            if last == 'with_rescoped_keys':
                m_ = it.ev(call.args[0])
                seen.append((m_, frozenset(it.ev(call.args[2]))))
                return M([k.with_key_path_prefix(*it.ev(call.args[1])) for k in m_.keys])
            if last == 'measurement_key_objs':
                v = it.ev(call.args[0])
                return frozenset(v.keys) if isinstance(v, M) else frozenset()
            if last in ('Moment', 'cls', 'type'):
                return list(it.ev(call.args[0])) if call.args else []
            return NotImplemented
        pm = [a.arg for a in fnm.args.args]
        it = fdx.NumInterp({pm[0]: {'operations': tuple(opsm), '_operations': tuple(opsm)}, pm[1]: path, pm[2]: init}, call_hook=call_hook_m, attr_hook=common_attr)
        it.builtins.update({'frozenset': frozenset})
        try:
            it.call(fnm)
        except (fdx.Unsupported, fdx.Raised) as ex:
            raise AnalysisError(f'Moment._with_rescoped_keys_ is outside the interpretable subset: {ex}')
        by_o = {id(m_): b_ for m_, b_ in seen}
        for j, o_ in enumerate(opsm):
            want = set(init)
            for e in opsm[:j]:
                want |= {k.with_key_path_prefix(*path) for k in e.keys}
            got = by_o.get(id(o_))
            ok = got is not None and set(got) == want
            ctx.ob('C12.r', f'{mo.qual}._with_rescoped_keys_:path={path}:operation{j}', ok, '' if ok else
                   f'operation {j} of the moment is re-scoped with bindable keys {sorted(map(repr, got or []))}, expected {sorted(map(repr, want))}: the operations of a moment run in order, '
                   'so a control may read the measurement that precedes it in the same moment (and nothing that follows it)', mo.mod.rel, fnm.lineno, construct=f'{mo.qual}._with_rescoped_keys_')
    # ---- CircuitOperation
    co = repo.cls('cirq.circuits.circuit_operation.CircuitOperation')
    fn2 = co.methods.get('_with_rescoped_keys_')
    if fn2 is None:
        raise AnalysisError('CircuitOperation._with_rescoped_keys_ vanished')
    for path, parent in ((('r',), ('p',)), (('r',), ()), ((), ('p', 'q')), (('r', 's'), ('p',))):
        bindable = frozenset([K((), 'a'), K(('r',), 'a'), K(('r', 'p'), 'a'), K(('r', 's', 't'), 'b'), K(('z',), 'c')])
        extern = frozenset([K((), 'e')])
        got = {}

        def call_hook2(call, it, got=got):
            s_ = ast.unparse(call.func)
            if s_.endswith('.replace') or s_ == 'replace':
                for k_ in call.keywords:
                    got[k_.arg] = it.ev(k_.value)
                return 'OP'
            return NotImplemented
        params = [a.arg for a in fn2.args.args]
        it = fdx.NumInterp({params[0]: {'parent_path': parent, '_parent_path': parent, '_extern_keys': extern, 'extern_keys': extern}, params[1]: path, params[2]: bindable},
                           call_hook=call_hook2, attr_hook=common_attr)
        it.builtins.update({'frozenset': frozenset})
        try:
            it.call(fn2)
        except (fdx.Unsupported, fdx.Raised) as ex:
            raise AnalysisError(f'CircuitOperation._with_rescoped_keys_ is outside the interpretable subset: {ex}')
        want_keys = {k for k in bindable if len(k.path) <= len(path)} | {k.with_key_path_prefix(*path) for k in extern}
        ok1 = tuple(got.get('parent_path', ())) == tuple(path) + tuple(parent)
        ok2 = set(got.get('extern_keys', ())) == want_keys
        ctx.ob('C12.r', f'{co.qual}._with_rescoped_keys_:path={path}:parent={parent}', ok1 and ok2, '' if (ok1 and ok2) else
               (f'parent_path becomes {got.get("parent_path")} (expected {tuple(path) + tuple(parent)})' if not ok1 else
                f'extern keys become {sorted(map(repr, got.get("extern_keys", ())))}, expected {sorted(map(repr, want_keys))}: keys of scopes deeper than the enclosing one belong to '
                'finished sibling sub-circuits and must not be bindable'), co.mod.rel, fn2.lineno, construct=f'{co.qual}._with_rescoped_keys_')


def _control_keys_from_scoped_body(ctx, repo, rid='C12.t'):
    """CircuitOperation reports the control keys of its *scoped* body (key paths applied), like the unrolled form has them."""
    ci = repo.cls('cirq.circuits.circuit_operation.CircuitOperation')
    ctx.decided.append(f'{rid} CircuitOperation._control_keys takes the keys from the body after qubit / key mapping *and* key-path scoping (the single-loop form), not from the unscoped mapped body')
    ctx.rule(rid, 'control keys of a sub-circuit are scoped keys: every `control_keys(<x>)` in CircuitOperation._control_keys whose argument is not the raw `self.circuit` (the cheap '
             '"are there any" test) is applied to the scoped body - a call of _mapped_single_loop(...) (repetition id / parent path prefixed, keys re-bound) - never to _mapped_any_loop, '
             'which carries no key paths: a nested operation that reads `0:b` would report `b` and be scheduled before the measurement it depends on', floor=1, style='RG')
    fn = ci.methods.get('_control_keys')
    if fn is None:
        raise AnalysisError('CircuitOperation._control_keys vanished')
    n = 0
    for c in ast.walk(fn):
        if not (isinstance(c, ast.Call) and call_name(c).split('.')[-1] == 'control_keys' and c.args):
            continue
        a = c.args[0]
        if ast.unparse(a) in ('self.circuit', 'self._circuit'):
            continue
        n += 1
        src = ast.unparse(a)
        # follow one local
        if isinstance(a, ast.Name):
            for st in ast.walk(fn):
                if isinstance(st, ast.Assign) and any(isinstance(t, ast.Name) and t.id == a.id for t in st.targets):
                    src = ast.unparse(st.value)
        ok = '_mapped_single_loop' in src
        ctx.ob(rid, f'{ci.qual}._control_keys:source@{n}', ok, '' if ok else
               f'`{ast.unparse(c)[:70]}` reads the control keys of `{src[:40]}`, which has no key paths applied: the keys reported differ from those of the unrolled operation', ci.mod.rel, c.lineno)
    if n == 0:
        raise AnalysisError(f'{rid}: _control_keys no longer asks a mapped body for its control keys')
