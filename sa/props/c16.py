"""C16 - Google wire formats round-trip programs, sweeps, results and devices.

Decided: writer (`_serialize_gate_op`), reader (`_deserialize_gate_op`) and program.proto
agree on every gate kind and sub-field; attribute written == keyword passed back; no class
is shadowed by a base class in the writer's isinstance chain; tags / sweeps / args tables
agree between writer and reader; constants are appended and indexed on the same path.
Not decided: float32 rounding, bit packing arithmetic, device-spec semantics.
"""
from __future__ import annotations

import ast

from ..core import AnalysisError, ClassInfo, FuncInfo, call_name, dotted, kwarg, walk_local
from ..flow import conjuncts, dominating_atoms
from .. import chains, coh, proto
from .. import fields as F
from . import shared

SER = 'cirq-google/cirq_google/serialization/circuit_serializer.py'
PROGRAM_PROTO = 'cirq-google/cirq_google/api/v2/program.proto'
RUNCTX_PROTO = 'cirq-google/cirq_google/api/v2/run_context.proto'

# schema gate kinds that are read but intentionally not written by the current writer
READ_ONLY_KINDS = {}
# (class, constructor parameter) the writer may leave out, with reason
ATTR_EXEMPT = {
    '*:global_shift': "the property allows exactly this normalisation ('a gate's global phase is the only semantic detail allowed to be normalised')",
    '*:num_qubits': 'equals the number of qubits of the operation, which is serialised with the operation and passed back by the reader',
    '*:n_qubits': 'equals the number of qubits of the operation (written as num_qubits from len(op.qubits))',
    '*:qid_shape': 'non-qubit shapes are rejected when the qubits are serialised; classes with a schema field for it write it explicitly',
    '*:dimension': 'qudit variants are rejected when their qubits are serialised (qubit_to_proto_id handles qubits only)',
}


def _gate_classes(repo):
    g = repo.cls('cirq.ops.raw_types.Gate')
    return g


def run(ctx):
    repo = ctx.repo
    _integers_not_narrowed(ctx, repo)
    _sibling_constructions(ctx, repo)
    _common_unit(ctx, repo)
    _stripped_tags(ctx, repo)
    _sweep_subclass_shadowing(ctx, repo)
    _exhaustive_match(ctx, repo)
    ctx.decided += [
        'C16.a gate kinds: writer fields within the schema, every schema kind has reader and writer, class written == class rebuilt, '
        'sub-fields written are read, attribute written flows back into the same-named constructor keyword',
        'C16.b no gate class is shadowed by one of its base classes in the writer dispatch order',
        'C16.c tag / sweep / arg writer and reader tables agree with each other and with the schema',
        'C16.d constants table: every append is paired with its index registration on the same path',
        'C16.e attribute coverage: every state-backing constructor parameter of a written class is written or rejected',
    ]
    ctx.not_decided += ['float32 rounding of arguments', 'bit-packing arithmetic of results', 'device specification semantics',
                        'v1 format']
    m = repo.module(SER)
    ci = repo.cls('cirq_google.serialization.circuit_serializer.CircuitSerializer')
    wfn = repo.method(ci.qual, '_serialize_gate_op')
    rfn = repo.method(ci.qual, '_deserialize_gate_op')
    msgs = proto.parse(repo.read_text(PROGRAM_PROTO))
    op_msg = msgs.get('Operation')
    if op_msg is None or 'gate_value' not in op_msg.oneofs:
        raise AnalysisError('program.proto: Operation.gate_value oneof vanished')
    kinds = op_msg.oneofs['gate_value']
    Gate = _gate_classes(repo)

    # ---------------------------------------------------------------- writer
    wstart = chains.longest_chain(wfn, lambda t: chains.isinstance_classes(t) is not None)
    if wstart is None:
        raise AnalysisError('_serialize_gate_op: isinstance chain over the gate classes vanished')
    GATE = chains.test_subject(wstart.test)        # the local holding op.gate, whatever it is called
    wbranches = []
    for test, body in chains.if_chain(wstart):
        if test is None:
            wbranches.append((None, [], body))
            continue
        cls_nodes = chains.isinstance_classes(test, GATE)
        if cls_nodes is None:
            raise AnalysisError(f'_serialize_gate_op: unrecognised branch test `{ast.unparse(test)}`')
        classes = []
        for cn in cls_nodes:
            r = repo.resolve_in_func(m, wfn, dotted(cn))
            if not isinstance(r, ClassInfo):
                ctx.unres('C16.a', f'writer:{ast.unparse(cn)}', 'class does not resolve', m.rel, test.lineno)
                continue
            classes.append(r)
        wbranches.append((test, classes, body))

    # ---------------------------------------------------------------- reader
    rstart = chains.longest_chain(rfn, lambda t: chains.eq_const(t) is not None)
    if rstart is None:
        raise AnalysisError('_deserialize_gate_op: chain over the oneof kind vanished')
    WHICH = chains.test_subject(rstart.test)
    rbranches = {}
    r_else = None
    for test, body in chains.if_chain(rstart):
        if test is None:
            r_else = body
            continue
        k = chains.eq_const(test, WHICH)
        if k is None:
            raise AnalysisError(f'_deserialize_gate_op: unrecognised branch test `{ast.unparse(test)}`')
        rbranches[k] = (test, body)

    ctx.rule('C16.a', 'gate kinds: (1) written oneof field in schema; (2) every schema kind has a reader branch and a writer branch; '
             '(3) reader rebuilds the class(es) the writer stored under that kind; (4) written sub-fields exist in the schema message '
             'and are read back; (5) gate attribute a written to sub-field s is passed back as keyword a; (6) unknown kinds raise',
             floor=90, style='WR')
    written_kinds = {}
    written_subs = {}
    read_subs = {}
    pairs_w = {}  # kind -> {subfield path: attr}
    for test, classes, body in wbranches:
        if test is None:
            ok = any(isinstance(s, ast.Raise) for s in body)
            ctx.ob('C16.a', 'writer:else-raises', ok, '' if ok else 'unsupported gates fall through silently instead of raising ValueError', m.rel, wfn.lineno)
            continue
        paths = []
        for st in body:
            paths += chains.attr_paths(st, 'msg')
        fset = {p[0] for p, _ in paths if p}
        line = test.lineno
        cname = '|'.join(c.name for c in classes)
        if len(fset) != 1:
            ctx.ob('C16.a', f'writer:{cname}:one-kind', False, f'branch writes kinds {sorted(fset)} (expected exactly one)', m.rel, line)
            continue
        kind = next(iter(fset))
        ctx.ob('C16.a', f'writer:{cname}:kind-in-schema', kind in kinds, '' if kind in kinds else f'writes `msg.{kind}` which is not in Operation.gate_value', m.rel, line)
        if kind not in kinds:
            continue
        written_kinds.setdefault(kind, []).extend(classes)
        sub_msg = proto.find(msgs, op_msg.fields[kind]['type'])
        subs = _subpaths(paths, kind)
        for sp in sorted(subs):
            ok = _path_in_schema(msgs, sub_msg, sp)
            ctx.ob('C16.a', f'writer:{cname}:{kind}.{".".join(sp)}:in-schema', ok,
                   '' if ok else f'sub-field `{".".join(sp)}` is not a field of message {sub_msg.name if sub_msg else "?"}', m.rel, line)
        pairs_w.setdefault(kind, {}).update(_writer_pairs(body, kind, GATE))
        # sub-fields read back
        if kind in rbranches:
            rpaths = []
            for st in chains.inline_aliases(rbranches[kind][1], 'operation_proto'):   # a named sub-message (pulse = operation_proto.couplerpulsegate) reads the same fields
                rpaths += chains.attr_paths(st, 'operation_proto')
            rsubs = _subpaths(rpaths, kind)
            for sp in sorted(subs):
                ok = any(rs[:len(sp)] == sp or sp[:len(rs)] == rs for rs in rsubs) or _recursive_reader(rbranches[kind][1], kind, sp)
                ctx.ob('C16.a', f'{kind}.{".".join(sp)}:written-is-read', ok,
                       '' if ok else f'`{kind}.{".".join(sp)}` is written for {cname} but the reader never looks at it', m.rel, line)
            written_subs.setdefault(kind, set()).update(subs)
            read_subs[kind] = rsubs
    for kind, rsubs in sorted(read_subs.items()):
        if kind == 'internalgate':
            continue
        ws = written_subs.get(kind, set())
        for rs in sorted(rsubs):
            ok = any(w[:1] == rs[:1] for w in ws)
            ctx.ob('C16.a', f'{kind}.{".".join(rs)}:read-is-written', ok,
                   '' if ok else f'the reader takes `{kind}.{rs[0]}` from the message but the writer never fills it: that part of the gate is lost',
                   m.rel, rbranches[kind][0].lineno)
    for kind in kinds:
        ctx.ob('C16.a', f'reader:{kind}:branch', kind in rbranches, '' if kind in rbranches else f'schema kind `{kind}` has no reader branch', m.rel, rfn.lineno)
        okw = kind in written_kinds or kind in READ_ONLY_KINDS
        ctx.ob('C16.a', f'writer:{kind}:branch', okw, '' if okw else f'schema kind `{kind}` is never written', m.rel, wfn.lineno)
    ok = r_else is not None and any(isinstance(s, ast.Raise) for s in r_else)
    ctx.ob('C16.a', 'reader:else-raises', ok, '' if ok else 'unknown gate kinds do not raise', m.rel, rfn.lineno)
    for k in rbranches:
        ctx.ob('C16.a', f'reader:{k}:kind-in-schema', k in kinds, '' if k in kinds else f'reader branch `{k}` is not a schema kind', m.rel, rbranches[k][0].lineno)

    # class agreement and keyword flow
    for kind, (test, body) in sorted(rbranches.items()):
        built = _constructed(repo, m, rfn, body, Gate)
        wcls = {c.qual for c in written_kinds.get(kind, [])}
        if kind == 'internalgate':
            continue  # generic carrier: class is data, handled by internal_gate_from_proto
        bq = {c.qual for c, _ in built}
        if wcls:
            miss = sorted(wcls - bq)
            ctx.ob('C16.a', f'{kind}:class-rebuilt', not miss, '' if not miss else f'writer stores {sorted(wcls)} under `{kind}` but the reader never builds {miss}',
                   m.rel, test.lineno)
            extra = sorted(q for q in bq - wcls if not any(repo.is_subclass(repo.classes[w], repo.classes[q]) or repo.is_subclass(repo.classes[q], repo.classes[w]) for w in wcls))
            ctx.ob('C16.a', f'{kind}:class-not-foreign', not extra, '' if not extra else f'reader builds {extra} for `{kind}` which the writer never stores there', m.rel, test.lineno)
        # keyword flow
        wp = pairs_w.get(kind, {})
        for cinfo, call in built:
            flows = _reader_flows(body, kind, call, m.parents())
            for kw in call.keywords:
                if kw.arg is None:
                    continue
                srcs = _sources(kw.value, flows, kind)
                for sp in srcs:
                    if sp in wp:
                        a = wp[sp].lstrip('_')
                        ok = a == kw.arg.lstrip('_') or _alias_ok(cinfo, a, kw.arg)
                        ctx.ob('C16.a', f'{kind}.{".".join(sp)}:attr-keyword', ok,
                               '' if ok else f'writer stores gate.{wp[sp]} in `{kind}.{".".join(sp)}` but the reader passes it as `{kw.arg}=` to {cinfo.name}',
                               m.rel, kw.value.lineno)

    # ------------------------------------------------------------------ C16.b
    ctx.rule('C16.b', 'dispatch order: in an isinstance chain a class is tested before any of its base classes', floor=20, style='COH')
    seen = []
    for test, classes, body in wbranches:
        if test is None:
            continue
        for c in classes:
            shadow = [s for s in seen if s is not c and repo.is_subclass(c, s)]
            ctx.ob('C16.b', f'writer-order:{c.name}', not shadow,
                   '' if not shadow else f'`isinstance(gate, {c.name})` comes after its base class {shadow[0].name}: {c.name} is serialised as {shadow[0].name}',
                   m.rel, test.lineno)
        seen.extend(classes)

    # ------------------------------------------------------------------ C16.e
    ctx.rule('C16.e', 'attribute coverage: for each class in the writer chain every constructor parameter that backs stored state is '
             'read from the gate in its branch (global_shift and qudit dimension excepted, see table)', floor=20, style='COH')
    for test, classes, body in wbranches:
        if test is None:
            continue
        reads = set()
        for st in body:
            for n in ast.walk(st):
                if isinstance(n, ast.Attribute) and isinstance(n.value, ast.Name) and n.value.id in (GATE, 'op'):
                    reads.add(n.attr)
            for c in ast.walk(st):
                if isinstance(c, ast.Call) and any(isinstance(a, ast.Name) and a.id == GATE for a in c.args):
                    reads.add('<whole>')
        for c in classes:
            if c.name == 'InternalGate':
                continue
            info = coh.init_info(repo, c)
            if info is None:
                continue
            owner, initfn, params, defaults, varkw = info
            p2f = F.init_param_to_field(repo, c) if initfn is not None else {p: {p} for p in params}
            readf = set()
            for a in reads:
                readf.add(F.norm_field(repo, c, a))
                readf.add(a)
                r = repo.find_method(c, a)
                if r is not None:
                    readf |= F.self_reads(repo, c, r[1], depth=2)
            for p in params:
                if not p2f.get(p):
                    continue
                if f'*:{p}' in ATTR_EXEMPT or f'{c.name}:{p}' in ATTR_EXEMPT:
                    continue
                if initfn is not None and (initfn.args.kwarg is not None and p == initfn.args.kwarg.arg):
                    continue
                ok = '<whole>' in reads or bool(p2f[p] & readf) or p in reads
                ctx.ob('C16.e', f'{c.name}:{p}', ok,
                       '' if ok else f'{c.name}.{p} is stored state but the writer neither writes nor rejects it: it is silently dropped on the wire',
                       m.rel, test.lineno, construct=f'{c.name}:{p}')

    # reader-side coverage
    ctx.rule('C16.e2', 'reader attribute coverage: a gate class rebuilt by the reader is given every constructor parameter that backs '
             'stored state (global_shift/dimension excepted); in particular its arity when the class has one', floor=20, style='COH')
    for kind, (test, body) in sorted(rbranches.items()):
        if kind == 'internalgate':
            continue
        for cinfo, call in _constructed(repo, m, rfn, body, Gate):
            info = coh.init_info(repo, cinfo)
            if info is None or info[1] is None:
                continue
            owner, initfn, params, defaults, varkw = info
            pos_params = [a.arg for a in initfn.args.posonlyargs + initfn.args.args[1:]]
            fdef = repo.resolve_in_func(m, rfn, dotted(call.func))
            if isinstance(fdef, FuncInfo):
                continue  # alternative constructor (classmethod): its own signature
            bound, opaque = coh.bind_call(call, pos_params)
            p2f = F.init_param_to_field(repo, cinfo)
            covered = set()
            for p in bound:
                covered |= p2f.get(p, set())
            for p in params:
                if not p2f.get(p) or p in bound or p2f[p] <= covered:
                    continue
                if p in ('global_shift', 'dimension', 'qid_shape', 'confusion_map'):
                    continue  # see ATTR_EXEMPT / rejected by the writer
                if initfn.args.kwarg is not None and p == initfn.args.kwarg.arg:
                    continue
                ctx.ob('C16.e2', f'{kind}:{cinfo.name}:{p}', False,
                       f'reader rebuilds {cinfo.name} without `{p}`: the value the writer saw is replaced by the default', m.rel, call.lineno)
            ctx.ob('C16.e2', f'{kind}:{cinfo.name}', True, '', m.rel, call.lineno)

    _tags(ctx, repo, m, ci, msgs)
    _device(ctx, repo)
    _constants(ctx, repo, m, ci)
    _constant_keys(ctx, repo, m, ci)
    _sweeps(ctx, repo)
    _args(ctx, repo)
    _reader_defaults(ctx, repo)
    _circuit_op_serializer(ctx, repo)
    _proto_escape(ctx, repo)
    _writer_presence(ctx, repo)
    _reader_type_guards(ctx, repo)
    _dedupe_keys(ctx, repo)
    _tag_order(ctx, repo)
    _unset_string_default(ctx, repo)
    _operand_order(ctx, repo)
    _complete_scan(ctx, repo)
    _positional_sequences(ctx, repo)
    shared.module_state_rule(ctx, 'C16.i', ['cirq-google/cirq_google/api/', 'cirq-google/cirq_google/serialization/', 'cirq-google/cirq_google/study/', 'cirq-google/cirq_google/devices/'], floor=3)
    ctx.decided.append('C16.i converters keep no state between calls: module-level containers of the serialization packages are never written from inside a function')


# ---------------------------------------------------------------------------
def _subpaths(paths, kind):
    out = set()
    for p, _ in paths:
        if p and p[0] == kind and len(p) > 1:
            sp = tuple(x for x in p[1:] if x not in ('extend', 'append', 'add', 'CopyFrom', 'MergeFrom', 'update', 'get', 'items', 'keys', 'values', 'WhichOneof', 'HasField', 'SetInParent'))
            if sp:
                out.add(sp)
    return out


def _path_in_schema(msgs, msg, sp):
    cur = msg
    for part in sp:
        if cur is None:
            return False
        if part.startswith('['):
            continue
        f = cur.fields.get(part)
        if f is None:
            return False
        t = f['type']
        if f['map']:
            t = t[4:-1].split(',')[1]
        cur = proto.find(msgs, t, cur)
    return True


def _writer_pairs(body, kind, GATE='gate'):
    """{subfield path -> gate attribute} from `f(gate.a..., out=msg.kind.s)` / `msg.kind.s = gate.a` / `.extend(gate.a)`."""
    out = {}
    for st in body:
        for n in ast.walk(st):
            tgt = None
            src = None
            if isinstance(n, ast.Call):
                o = kwarg(n, 'out')
                if o is not None:
                    tgt = o
                    src = n.args[0] if n.args else None
                elif isinstance(n.func, ast.Attribute) and n.func.attr in ('extend', 'append') and n.args:
                    tgt = n.func.value
                    src = n.args[0]
            elif isinstance(n, ast.Assign) and len(n.targets) == 1:
                tgt, src = n.targets[0], n.value
            if tgt is None or src is None:
                continue
            tp = chains.attr_paths(tgt, 'msg')
            if not tp or tp[0][0][0] != kind:
                continue
            sp = tuple(x for x in tp[0][0][1:])
            attrs = [a.attr for a in ast.walk(src) if isinstance(a, ast.Attribute) and isinstance(a.value, ast.Name) and a.value.id == GATE]
            if len(attrs) == 1 and sp:
                out[sp] = attrs[0]
    return out


def _recursive_reader(body, kind, sp):
    # sub-message handed as a whole to a recursive/helper call
    for st in body:
        for c in ast.walk(st):
            if isinstance(c, ast.Call):
                for a in list(c.args) + [k.value for k in c.keywords]:
                    for p, _ in chains.attr_paths(a, 'operation_proto'):
                        if p and p[0] == kind and sp[:len(p) - 1] == p[1:]:
                            return True
    return False


def _constructed(repo, m, fn, body, Gate):
    out = []
    for st in body:
        for c in ast.walk(st):
            if not isinstance(c, ast.Call):
                continue
            d = dotted(c.func)
            if not d:
                continue
            r = repo.resolve_in_func(m, fn, d)
            if '.' in d:
                pr = repo.resolve_in_func(m, fn, d.rsplit('.', 1)[0])
                if isinstance(pr, ClassInfo) and Gate in repo.mro(pr) and isinstance(r, FuncInfo):
                    out.append((pr, c))
                    continue
            if isinstance(r, ClassInfo) and Gate in repo.mro(r):
                out.append((r, c))
            elif isinstance(r, FuncInfo) and r.cls is not None and Gate in repo.mro(r.cls) and \
                    any((dotted(dd) or '').endswith('classmethod') for dd in r.node.decorator_list):
                out.append((r.cls, c))
    return out


def _branch_ctx(parents, node):
    """Set of (if-node id, branch name) pairs enclosing node."""
    out = set()
    cur = node
    while cur in parents:
        p = parents[cur]
        if isinstance(p, ast.If):
            if cur in p.body:
                out.add((id(p), 'body'))
            elif cur in p.orelse:
                out.add((id(p), 'orelse'))
        elif isinstance(p, ast.match_case):
            out.add((id(p), 'case'))
        cur = p
    return out


def _reader_flows(body, kind, call, parents):
    """local name -> set of proto sub-paths it derives from, using only assignments whose
    branch context encloses `call` (branch sensitive)."""
    flows = {}
    cctx = _branch_ctx(parents, call)
    for _ in range(3):
        for st in body:
            for n in ast.walk(st):
                tgts = []
                val = None
                if isinstance(n, ast.Assign):
                    tgts, val = n.targets, n.value
                elif isinstance(n, ast.AnnAssign) and n.value is not None:
                    tgts, val = [n.target], n.value
                elif isinstance(n, ast.NamedExpr):
                    tgts, val = [n.target], n.value
                if val is None:
                    continue
                if not _branch_ctx(parents, n) <= cctx:
                    continue
                s = _sources(val, flows, kind)
                for t in tgts:
                    if isinstance(t, ast.Name) and s:
                        flows.setdefault(t.id, set()).update(s)
    return flows


def _sources(expr, flows, kind):
    out = set()
    for p, _ in chains.attr_paths(expr, 'operation_proto'):
        if p and p[0] == kind and len(p) > 1:
            out.add(tuple(p[1:]))
    for n in ast.walk(expr):
        if isinstance(n, ast.Name) and n.id in flows:
            out |= flows[n.id]
    return out


def _alias_ok(cinfo, attr, kwname):
    table = {
        ('DepolarizingChannel', 'p', 'p'), ('SingleQubitCliffordGate', 'clifford_tableau', 'tableau'),
    }
    return (cinfo.name, attr, kwname) in table


# --------------------------------------------------------------------- tags
def _tags(ctx, repo, m, ci, msgs):
    ctx.rule('C16.c.tags', 'tags: every Tag oneof kind written by a tag class (its to_proto) is in the schema and the reader chain '
             '(_deserialize_tag) has a branch for that kind rebuilding the same class; raw values are written and read under raw_value; '
             'every constructor field of a tag class is written by its to_proto and read by its from_proto', floor=15, style='WR')
    wfn = repo.method(ci.qual, '_serialize_tag')
    rfn = repo.method(ci.qual, '_deserialize_tag')
    tag_msg = msgs.get('Tag')
    kinds = tag_msg.oneofs.get('tag', []) if tag_msg else []
    if not kinds:
        raise AnalysisError('program.proto: Tag.tag oneof vanished')
    rstart = chains.longest_chain(rfn, lambda t: chains.eq_const(t) is not None)
    if rstart is None:
        raise AnalysisError('_deserialize_tag: chain on `which` vanished')
    rk = {}
    for test, body in chains.if_chain(rstart):
        if test is None:
            continue
        k = chains.eq_const(test)
        built = set()
        for st in body:
            for c in ast.walk(st):
                if isinstance(c, ast.Call):
                    d = dotted(c.func)
                    r = repo.resolve_in_func(m, rfn, d) if d else None
                    if isinstance(r, ClassInfo):
                        built.add(r.name)
                    elif isinstance(r, FuncInfo) and '.' in d:
                        pr = repo.resolve_in_func(m, rfn, d.rsplit('.', 1)[0])
                        if isinstance(pr, ClassInfo):
                            built.add(pr.name)
        rk[k] = (built, test)
    tagcls = [c for c in repo.classes.values()
              if c.mod.rel.startswith('cirq-google/cirq_google/ops/') and 'to_proto' in c.methods and 'from_proto' in c.methods]
    if len(tagcls) < 5:
        raise AnalysisError(f'only {len(tagcls)} tag classes with to_proto/from_proto found')
    for c in sorted(tagcls, key=lambda c: c.qual):
        tp = c.methods['to_proto']
        fp = c.methods['from_proto']
        wkinds = set()
        localnames = {a.arg for a in tp.args.args} | {t.id for n in ast.walk(tp) if isinstance(n, ast.Assign) for t in n.targets if isinstance(t, ast.Name)}
        for var in localnames:
            for p, node in chains.attr_paths(tp, var):
                if p and p[0] in kinds:
                    wkinds.add(p[0])
        if not wkinds:
            ctx.unres('C16.c.tags', c.qual, 'to_proto writes no Tag kind recognisably', c.mod.rel, tp.lineno)
            continue
        for k in sorted(wkinds):
            ok = k in rk and c.name in rk[k][0]
            ctx.ob('C16.c.tags', f'tag:{k}:{c.name}:reader-branch', ok,
                   '' if ok else (f'{c.name}.to_proto writes Tag.{k} but _deserialize_tag has no branch for it' if k not in rk else
                                  f'_deserialize_tag builds {sorted(rk[k][0])} for Tag.{k}, not {c.name}'), c.mod.rel, tp.lineno)
        info = coh.init_info(repo, c)
        if info and info[1] is not None:
            p2f = F.init_param_to_field(repo, c)
            tw = F.self_reads(repo, c, tp, depth=1)
            fpsrc = {n.arg for call in ast.walk(fp) if isinstance(call, ast.Call) for n in call.keywords if n.arg}
            fpcalls = [call for call in ast.walk(fp) if isinstance(call, ast.Call) and (dotted(call.func) or '').split('.')[-1] in (c.name, 'cls')]
            for p, fs in sorted(p2f.items()):
                if not fs:
                    continue
                okp = bool(fs & tw) or p in tw
                ctx.ob('C16.c.tags', f'tag:{c.name}:to_proto-writes:{p}', okp, '' if okp else f'{c.name}.to_proto never writes constructor field `{p}`', c.mod.rel, tp.lineno)
                if fpcalls:
                    params = info[2]
                    okr = any(p in coh.bind_call(call, params)[0] or (info[1].args.kwarg is not None and p == info[1].args.kwarg.arg and coh.bind_call(call, params)[1]) for call in fpcalls)
                    d = info[3].get(p)
                    ctx.ob('C16.c.tags', f'tag:{c.name}:from_proto-passes:{p}', okr, '' if okr else f'{c.name}.from_proto rebuilds the tag without `{p}`', c.mod.rel, fp.lineno)
    # raw values
    w_raw = any(p and 'raw_value' in p for p, _ in chains.attr_paths(wfn, 'constant'))
    ctx.ob('C16.c.tags', 'tag:raw_value', (not w_raw) or 'raw_value' in rk, '' if (not w_raw) or 'raw_value' in rk else 'raw tags are written but never read', m.rel, wfn.lineno)
    for k in rk:
        ctx.ob('C16.c.tags', f'tag:{k}:reader-kind-in-schema', k in kinds, '' if k in kinds else f'reader branch `{k}` is not a Tag kind', m.rel, rk[k][1].lineno)


# ------------------------------------------------------------------- device
def _device(ctx, repo):
    ctx.rule('C16.c.device', 'GridDevice.to_proto / from_proto: every GridDeviceMetadata constructor argument the reader fills from the '
             'specification is, in the writer, taken from the corresponding metadata attribute (so the specification describes '
             'exactly what the device validates)', floor=4, style='WR')
    gd = repo.cls('cirq_google.devices.grid_device.GridDevice')
    md = repo.cls('cirq.devices.grid_device_metadata.GridDeviceMetadata')
    tp = repo.method(gd.qual, 'to_proto')
    fp = repo.method(gd.qual, 'from_proto')
    calls = [c for c in ast.walk(fp) if isinstance(c, ast.Call) and (dotted(c.func) or '').endswith('GridDeviceMetadata')]
    if not calls:
        raise AnalysisError('GridDevice.from_proto no longer builds GridDeviceMetadata')
    p2f = F.init_param_to_field(repo, md)
    # locals of from_proto that derive from `proto`
    dep = {'proto'}
    for _ in range(4):
        for n in ast.walk(fp):
            tg, val = None, None
            if isinstance(n, ast.Assign):
                tg, val = n.targets, n.value
            elif isinstance(n, ast.AnnAssign) and n.value is not None:
                tg, val = [n.target], n.value
            elif isinstance(n, (ast.For, ast.comprehension)):
                tg, val = [n.target], n.iter
            elif isinstance(n, ast.Expr) and isinstance(n.value, ast.Call) and isinstance(n.value.func, ast.Attribute) \
                    and n.value.func.attr in ('add', 'append', 'update') or \
                    (isinstance(n, ast.Assign) and isinstance(n.targets[0], ast.Subscript)):
                if isinstance(n, ast.Expr):
                    tg, val = [n.value.func.value], ast.Tuple(elts=list(n.value.args), ctx=ast.Load())
                else:
                    tg, val = [n.targets[0].value], n.value
            if val is None:
                continue
            if {x.id for x in ast.walk(val) if isinstance(x, ast.Name)} & dep:
                for t in tg:
                    for x in ast.walk(t):
                        if isinstance(x, ast.Name):
                            dep.add(x.id)
    # metadata fields read by the writer (through self._metadata.<attr> / self.metadata.<attr> / self.<prop>)
    wfields = set()
    for n in ast.walk(tp):
        if isinstance(n, ast.Attribute) and isinstance(n.value, ast.Attribute) and n.value.attr in ('_metadata', 'metadata') \
                and isinstance(n.value.value, ast.Name) and n.value.value.id == 'self':
            wfields.add(F.norm_field(repo, md, n.attr))
            r = repo.find_method(md, n.attr)
            if r is not None:
                wfields |= F.self_reads(repo, md, r[1], depth=2)
        elif isinstance(n, ast.Attribute) and isinstance(n.value, ast.Name) and n.value.id == 'self':
            r = repo.find_method(gd, n.attr)
            if r is not None:
                for x in ast.walk(r[1]):
                    if isinstance(x, ast.Attribute) and isinstance(x.value, ast.Attribute) and x.value.attr in ('_metadata', 'metadata'):
                        wfields.add(F.norm_field(repo, md, x.attr))
    for kw in calls[0].keywords:
        if kw.arg is None:
            continue
        from_spec = bool({x.id for x in ast.walk(kw.value) if isinstance(x, ast.Name)} & dep)
        if not from_spec or isinstance(kw.value, ast.Call):
            continue  # not read from the specification / computed from other arguments
        fs = p2f.get(kw.arg, set())
        ok = bool(fs & wfields)
        ctx.ob('C16.c.device', f'GridDevice:{kw.arg}', ok,
               '' if ok else f'from_proto fills metadata `{kw.arg}` from the specification, but to_proto never reads the metadata field(s) '
               f'{sorted(fs)} it is stored in: the specification is written from something else', gd.mod.rel, tp.lineno)


# ---------------------------------------------------------------- constants
def _constants(ctx, repo, m, ci):
    ctx.rule('C16.d', 'constants table: in every function, `constants.append(x)` is followed in the same block by a registration '
             '`raw_constants[key] = len(constants) - 1` (directly or through a local bound to that value) and the append is '
             'reached only when the key was not found in raw_constants', floor=4, style='MPT')
    from ..flow import block_of, dominating_atoms
    parents = m.parents()
    for mn, fn in ci.methods.items():
        for n in ast.walk(fn):
            if isinstance(n, ast.Call) and isinstance(n.func, ast.Attribute) and n.func.attr == 'append' and \
                    isinstance(n.func.value, ast.Name) and n.func.value.id == 'constants':
                b = block_of(parents, n)
                if b is None:
                    continue
                owner, fld, lst, idx = b
                reg = None
                locals_ = {}
                for st in lst[idx + 1:]:
                    for x in ast.walk(st):
                        if isinstance(x, ast.Assign) and isinstance(x.targets[0], ast.Name):
                            locals_[x.targets[0].id] = x.value
                        if reg is None and isinstance(x, ast.Assign):
                            for t in x.targets:
                                if isinstance(t, ast.Subscript) and isinstance(t.value, ast.Name) and t.value.id == 'raw_constants':
                                    reg = ast.Assign(targets=[t], value=x.value, lineno=x.lineno, col_offset=0)
                    if reg is not None:
                        break
                key = f'{ci.name}.{mn}:append@{_stmt_ctx(lst[idx])}'
                if reg is None:
                    ctx.ob('C16.d', key, False, 'constants.append(...) is not followed by a raw_constants[...] registration: the next '
                           'occurrence is appended again or resolved to a wrong index', m.rel, n.lineno)
                    continue
                val = reg.value
                if isinstance(val, ast.Name) and val.id in locals_:
                    val = locals_[val.id]
                v = ast.unparse(val).replace(' ', '')
                okv = v == 'len(constants)-1'
                regkey = ast.unparse(reg.targets[0].slice)
                atoms = dominating_atoms(parents, n, fn)
                guarded = False
                for a, pol in atoms:
                    src = ast.unparse(a)
                    if 'raw_constants' not in src or regkey not in src:
                        continue
                    # `key not in raw_constants` true / `key in raw_constants` false /
                    # `(i := raw_constants.get(key)) is None` true / `... is not None` false
                    if isinstance(a, ast.Compare):
                        op = a.ops[0]
                        if (isinstance(op, ast.NotIn) and pol) or (isinstance(op, ast.In) and not pol) or \
                                (isinstance(op, ast.Is) and pol) or (isinstance(op, ast.IsNot) and not pol):
                            guarded = True
                ctx.ob('C16.d', key, okv and guarded,
                       '' if okv and guarded else (f'index registered as `{v}` instead of len(constants)-1' if not okv else
                                                   f'append not guarded by a failed lookup of `{regkey}` in raw_constants'), m.rel, n.lineno)


def _constant_keys(ctx, repo, m, ci):
    ctx.rule('C16.d2', 'constants table keys: raw_constants is one namespace shared by qubits, tags (any hashable, including strings), '
             'operations, moments and circuits, so every key must be the domain object itself (a parameter, loop variable or '
             'attribute of one), never a derived value such as an id string', floor=8, style='COH')
    for mn, fn in ci.methods.items():
        params = {a.arg for a in fn.args.args + fn.args.kwonlyargs}
        loopvars = set()
        derived = {}
        for n in ast.walk(fn):
            if isinstance(n, (ast.For, ast.comprehension)):
                loopvars |= {x.id for x in ast.walk(n.target) if isinstance(x, ast.Name)}
            if isinstance(n, ast.Assign) and isinstance(n.targets[0], ast.Name):
                derived[n.targets[0].id] = n.value
            if isinstance(n, ast.NamedExpr):
                derived[n.target.id] = n.value
        keys = []
        for n in ast.walk(fn):
            if isinstance(n, ast.Subscript) and isinstance(n.value, ast.Name) and n.value.id == 'raw_constants':
                keys.append(n.slice)
            if isinstance(n, ast.Call) and isinstance(n.func, ast.Attribute) and n.func.attr == 'get' and \
                    isinstance(n.func.value, ast.Name) and n.func.value.id == 'raw_constants' and n.args:
                keys.append(n.args[0])
            if isinstance(n, ast.Compare) and isinstance(n.ops[0], (ast.In, ast.NotIn)) and \
                    isinstance(n.comparators[0], ast.Name) and n.comparators[0].id == 'raw_constants':
                keys.append(n.left)
        for k in keys:
            root = k
            while isinstance(root, ast.Attribute):
                root = root.value
            hops = 0
            while isinstance(root, ast.Name) and root.id in derived and hops < 4 and \
                    not any(isinstance(x, (ast.Call, ast.JoinedStr, ast.BinOp, ast.Constant)) for x in ast.walk(derived[root.id])):
                root = derived[root.id]
                while isinstance(root, ast.Attribute):
                    root = root.value
                hops += 1
            ok = isinstance(root, ast.Name) and (root.id in params or root.id in loopvars) and root.id not in derived
            tup = root if isinstance(root, ast.Tuple) else derived.get(root.id) if isinstance(root, ast.Name) else None
            if not ok and isinstance(tup, ast.Tuple):
                # (obj, obj.attr, ...): a tuple that contains the domain object itself can only equal a key built from an equal object
                elts = tup.elts

                def _root(e):
                    while isinstance(e, ast.Attribute):
                        e = e.value
                    return e.id if isinstance(e, ast.Name) else None
                r0 = _root(elts[0]) if elts and isinstance(elts[0], ast.Name) else None
                ok = r0 is not None and (r0 in params or r0 in loopvars) and r0 not in derived and all(_root(e) == r0 for e in elts)
            why = ''
            if not ok:
                why = f'raw_constants is keyed by `{ast.unparse(k)}`'
                if isinstance(root, ast.Name) and root.id in derived:
                    why += f' = `{ast.unparse(derived[root.id])[:50]}`'
                why += ', a derived value: it can collide with a tag (or other constant) that has the same value'
            ctx.ob('C16.d2', f'{ci.name}.{mn}:key:{ast.unparse(k)}', ok, why, m.rel, k.lineno, construct=f'{mn}:{ast.unparse(k)}')


def _stmt_ctx(st):
    s = ' '.join(ast.unparse(st).split())
    return s[:60]


# ------------------------------------------------------------------- sweeps
def _sweeps(ctx, repo):
    ctx.rule('C16.c.sweeps', 'sweeps: sweep_to_proto / sweep_from_proto agree: each sweep class written has a reader rebuilding the same '
             'class; function kinds map to the same classes in both directions; written sub-fields exist in the schema', floor=8, style='WR')
    m = repo.module('cirq-google/cirq_google/api/v2/sweeps.py')
    w = m.defs.get('sweep_to_proto')
    r = m.defs.get('sweep_from_proto')
    if w is None or r is None:
        raise AnalysisError('sweep_to_proto / sweep_from_proto vanished')
    msgs = proto.parse(repo.read_text(RUNCTX_PROTO))
    # writer classes: isinstance(sweep, X)
    wcls = {}
    for n in ast.walk(w):
        if isinstance(n, ast.If):
            cl = chains.isinstance_classes(n.test, 'sweep')
            if cl is None and isinstance(n.test, ast.BoolOp):
                for v in n.test.values:
                    cl = cl or chains.isinstance_classes(v, 'sweep')
            if cl:
                for cn in cl:
                    rc = repo.resolve_in_func(m, w, dotted(cn))
                    if isinstance(rc, ClassInfo):
                        wcls[rc.name] = (rc, n)
    built = set()
    for c in ast.walk(r):
        if isinstance(c, ast.Call):
            d = dotted(c.func)
            rc = repo.resolve_in_func(m, r, d) if d else None
            if isinstance(rc, ClassInfo):
                built.add(rc.name)
    for nm, (rc, node) in sorted(wcls.items()):
        ok = nm in built or any(nm in {b.name for b in repo.mro(repo.cls(bn))} for bn in built if bn in repo.classes_by_name and len(repo.classes_by_name[bn]) == 1 and False)
        if nm in ('Sweep', 'SingleSweep'):
            continue
        if nm == 'ListSweep':
            continue  # documented: a ListSweep is encoded as the equivalent Zip of Points (reads back as that Zip)
        ctx.ob('C16.c.sweeps', f'sweep:{nm}:rebuilt', nm in built, '' if nm in built else f'sweep_to_proto writes {nm} but sweep_from_proto never builds it', m.rel, node.lineno)
    # function-type tables
    def enum_map(fn, direction):
        out = {}
        for n in ast.walk(fn):
            if isinstance(n, ast.Attribute) and n.attr in ('PRODUCT', 'ZIP', 'ZIP_LONGEST', 'CONCAT'):
                out[n.attr] = n
        return out
    we, re_ = enum_map(w, 'w'), enum_map(r, 'r')
    for k in sorted(set(we) | set(re_)):
        ok = k in we and k in re_
        ctx.ob('C16.c.sweeps', f'sweep-func:{k}', ok, '' if ok else f'function kind {k} handled by only one of writer/reader', m.rel, (we.get(k) or re_.get(k)).lineno)
    # kind <-> class pairing must be identical on both sides
    def pairing(fn):
        out = {}
        for n in ast.walk(fn):
            if isinstance(n, ast.If):
                src = ast.unparse(n.test)
                kinds = [k for k in ('ZIP_LONGEST', 'PRODUCT', 'CONCAT', 'ZIP') if f'.{k}' in src.replace('ZIP_LONGEST', 'ZIP_LONGEST')]
                cls = [c for c in ('ZipLongest', 'Product', 'Concat', 'Zip') if f'{c}' in src]
                body_src = ' '.join(ast.unparse(s) for s in n.body)
                for k in ('ZIP_LONGEST', 'PRODUCT', 'CONCAT', 'ZIP'):
                    pass
                yield n, src, body_src
    def first_match(s, options):
        best = None
        for o in options:
            i = s.find(o)
            if i >= 0 and (best is None or i < best[0] or (i == best[0] and len(o) > len(best[1]))):
                best = (i, o)
        return best[1] if best else None
    wmap, rmap = {}, {}
    for n, src, body in pairing(w):
        c = first_match(src, ['ZipLongest', 'Product', 'Concat', 'Zip'])
        k = first_match(body, ['.ZIP_LONGEST', '.PRODUCT', '.CONCAT', '.ZIP'])
        if c and k and 'isinstance' in src:
            wmap.setdefault(c, k[1:])
    for n, src, body in pairing(r):
        k = first_match(src, ['.ZIP_LONGEST', '.PRODUCT', '.CONCAT', '.ZIP'])
        c = first_match(body, ['ZipLongest(', 'Product(', 'Concat(', 'Zip('])
        if c and k:
            rmap.setdefault(c[:-1], k[1:])
    for c in sorted(set(wmap) | set(rmap)):
        ok = wmap.get(c) == rmap.get(c)
        ctx.ob('C16.c.sweeps', f'sweep-func-class:{c}', ok, '' if ok else f'{c}: writer uses {wmap.get(c)}, reader uses {rmap.get(c)}', m.rel, w.lineno)
    # written sub-fields in schema
    for var in _proto_vars(w):
        for p, node in chains.attr_paths(w, var):
            if not p:
                continue
            sm = msgs.get('Sweep')
            if p[0] in ('single_sweep', 'sweep_function') and sm is not None:
                ok = _path_in_schema(msgs, sm, tuple(x for x in p if x not in ('extend', 'append', 'add', 'CopyFrom', 'MergeFrom', 'SetInParent', 'update')))
                ctx.ob('C16.c.sweeps', f'sweep-field:{".".join(p)}', ok, '' if ok else f'`{".".join(p)}` not in run_context.proto Sweep', m.rel, node.lineno)


# --------------------------------------------------------------------- args
def _proto_vars(fn):
    """names that stand for the proto message being filled in: the out/msg parameters and locals bound from them (`msg = X() if out is None else out`)"""
    params = {a.arg for a in fn.args.args + fn.args.kwonlyargs}
    vs = {'out', 'msg'} & params
    if not vs:
        vs = {'out', 'msg'}
    grew = True
    while grew:
        grew = False
        for n in ast.walk(fn):
            if isinstance(n, ast.Assign) and len(n.targets) == 1 and isinstance(n.targets[0], ast.Name) and n.targets[0].id not in vs:
                if any(isinstance(x, ast.Name) and x.id in vs for x in ast.walk(n.value)) and not isinstance(n.value, ast.Call):
                    vs.add(n.targets[0].id)
                    grew = True
    return sorted(vs)


def _args(ctx, repo):
    ctx.rule('C16.c.args', 'arg function language: the operator tables used by the writer and by the reader contain the same operator '
             'symbols; every arg kind written by arg_to_proto is read by arg_from_proto', floor=6, style='WR')
    m = repo.module('cirq-google/cirq_google/serialization/arg_func_langs.py')
    w = m.defs.get('arg_to_proto')
    r = m.defs.get('arg_from_proto')
    if w is None or r is None:
        raise AnalysisError('arg_to_proto / arg_from_proto vanished')
    # written arg kinds: out.<kind> / msg.<kind>
    msgs = proto.parse(repo.read_text(PROGRAM_PROTO))
    arg = msgs['Arg']
    argv = msgs.get('ArgValue')
    wk = set()
    for fn in [w] + [f for n, f in m.defs.items() if isinstance(f, ast.FunctionDef) and n.endswith('_to_proto') and n != 'arg_to_proto']:
        for var in _proto_vars(fn):
            for p, node in chains.attr_paths(fn, var):
                if p and p[0] in arg.fields:
                    wk.add(p[0])
                    if p[0] == 'arg_value' and len(p) > 1 and argv is not None and p[1] in argv.fields:
                        wk.add('arg_value.' + p[1])
    rsrc = ' '.join(ast.unparse(f) for n, f in m.defs.items() if isinstance(f, ast.FunctionDef) and ('from_proto' in n))
    for k in sorted(wk):
        leaf = k.split('.')[-1]
        ok = f"'{leaf}'" in rsrc or f'"{leaf}"' in rsrc or f'.{leaf}' in rsrc
        ctx.ob('C16.c.args', f'arg-kind:{k}', ok, '' if ok else f'arg kind `{k}` is written but never read', m.rel, w.lineno)
    # operator tables: dict/list literals mapping sympy classes <-> strings
    tables = {}
    for name, node in m.defs.items():
        if isinstance(node, (ast.Dict, ast.List, ast.Tuple, ast.Set, ast.Call)) and name.isupper():
            strs = {c.value for c in ast.walk(node) if isinstance(c, ast.Constant) and isinstance(c.value, str)}
            if strs:
                tables[name] = strs
    # operators used literally in writer vs reader function bodies
    def ops_in(fn):
        return {c.value for c in ast.walk(fn) if isinstance(c, ast.Constant) and isinstance(c.value, str) and c.value in
                ('add', 'mul', 'pow', '==', '!=', '<', '<=', '>', '>=', 'and', 'or', 'not', 'xor', 'bitand', 'bitor', 'bitxor')}
    wfuncs = [f for n, f in m.defs.items() if isinstance(f, ast.FunctionDef) and 'to_proto' in n]
    rfuncs = [f for n, f in m.defs.items() if isinstance(f, ast.FunctionDef) and 'from_proto' in n]
    wo = set().union(*[ops_in(f) for f in wfuncs]) if wfuncs else set()
    ro = set().union(*[ops_in(f) for f in rfuncs]) if rfuncs else set()
    for o in sorted(wo | ro):
        ok = o in ro if o in wo else True
        ctx.ob('C16.c.args', f'arg-op:{o}', ok, '' if ok else f'operator `{o}` is written but the reader has no case for it', m.rel, w.lineno)


def _reader_defaults(ctx, repo):
    """C16.f - readers do not turn a written value into a different one through a truthiness shortcut."""
    ctx.decided.append('C16.f readers: `value or default` only with the zero of the value\'s type as default (a written 0 must not become -1), and a branch taken on the '
                       'truthiness of proto field F uses F itself, not a sibling field whose presence F does not imply')
    ctx.rule('C16.f', 'truthiness shortcuts in from_proto / deserialize functions: (1) the default of `x or c` is 0 / 0.0 / "" / False / None / an empty container; '
             '(2) inside `if msg.F:` the fields read from msg are F itself - proto3 scalars have no presence, so a zero value of F says nothing about its siblings', floor=20, style='WR')
    ZEROS = ('0', '0.0', "''", '""', 'False', 'None', '()', '[]', '{}')
    rels = ['cirq-google/cirq_google/api/v2/sweeps.py', 'cirq-google/cirq_google/serialization/arg_func_langs.py',
            'cirq-google/cirq_google/serialization/circuit_serializer.py', 'cirq-google/cirq_google/api/v2/results.py',
            'cirq-google/cirq_google/api/v2/run_context.py', 'cirq-google/cirq_google/devices/grid_device.py']
    for rel in rels:
        if not repo.exists(rel):
            continue
        m = repo.module(rel)
        for fn in [f for f in ast.walk(m.tree) if isinstance(f, ast.FunctionDef)]:
            helper_reader = any(a.annotation is not None and '_pb2.' in ast.unparse(a.annotation) for a in fn.args.args) and fn.returns is not None and '_pb2' not in ast.unparse(fn.returns)
            if not ('from_proto' in fn.name or 'deserialize' in fn.name or helper_reader):
                continue
            for n in ast.walk(fn):
                if isinstance(n, ast.BoolOp) and isinstance(n.op, ast.Or) and isinstance(n.values[-1], (ast.Constant, ast.UnaryOp, ast.Tuple, ast.List, ast.Dict)):
                    c = ast.unparse(n.values[-1])
                    ok = c in ZEROS
                    ctx.ob('C16.f', f'{m.name}.{fn.name}:or-default:{ast.unparse(n.values[0])[:60]}', ok,
                           '' if ok else f'`{ast.unparse(n)[:80]}`: a written zero is read back as {c} (for a record index, 0 = first record becomes -1 = latest record)', m.rel, n.lineno)
                if isinstance(n, ast.If) and isinstance(n.test, ast.Attribute):
                    tested = ast.unparse(n.test)
                    parent = ast.unparse(n.test.value)
                    others = sorted({ast.unparse(x) for st in n.body for x in ast.walk(st)
                                     if isinstance(x, ast.Attribute) and ast.unparse(x.value) == parent and ast.unparse(x) != tested and not isinstance(x.ctx, ast.Store)
                                     and not any(isinstance(pp, ast.Call) and pp.func is x for st2 in n.body for pp in ast.walk(st2))})
                    ok = not others
                    ctx.ob('C16.f', f'{m.name}.{fn.name}:presence-by-value:{tested}', ok,
                           '' if ok else f'the branch taken when `{tested}` is non-zero reads {others}: a value of 0 in {n.test.attr} (e.g. a sweep ending at 0.0) makes the reader '
                           'ignore sibling fields that were written', m.rel, n.lineno)


def _only_in_tests(fn, node):
    """is `node` only part of an if-test (never of a value that is written)?"""
    for i_ in ast.walk(fn):
        if isinstance(i_, ast.If) and any(x is node for x in ast.walk(i_.test)):
            return True
        if isinstance(i_, ast.Raise) and any(x is node for x in ast.walk(i_)):
            return True          # mentioned in an error message
    return False


def _circuit_op_serializer(ctx, repo):
    """C16.g - sub-circuit operations: every field of CircuitOperation is written (or refused) and read back."""
    from .. import coh
    ctx.decided.append('C16.g CircuitOpSerializer / CircuitOpDeserializer: every constructor field of CircuitOperation is read by the writer (or the writer refuses values it '
                       'cannot express) and handed back to the constructor by the reader; the repetition-ids form is only used when the repetition count is not negative')
    ctx.rule('C16.g', 'sub-circuit operations round-trip: (1) each CircuitOperation constructor parameter is looked at by to_proto; (2) each is passed to the constructor by from_proto; '
             '(3) the oneof arm that stores repetition ids (from which the reader can only recover len(ids) >= 0) is not reachable with negative repetitions', floor=15, style='WR')
    co = repo.cls('cirq.circuits.circuit_operation.CircuitOperation')
    params = [p for p in coh.init_info(repo, co)[2]]
    ws = repo.cls('cirq_google.serialization.op_serializer.CircuitOpSerializer')
    rs = repo.cls('cirq_google.serialization.op_deserializer.CircuitOpDeserializer')
    w, r = ws.methods.get('to_proto'), rs.methods.get('from_proto')
    if w is None or r is None:
        raise AnalysisError('CircuitOpSerializer.to_proto / CircuitOpDeserializer.from_proto vanished')
    opname = next((a.arg for a in w.args.args if a.arg in ('op', 'operation')), w.args.args[1].arg)
    read_w = {n.attr for n in ast.walk(w) if isinstance(n, ast.Attribute) and isinstance(n.value, ast.Name) and n.value.id == opname}
    ctor = [c for c in ast.walk(r) if isinstance(c, ast.Call) and call_name(c) == 'CircuitOperation']
    if not ctor:
        raise AnalysisError('CircuitOpDeserializer.from_proto: CircuitOperation constructor call vanished')
    pos = [a.arg for a in coh.init_info(repo, co)[1].args.args[1:]]
    passed = set(pos[:len(ctor[0].args)]) | {k.arg for k in ctor[0].keywords if k.arg}
    # a field the writer refuses (raise under a test reading it) counts as handled
    INTERNAL = {'extern_keys': 'binding context set only by _with_rescoped_keys_ together with parent_path (which the writer refuses); it has no public accessor'}
    for p_ in params:
        if p_ in INTERNAL:
            ctx.ob('C16.g', f'CircuitOpSerializer.to_proto:{p_}', True, 'listed: ' + INTERNAL[p_], ws.mod.rel, w.lineno)
            continue
        okw = p_ in read_w
        # refused: a `raise` whose guarding test reads the field (the format cannot express it)
        refused = any(isinstance(i_, ast.If) and any(isinstance(x_, ast.Raise) for x_ in i_.body)
                      and any(isinstance(a_, ast.Attribute) and a_.attr == p_ and isinstance(a_.value, ast.Name) and a_.value.id == opname for a_ in ast.walk(i_.test))
                      and not any(isinstance(x_, ast.Attribute) and isinstance(x_.ctx, ast.Store) for st_ in i_.body for x_ in ast.walk(st_))
                      for i_ in ast.walk(w))
        written = any(isinstance(n_, ast.Attribute) and n_.attr == p_ and isinstance(n_.value, ast.Name) and n_.value.id == opname and not _only_in_tests(w, n_)
                      for n_ in ast.walk(w))
        ctx.ob('C16.g', f'CircuitOpSerializer.to_proto:{p_}', okw, '' if okw else f'CircuitOperation.{p_} is neither written nor refused: two operations that differ only in {p_} serialise identically',
               ws.mod.rel, w.lineno)
        okr = p_ in passed or not okw or (refused and not written)
        ctx.ob('C16.g', f'CircuitOpDeserializer.from_proto:{p_}', okr, '' if okr else f'the reader rebuilds the CircuitOperation without `{p_}`', rs.mod.rel, ctor[0].lineno)
    # the ids arm loses the sign of `repetitions`
    arms = [n for n in ast.walk(w) if isinstance(n, ast.If) and any(isinstance(x, ast.Attribute) and x.attr == 'repetition_ids' and isinstance(x.ctx, ast.Load)
                                                                     for st in n.body for x in ast.walk(st))
            and 'repetition_ids' in ast.unparse(n.test)]
    if not arms:
        raise AnalysisError('CircuitOpSerializer.to_proto: repetition-ids arm vanished')
    par = ws.mod.parents()
    guard = False

    def sign_test(atom):
        return any(isinstance(c_, ast.Compare) and 'repetitions' in ast.unparse(c_) and any(isinstance(o, (ast.GtE, ast.Gt, ast.Lt, ast.LtE)) for o in c_.ops) for c_ in ast.walk(atom))
    for a in arms:
        atoms = list(conjuncts(a.test, True)) + dominating_atoms(par, a, w)
        if any(sign_test(atom) for atom, pol in atoms):
            guard = True
        # or: the arm itself refuses negative counts before it writes the ids
        for st in a.body:
            if isinstance(st, ast.If) and sign_test(st.test) and any(isinstance(x_, ast.Raise) for x_ in st.body):
                guard = True
    ctx.ob('C16.g', 'CircuitOpSerializer.to_proto:repetition-ids-arm:sign', guard,
           '' if guard else 'an operation with custom repetition_ids and negative repetitions is written as the list of ids only; the reader recovers repetitions = len(ids): '
           'CircuitOperation(c, repetitions=-2, repetition_ids=["a","b"]) comes back with repetitions=+2 (the inverse is lost)', ws.mod.rel, arms[0].lineno)


_COPYING = {'tuple', 'list', 'set', 'frozenset', 'sorted', 'len', 'any', 'all', 'enumerate', 'zip', 'map', 'sum', 'min', 'max', 'dict', 'reversed', 'iter', 'bool', 'str', 'repr',
            'array', 'asarray', 'reduce', 'reshape', 'join'}


def _proto_escape(ctx, repo):
    """C16.h - a repeated proto field never becomes the state of a deserialized Cirq value: it is copied into a tuple/list first.

    A RepeatedScalarContainer compares unequal to the tuple the original object held, is not hashable or JSON-serializable, and stays tied to the message it came from.
    """
    import glob as _glob
    import os as _os
    ctx.decided.append('C16.h readers copy repeated proto fields (tuple/list/comprehension) before handing them to a constructor that stores its argument as given')
    ctx.rule('C16.h', 'no live proto container in a deserialized value: in every cirq_google function with a parameter of a generated message type, an expression that resolves '
             '(through the .proto schemas) to a repeated field and is passed as an argument to the constructor of a repository class is wrapped in a copying call, unless that '
             'constructor itself copies the parameter', floor=4, style='TNT')
    msgs = {}
    proto_dir = 'cirq-google/cirq_google/api/v2'
    rels = [r for r in (f'{proto_dir}/{n}' for n in ('program.proto', 'run_context.proto', 'result.proto', 'device.proto', 'ndarrays.proto', 'metrics.proto', 'calibration.proto'))
            if repo.exists(r)]
    if len(rels) < 3:
        raise AnalysisError('C16.h: .proto schemas not found')
    for r in rels:
        msgs.update(proto.parse(repo.read_text(r)))

    def typeof_ann(ann):
        if ann is None:
            return None
        t = ast.unparse(ann).strip('\'"')
        nm = t.split('.')[-1]
        return msgs[nm] if '_pb2' in t and nm in msgs else None

    def resolve(expr, env):
        if isinstance(expr, ast.Name):
            return env.get(expr.id)
        if isinstance(expr, ast.Attribute):
            b = resolve(expr.value, env)
            if b and b[0] == 'msg':
                f = b[1].fields.get(expr.attr)
                if f is None:
                    return None
                if f['map']:
                    return ('rep', f, 'map')
                sub = proto.find(msgs, f['type'], b[1])
                if f['repeated']:
                    return ('rep', f, sub)
                return ('msg', sub) if sub else None
        if isinstance(expr, ast.Subscript):
            b = resolve(expr.value, env)
            if b and b[0] == 'rep' and b[2] not in (None, 'map'):
                return ('msg', b[2])
        return None

    def ctor_copies(ci, pname, pos):
        """the class's constructor copies parameter `pname` (or positional index pos) before storing it"""
        found = repo.find_method(ci, '__init__')
        if not found:
            return False  # dataclass / attrs field: stored as given
        init = found[1]
        params = [a.arg for a in init.args.args][1:]
        if pname is None:
            if pos >= len(params):
                return True
            pname = params[pos]
        if pname not in params + [a.arg for a in init.args.kwonlyargs]:
            return True  # swallowed by **kwargs: not ours to judge
        for st in ast.walk(init):
            if isinstance(st, (ast.Assign, ast.AnnAssign)) and st.value is not None:
                tg = st.targets[0] if isinstance(st, ast.Assign) else st.target
                if isinstance(tg, ast.Attribute) and isinstance(tg.value, ast.Name) and tg.value.id == 'self':
                    v = st.value
                    # stored raw: `self.x = p`, `self.x = p or d`, `self.x = d if p is None else p`
                    raw = [x for x in ([v] + (list(v.values) if isinstance(v, ast.BoolOp) else []) + ([v.body, v.orelse] if isinstance(v, ast.IfExp) else []))
                           if isinstance(x, ast.Name) and x.id == pname]
                    if raw:
                        return False
        # rebinding `p = ... p ...` without a copying call followed by a raw store is not tracked; absence of a raw store counts as copying
        return True
    n = 0
    for m in sorted(repo.modules.values(), key=lambda x: x.rel):
        if not m.rel.startswith('cirq-google/') or m.rel.endswith('_test.py') or '_pb2' in m.rel:
            continue
        par = None
        for fn in [f for f in ast.walk(m.tree) if isinstance(f, ast.FunctionDef)]:
            env = {}
            for a in fn.args.args + fn.args.kwonlyargs:
                t = typeof_ann(a.annotation)
                if t:
                    env[a.arg] = ('msg', t)
            if not env:
                continue
            grew = True
            while grew:
                grew = False
                for s in ast.walk(fn):
                    if isinstance(s, ast.Assign) and len(s.targets) == 1 and isinstance(s.targets[0], ast.Name) and s.targets[0].id not in env:
                        r = resolve(s.value, env)
                        if r:
                            env[s.targets[0].id] = r
                            grew = True
                    if isinstance(s, ast.NamedExpr) and s.target.id not in env:
                        r = resolve(s.value, env)
                        if r:
                            env[s.target.id] = r
                            grew = True
                    if isinstance(s, (ast.For, ast.comprehension)) and isinstance(s.target, ast.Name) and s.target.id not in env:
                        r = resolve(s.iter, env)
                        if r and r[0] == 'rep' and r[2] not in (None, 'map'):
                            env[s.target.id] = ('msg', r[2])
                            grew = True
            # a local re-bound to a copy of itself (`x = list(x)`) is safe from there on; any other mixture of definitions keeps the may-be-container verdict
            for s in ast.walk(fn):
                if isinstance(s, ast.Assign) and len(s.targets) == 1 and isinstance(s.targets[0], ast.Name) and s.targets[0].id in env \
                        and env[s.targets[0].id][0] == 'rep' and isinstance(s.value, ast.Call) and (call_name(s.value) or '') in ('list', 'tuple') \
                        and s.value.args and isinstance(s.value.args[0], ast.Name) and s.value.args[0].id == s.targets[0].id:
                    env[s.targets[0].id] = ('copied-in-place',)

            def classify(a):
                if isinstance(a, (ast.Name, ast.Attribute)):
                    r = resolve(a, env)
                    return ('raw', r) if r and r[0] == 'rep' and r[2] != 'map' else None
                if isinstance(a, ast.Call) and (call_name(a) or '').split('.')[-1] in ('tuple', 'list', 'frozenset', 'set', 'sorted') and a.args:
                    inner = classify(a.args[0])
                    return ('copied', inner[1]) if inner else None
                if isinstance(a, (ast.ListComp, ast.GeneratorExp, ast.SetComp)):
                    r = resolve(a.generators[0].iter, env) if isinstance(a.generators[0].iter, (ast.Name, ast.Attribute)) else None
                    return ('copied', r) if r and r[0] == 'rep' and r[2] != 'map' else None
                return None
            for c in ast.walk(fn):
                if not isinstance(c, ast.Call):
                    continue
                cands = [(None, i, a) for i, a in enumerate(c.args)] + [(k.arg, None, k.value) for k in c.keywords if k.arg]
                for kw, pos, a in cands:
                    cl = classify(a)
                    if cl is None:
                        continue
                    ci = repo.resolve_class(m, c.func)
                    if ci is None or '_pb2' in ci.mod.rel:
                        continue  # a function or a proto message: not the constructor of a Cirq value
                    n += 1
                    ok = cl[0] == 'copied' or ctor_copies(ci, kw, pos if pos is not None else 0)
                    ctx.ob('C16.h', f'{m.name}.{fn.name}:{ci.name}({kw if kw else pos})', ok,
                           '' if ok else f'{ci.name}(... {kw if kw else pos}={ast.unparse(a)}) stores the live repeated field of the message being read: the '
                           'deserialized object holds a protobuf container where the original held a tuple/list (unequal to a tuple, unhashable, not JSON-serializable)',
                           m.rel, c.lineno, construct=f'{m.name}.{fn.name}')
    if n == 0:
        raise AnalysisError('C16.h: no repeated proto field reaches a constructor or a copying call: the schema resolution is broken')


def _schemas(repo):
    msgs = {}
    proto_dir = 'cirq-google/cirq_google/api/v2'
    rels = [r for r in (f'{proto_dir}/{n}' for n in ('program.proto', 'run_context.proto', 'result.proto', 'device.proto', 'ndarrays.proto', 'metrics.proto', 'calibration.proto'))
            if repo.exists(r)]
    if len(rels) < 3:
        raise AnalysisError('.proto schemas not found')
    for r in rels:
        msgs.update(proto.parse(repo.read_text(r)))
    return msgs


def _field_of(msgs, expr, env):
    """Schema field an attribute chain rooted at a proto-typed name ends in: (field dict, owner Msg) or None."""
    if isinstance(expr, ast.Attribute):
        b = _msg_of(msgs, expr.value, env)
        if b is not None:
            f = b.fields.get(expr.attr)
            if f is not None:
                return f, b
    return None


def _msg_of(msgs, expr, env):
    if isinstance(expr, ast.Name):
        return env.get(expr.id)
    if isinstance(expr, ast.Attribute):
        r = _field_of(msgs, expr, env)
        if r and not r[0]['repeated'] and not r[0]['map']:
            return proto.find(msgs, r[0]['type'], r[1])
    if isinstance(expr, ast.Subscript):
        r = _field_of(msgs, expr.value, env) if isinstance(expr.value, ast.Attribute) else None
        if r and r[0]['repeated']:
            return proto.find(msgs, r[0]['type'], r[1])
    if isinstance(expr, ast.Call) and isinstance(expr.func, ast.Attribute) and expr.func.attr == 'add':
        r = _field_of(msgs, expr.func.value, env) if isinstance(expr.func.value, ast.Attribute) else None
        if r and r[0]['repeated']:
            return proto.find(msgs, r[0]['type'], r[1])
    return None


_NUMERIC = {'int32', 'int64', 'uint32', 'uint64', 'sint32', 'sint64', 'fixed32', 'fixed64', 'float', 'double', 'bool'}


def _writer_presence(ctx, repo):
    """C16.j - writers do not take a numeric 0 for 'absent'."""
    ctx.decided.append('C16.j writers: a numeric proto field is never written under a bare truthiness test of the value being written (0 / 0.0 / False are values, not absence)')
    ctx.rule('C16.j', 'zero is a value on the writer side: in cirq_google functions that fill a generated message, an `if v:` (v an attribute, a getattr(...) or a local) whose body stores v '
             'into a numeric scalar field of the schema is a violation - the test must be `is not None`; tests guarding string / repeated / message fields are not concerned', floor=5, style='WR')
    msgs = _schemas(repo)
    n = 0
    for m in sorted(repo.modules.values(), key=lambda x: x.rel):
        if not m.rel.startswith('cirq-google/') or m.rel.endswith('_test.py') or '_pb2' in m.rel:
            continue
        for fn in [f for f in ast.walk(m.tree) if isinstance(f, ast.FunctionDef)]:
            env = {}
            for a in fn.args.args + fn.args.kwonlyargs:
                if a.annotation is not None:
                    t = ast.unparse(a.annotation).strip('\'"')
                    for part in t.split('|'):
                        nm = part.strip().split('.')[-1]
                        if '_pb2' in part and nm in msgs:
                            env[a.arg] = msgs[nm]
            if not env:
                continue
            grew = True
            while grew:
                grew = False
                for s in ast.walk(fn):
                    if isinstance(s, ast.Assign) and len(s.targets) == 1 and isinstance(s.targets[0], ast.Name) and s.targets[0].id not in env:
                        mm = _msg_of(msgs, s.value, env)
                        if mm is not None:
                            env[s.targets[0].id] = mm
                            grew = True
            for i_ in ast.walk(fn):
                if not isinstance(i_, ast.If):
                    continue
                stores = []
                for st in i_.body:
                    if isinstance(st, ast.Assign) and len(st.targets) == 1:
                        r = _field_of(msgs, st.targets[0], env)
                        if r and not r[0]['repeated'] and not r[0]['map'] and r[0]['type'] in _NUMERIC:
                            stores.append((st, r[0]))
                if not stores:
                    continue
                for st, f in stores:
                    n += 1
                    test = i_.test
                    vtxt = ast.unparse(st.value)

                    def same(a, b):
                        ta, tb = ast.unparse(a), ast.unparse(b)
                        if ta == tb:
                            return True
                        # getattr(x, 'idx', None)  ~  x.idx
                        for p_, q_ in ((a, b), (b, a)):
                            if isinstance(p_, ast.Call) and call_name(p_) == 'getattr' and len(p_.args) >= 2 and isinstance(p_.args[1], ast.Constant) \
                                    and isinstance(q_, ast.Attribute) and q_.attr == p_.args[1].value and ast.unparse(q_.value) == ast.unparse(p_.args[0]):
                                return True
                        return False
                    truthy = isinstance(test, (ast.Name, ast.Attribute, ast.Call)) and not (isinstance(test, ast.Call) and call_name(test) in ('isinstance', 'hasattr', 'HasField', 'callable')
                                                                                                  or isinstance(test, ast.Call) and isinstance(test.func, ast.Attribute) and test.func.attr == 'HasField')
                    bad = truthy and same(test, st.value)
                    ctx.ob('C16.j', f'{m.name}.{fn.name}:{ast.unparse(st.targets[0])}', not bad, '' if not bad else
                           f'`if {ast.unparse(test)}:` decides whether the {f["type"]} field {ast.unparse(st.targets[0])} is written: a value of 0 is treated as absent and read back as None/default',
                           m.rel, i_.lineno)
    # the same through a writer function: `if v: something_to_proto(v, out=...)` where v is a numeric attribute of a value class
    numeric_attr = {}
    for ci in repo.classes.values():
        if not ci.qual.startswith(('cirq.', 'cirq_google.')) or '.testing.' in ci.qual:
            continue
        for nm_, ann in list(ci.assigns.items()):
            pass
        for st in ci.node.body:
            if isinstance(st, ast.AnnAssign) and isinstance(st.target, ast.Name):
                t_ = ast.unparse(st.annotation)
                numeric_attr.setdefault(st.target.id, set()).add(t_)
        init = ci.methods.get('__init__')
        if init is not None:
            for a in init.args.args[1:] + init.args.kwonlyargs:
                if a.annotation is not None:
                    numeric_attr.setdefault(a.arg, set()).add(ast.unparse(a.annotation))

    def is_numeric_attr(name):
        anns = numeric_attr.get(name, set())
        return bool(anns) and all(any(tok in x for tok in ('int', 'float', 'complex', 'TParamVal')) and 'str' not in x and 'Sequence' not in x and 'list' not in x.lower() for x in anns)
    for m in sorted(repo.modules.values(), key=lambda x: x.rel):
        if not m.rel.startswith(('cirq-google/cirq_google/api/', 'cirq-google/cirq_google/serialization/')) or m.rel.endswith('_test.py') or '_pb2' in m.rel:
            continue
        for fn in [f for f in ast.walk(m.tree) if isinstance(f, ast.FunctionDef)]:
            for i_ in ast.walk(fn):
                if not isinstance(i_, ast.If):
                    continue
                for st in i_.body:
                    calls = [c for c in ast.walk(st) if isinstance(c, ast.Call) and (call_name(c) or '').split('.')[-1].endswith('_to_proto') and c.args]
                    for c in calls:
                        v = c.args[0]
                        if not (isinstance(v, ast.Attribute) and is_numeric_attr(v.attr)):
                            continue
                        n += 1
                        test = i_.test
                        bad = isinstance(test, ast.Attribute) and ast.unparse(test) == ast.unparse(v)
                        ctx.ob('C16.j', f'{m.name}.{fn.name}:{ast.unparse(v)}->{(call_name(c) or "").split(".")[-1]}', not bad, '' if not bad else
                               f'`if {ast.unparse(test)}:` decides whether the numeric attribute {ast.unparse(v)} is written at all: 0 is a legal value and is dropped (read back as None)',
                               m.rel, i_.lineno)
    if n == 0:
        raise AnalysisError('C16.j: no conditional store into a numeric proto field found')


def _reader_type_guards(ctx, repo):
    """C16.k - a type guard on a value read with an argument helper admits every type the helper can return."""
    ctx.decided.append('C16.k readers: isinstance guards on values returned by float_arg_from_proto / arg_from_proto admit int wherever they admit float (the helpers return whole numbers '
                       'as int, so a written 0.0 or 1.0 must pass the guard)')
    ctx.rule('C16.k', 'guard covers the helper\'s range: for every helper of arg_func_langs whose body converts whole floats to int, each isinstance(v, T) applied in cirq_google to a value v '
             'bound from a call of that helper names int (or a numbers.* class) whenever it names float', floor=2, style='COH')
    am = repo.module('cirq-google/cirq_google/serialization/arg_func_langs.py')
    helpers = set()
    for f in [x for x in am.tree.body if isinstance(x, ast.FunctionDef)]:
        if any(isinstance(c, ast.Call) and call_name(c) == 'int' for r in ast.walk(f) for c in ([r.value] if isinstance(r, ast.Return) and r.value is not None else
                                                                                                   [r.value] if isinstance(r, ast.Assign) else []) if c is not None for c in ast.walk(c)):
            helpers.add(f.name)
    if not helpers:
        raise AnalysisError('arg_func_langs: no helper converts whole floats to int any more (rule obsolete?)')
    n = 0
    for m in sorted(repo.modules.values(), key=lambda x: x.rel):
        if not m.rel.startswith('cirq-google/') or m.rel.endswith('_test.py') or '_pb2' in m.rel:
            continue
        for fn in [f for f in ast.walk(m.tree) if isinstance(f, ast.FunctionDef)]:
            bound = {}
            for s in ast.walk(fn):
                if isinstance(s, ast.Assign) and len(s.targets) == 1 and isinstance(s.targets[0], ast.Name) and isinstance(s.value, ast.Call) \
                        and (call_name(s.value) or '').split('.')[-1] in helpers:
                    bound.setdefault(s.targets[0].id, []).append(s)
            if not bound:
                continue
            for c in ast.walk(fn):
                if isinstance(c, ast.Call) and call_name(c) == 'isinstance' and len(c.args) == 2 and isinstance(c.args[0], ast.Name) and c.args[0].id in bound:
                    names = [ast.unparse(e) for e in (c.args[1].elts if isinstance(c.args[1], ast.Tuple) else [c.args[1]])]
                    if not any(t.split('.')[-1] == 'float' for t in names):
                        continue
                    n += 1
                    ok = any(t.split('.')[-1] in ('int', 'Real', 'Number', 'Complex', 'Integral') for t in names)
                    ctx.ob('C16.k', f'{m.name}.{fn.name}:isinstance({c.args[0].id}, {", ".join(names)})#{n}', ok, '' if ok else
                           f'`{ast.unparse(c)}` rejects the int that {sorted(helpers)} return for whole numbers: a value written as 0.0 / 1.0 cannot be read back', m.rel, c.lineno)
    if n == 0:
        raise AnalysisError('C16.k: no isinstance guard on a helper result found')


def _dedupe_keys(ctx, repo):
    """C16.l - the key under which a constant is shared distinguishes everything that is written into the constant."""
    ctx.decided.append('C16.l constants table: a moment (or sub-circuit) is shared between two uses only under a key that also compares the moment tags, which Moment.__eq__ ignores but the '
                       'Moment constant carries (1 known finding: the sub-circuit key)')
    ctx.rule('C16.l', 'dedupe key completeness: wherever CircuitSerializer looks a Moment or a circuit up in raw_constants, and Moment.__eq__ does not compare tags while the serializer writes '
             'moment.tags into the constant, the lookup key mentions the tags of the moment(s) - otherwise an equal moment with other tags is replaced by the first one seen', floor=2, style='COH')
    mo = repo.cls('cirq.circuits.moment.Moment')
    eq = mo.methods.get('__eq__')
    if eq is None:
        raise AnalysisError('Moment.__eq__ vanished')
    eq_sees_tags = any(isinstance(x, ast.Attribute) and x.attr in ('tags', '_tags') for x in ast.walk(eq))
    m = repo.module(SER)
    ci = repo.cls('cirq_google.serialization.circuit_serializer.CircuitSerializer')
    writes_tags = any(isinstance(x, ast.Attribute) and x.attr == 'tags' and isinstance(x.value, ast.Name) for f in ci.methods.values() if f.name == '_serialize_circuit' for x in ast.walk(f))
    n = 0
    for fn in ci.methods.values():
        circ_params = {a.arg for a in fn.args.args + fn.args.kwonlyargs if a.annotation is not None and 'Circuit' in ast.unparse(a.annotation) and '_pb2' not in ast.unparse(a.annotation)}
        role = {}
        for s in ast.walk(fn):
            if isinstance(s, ast.For) and isinstance(s.target, ast.Name) and isinstance(s.iter, ast.Name) and s.iter.id in circ_params:
                role[s.target.id] = 'moment'
            if isinstance(s, ast.Assign) and len(s.targets) == 1 and isinstance(s.targets[0], ast.Name) and isinstance(s.value, ast.Attribute) and s.value.attr == 'circuit':
                role[s.targets[0].id] = 'circuit'
        if not role:
            continue
        defs = {s.targets[0].id: s.value for s in ast.walk(fn) if isinstance(s, ast.Assign) and len(s.targets) == 1 and isinstance(s.targets[0], ast.Name)}
        for s in ast.walk(fn):
            key = None
            if isinstance(s, ast.Assign) and len(s.targets) == 1 and isinstance(s.targets[0], ast.Subscript) and ast.unparse(s.targets[0].value) == 'raw_constants':
                key = s.targets[0].slice
            if key is None:
                continue
            kexpr = defs.get(key.id, key) if isinstance(key, ast.Name) and key.id not in role else key
            roots = {x.id for x in ast.walk(kexpr) if isinstance(x, ast.Name) and x.id in role}
            for r in sorted(roots):
                n += 1
                sees = any(isinstance(x, ast.Attribute) and x.attr in ('tags', '_tags') for x in ast.walk(kexpr)) and (role[r] == 'moment' or any(isinstance(g, (ast.GeneratorExp, ast.ListComp)) for g in ast.walk(kexpr)))
                ok = eq_sees_tags or not writes_tags or sees
                ctx.ob('C16.l', f'{ci.qual}.{fn.name}:raw_constants[{role[r]}]', ok, '' if ok else
                       f'a {role[r]} is shared through raw_constants[{ast.unparse(kexpr)[:40]}]: equality of that key ignores moment tags (Moment.__eq__ compares operations only) but the constant '
                       'carries them, so a later equal moment with different tags is read back with the tags of the first', m.rel, s.lineno)
    if n == 0:
        raise AnalysisError('C16.l: no moment / circuit key in raw_constants found')


def _tag_order(ctx, repo):
    """C16.m - the reader rebuilds an operation's tags in the order they were written (TaggedOperation equality is order-sensitive)."""
    ctx.decided.append('C16.m operation tags come back in written order: the list read from tag_indices is not thinned by "already on the operation" unless the operation is stripped of its '
                       'restored tags first (otherwise tags restored from gate-specific fields jump to the front)')
    ctx.rule('C16.m', 'tag order: in CircuitSerializer._deserialize_gate_op, a comprehension / loop over operation_proto.tag_indices that skips tags found in <op>.tags is followed by a rebuild '
             'from the untagged operation (…untagged … with_tags(*restored, *listed)); skipping and then appending to the already tagged operation moves restored tags in front of the others',
             floor=1, style='MPT')
    ci = repo.cls('cirq_google.serialization.circuit_serializer.CircuitSerializer')
    fn = repo.method(ci.qual, '_deserialize_gate_op')
    comps = [c for c in ast.walk(fn) if isinstance(c, (ast.ListComp, ast.GeneratorExp)) and any('tag_indices' in ast.unparse(g.iter) for g in c.generators)]
    if not comps:
        raise AnalysisError('_deserialize_gate_op: the tag_indices comprehension vanished')
    for k, c in enumerate(comps, 1):
        filt = [i for g in c.generators for i in g.ifs if any(isinstance(x, ast.Compare) and isinstance(x.ops[0], ast.NotIn) and ast.unparse(x.comparators[0]).endswith('.tags') for x in ast.walk(i))]
        strips = any(isinstance(s, ast.Assign) and isinstance(s.value, ast.Attribute) and s.value.attr == 'untagged' and s.lineno > c.lineno for s in ast.walk(fn))
        ok = not filt or strips
        ctx.ob('C16.m', f'{ci.qual}._deserialize_gate_op:tag_indices#{k}', ok, '' if ok else
               f'`{ast.unparse(filt[0])[:70]}` drops listed tags that were already restored and the rest is appended behind them: with_tags(\'a\', PhysicalZTag()) is read back as '
               '(PhysicalZTag(), \'a\'), which is a different TaggedOperation', ci.mod.rel, c.lineno)


def _unset_string_default(ctx, repo):
    """C16.n - an unset proto3 string is read back as the constructor's default None, not as ''."""
    ctx.decided.append('C16.n readers: a proto3 string field without presence that feeds a constructor parameter whose default is None is read with `... or None` (or under a presence '
                       'test): the writer leaves the field unset for None, and \'\' is not the value that was written')
    ctx.rule('C16.n', 'unset string -> default: in cirq_google functions reading a generated message, a keyword argument k=<string field> (possibly wrapped in str()) of a repository class '
             'whose parameter k defaults to None maps the empty string back to None', floor=1, style='COH')
    msgs = _schemas(repo)
    n = 0
    for m in sorted(repo.modules.values(), key=lambda x: x.rel):
        if not m.rel.startswith('cirq-google/') or m.rel.endswith('_test.py') or '_pb2' in m.rel:
            continue
        for fn in [f for f in ast.walk(m.tree) if isinstance(f, ast.FunctionDef)]:
            env = {}
            for a in fn.args.args + fn.args.kwonlyargs:
                if a.annotation is not None:
                    for part in ast.unparse(a.annotation).strip('\'"').split('|'):
                        nm = part.strip().split('.')[-1]
                        if '_pb2' in part and nm in msgs:
                            env[a.arg] = msgs[nm]
            if not env:
                continue
            for c in ast.walk(fn):
                if not isinstance(c, ast.Call):
                    continue
                ci = None
                for kw in c.keywords:
                    if kw.arg is None:
                        continue
                    v = kw.value
                    if isinstance(v, ast.Name):
                        loc = [a_ for a_ in ast.walk(fn) if isinstance(a_, ast.Assign) and len(a_.targets) == 1 and isinstance(a_.targets[0], ast.Name) and a_.targets[0].id == v.id]
                        if len(loc) == 1:
                            v = loc[0].value
                    inner = v
                    mapped = False
                    if isinstance(v, ast.BoolOp) and isinstance(v.op, ast.Or) and isinstance(v.values[-1], ast.Constant) and v.values[-1].value is None:
                        inner, mapped = v.values[0], True
                    if isinstance(v, ast.IfExp):
                        inner, mapped = v.body, True
                    if isinstance(inner, ast.Call) and call_name(inner) == 'str' and inner.args:
                        inner = inner.args[0]
                    r = _field_of(msgs, inner, env) if isinstance(inner, ast.Attribute) else None
                    if not r or r[0]['type'] != 'string' or r[0]['repeated'] or r[0]['map'] or r[0].get('optional') or r[0].get('oneof'):
                        continue
                    ci = ci or repo.resolve_class(m, c.func)
                    if ci is None:
                        continue
                    found = repo.find_method(ci, '__init__')
                    if not found:
                        continue
                    init = found[1]
                    pos = init.args.args[1:]
                    dflt = dict(zip([a.arg for a in pos][len(pos) - len(init.args.defaults):], init.args.defaults))
                    dflt.update({a.arg: d for a, d in zip(init.args.kwonlyargs, init.args.kw_defaults) if d is not None})
                    d = dflt.get(kw.arg)
                    if not (isinstance(d, ast.Constant) and d.value is None):
                        continue
                    n += 1
                    ctx.ob('C16.n', f'{m.name}.{fn.name}:{ci.name}({kw.arg}=)', mapped, '' if mapped else
                           f'{ci.name}({kw.arg}={ast.unparse(v)}) turns an unset `{ast.unparse(inner)}` into \'\' although the parameter defaults to None and the writer leaves the field unset for '
                           'None: the default-constructed object does not round-trip to an equal one', m.rel, c.lineno)
    if n == 0:
        raise AnalysisError('C16.n: no string field feeding a None-default parameter found')


def _operand_order(ctx, repo, rid='C16.o'):
    """C16.o - the operands of a symbolic expression are written in their own order (Pow, Mod ... are not symmetric in their operands)."""
    ctx.decided.append(f'{rid} symbolic arguments: _arg_func_to_proto writes the operands of a sympy node in the node\'s own order - no sorted / reversed / set on value.args (base and '
                       'exponent of a power are told apart by position only)')
    ctx.rule(rid, 'operand order preserved: in cirq_google.serialization.arg_func_langs every loop that feeds <x>.args of a sympy value to arg_to_proto iterates <x>.args itself or a name '
             'bound only to it / to tuple(...) / list(...) of it - never through sorted, reversed, set or a sort key', floor=1, style='TNT')
    m = repo.module('cirq-google/cirq_google/serialization/arg_func_langs.py')
    REORDER = {'sorted', 'reversed', 'set', 'frozenset', 'sort', 'ordered', 'default_sort_key'}
    n = 0
    for fn in [f for f in ast.walk(m.tree) if isinstance(f, ast.FunctionDef)]:
        defs = {}
        for a in ast.walk(fn):
            if isinstance(a, ast.Assign) and len(a.targets) == 1 and isinstance(a.targets[0], ast.Name):
                defs.setdefault(a.targets[0].id, []).append(a.value)
        for lp in [l for l in ast.walk(fn) if isinstance(l, ast.For)]:
            if not any(isinstance(c, ast.Call) and (call_name(c) or '').split('.')[-1] == 'arg_to_proto' for c in ast.walk(lp)):
                continue
            exprs = [lp.iter]
            if isinstance(lp.iter, ast.Name):
                exprs = defs.get(lp.iter.id, [])
            if not any(isinstance(x, ast.Attribute) and x.attr == 'args' for e in exprs for x in ast.walk(e)):
                continue
            n += 1
            bad = [c for e in exprs for c in ast.walk(e) if (isinstance(c, ast.Call) and (call_name(c) or '').split('.')[-1] in REORDER)
                   or (isinstance(c, ast.Attribute) and c.attr in ('default_sort_key',))]
            ok = not bad
            ctx.ob(rid, f'{m.name}.{fn.name}:operands', ok, '' if ok else
                   f'the operands written in `for {ast.unparse(lp.target)} in {ast.unparse(lp.iter)}` can come from `{ast.unparse(bad[0])[:60]}`: re-ordering swaps base and exponent of a power '
                   '(x**2 is read back as 2**x)', m.rel, lp.lineno)
    if n == 0:
        raise AnalysisError('C16.o: no loop writing the operands of a symbolic value found')


def _complete_scan(ctx, repo):
    """C16.p - a scan that classifies *and* validates the elements of a sequence visits all of them unless it records why it stopped."""
    ctx.decided.append('C16.p arg_to_proto: the loop that chooses the packed numeric field for a sequence and detects a non-numeric element leaves early only after recording that element; '
                       'an early exit "because the widest field is reached" would leave later elements unchecked and push them through float()')
    ctx.rule('C16.p', 'complete scan: in cirq_google.serialization.arg_func_langs, for every for-loop that is followed by a test of a flag variable initialised to None before the loop, each '
             '`break` inside the loop stands in a block that assigns that flag', floor=1, style='MPT')
    m = repo.module('cirq-google/cirq_google/serialization/arg_func_langs.py')
    n = 0
    for fn in [f for f in ast.walk(m.tree) if isinstance(f, ast.FunctionDef)]:
        for blk in [b for b in ast.walk(fn) if hasattr(b, 'body') and isinstance(getattr(b, 'body'), list)]:
            for stmts in (blk.body, getattr(blk, 'orelse', [])):
                for i, st in enumerate(stmts):
                    if not isinstance(st, ast.For) or i + 1 >= len(stmts) or not isinstance(stmts[i + 1], ast.If):
                        continue
                    test = stmts[i + 1].test
                    flags = {x.id for x in ast.walk(test) if isinstance(x, ast.Name)}
                    inits = {t.id for s in stmts[:i] if isinstance(s, ast.Assign) and isinstance(s.value, ast.Constant) and s.value.value is None for t in s.targets if isinstance(t, ast.Name)}
                    flag = flags & inits
                    if not flag:
                        continue
                    par = m.parents()
                    for b in [x for x in ast.walk(st) if isinstance(x, ast.Break)]:
                        # the statement list the break sits in
                        p = par.get(b)
                        sibs = []
                        for field in ('body', 'orelse'):
                            lst = getattr(p, field, None)
                            if isinstance(lst, list) and b in lst:
                                sibs = lst
                        # breaks of nested loops belong to those loops
                        q, inner = b, False
                        while q is not st:
                            q = par[q]
                            if isinstance(q, (ast.For, ast.While)) and q is not st:
                                inner = True
                        if inner:
                            continue
                        n += 1
                        ok = any(isinstance(s, ast.Assign) and any(isinstance(t, ast.Name) and t.id in flag for t in s.targets) for s in sibs)
                        ctx.ob('C16.p', f'{m.name}.{fn.name}:break@{sorted(flag)[0]}#{n}', ok, '' if ok else
                               f'the loop over `{ast.unparse(st.iter)}` is left at line {b.lineno} without setting `{sorted(flag)[0]}`: elements after that point are never examined, so a '
                               'non-numeric element behind a float is written into a numeric field (or raises) instead of taking the generic encoding', m.rel, b.lineno)
    if n == 0:
        raise AnalysisError('C16.p: no flag-recording scan loop found in arg_func_langs')


def _positional_sequences(ctx, repo):
    """C16.q - a sequence attribute of a gate is written element by element: positions are meaningful (neighbour 0 / neighbour 1), so nothing is filtered out."""
    ctx.decided.append('C16.q writer: comprehensions over a sequence attribute of the gate being serialized have no filter (dropping a None entry shifts the remaining entries to other positions)')
    ctx.rule('C16.q', 'positional sequences: in CircuitSerializer._serialize_gate_op every comprehension / generator whose iterable is an attribute of the gate has no `if` clause', floor=2, style='WR')
    ci = repo.cls('cirq_google.serialization.circuit_serializer.CircuitSerializer')
    fn = repo.method(ci.qual, '_serialize_gate_op')
    gate_names = {a.targets[0].id for a in ast.walk(fn) if isinstance(a, ast.Assign) and len(a.targets) == 1 and isinstance(a.targets[0], ast.Name)
                  and isinstance(a.value, ast.Attribute) and a.value.attr == 'gate'}
    n = 0
    for c in ast.walk(fn):
        if not isinstance(c, (ast.ListComp, ast.GeneratorExp, ast.SetComp)):
            continue
        g = c.generators[0]
        if not (isinstance(g.iter, ast.Attribute) and isinstance(g.iter.value, ast.Name) and g.iter.value.id in gate_names):
            continue
        n += 1
        ok = not g.ifs
        ctx.ob('C16.q', f'{ci.qual}._serialize_gate_op:{g.iter.attr}#{n}', ok, '' if ok else
               f'`{ast.unparse(c)[:80]}` skips entries of {ast.unparse(g.iter)}: the reader assigns what is left by position, so (None, f) comes back as (f,) or (f, None)', ci.mod.rel, c.lineno)
    if n == 0:
        raise AnalysisError('C16.q: no comprehension over a gate attribute in _serialize_gate_op')


# ---------------------------------------------------------------------------------------------------------------------
SIBLING_CTOR_EXEMPT = {
    ('cirq_google.serialization.circuit_serializer', 'v2.program_pb2.Constant'): 'a oneof message: each site sets the one alternative it holds',
    ('cirq_google.devices.grid_device', 'cirq.GridDeviceMetadata'): '_from_device_information has no qubit attributes to hand on (they only exist in a DeviceSpecification)',
}


def _sibling_constructions(ctx, repo):
    """C16.r - all sites of one module that construct the same message / value class by keyword agree on the keyword set."""
    ctx.decided.append('C16.r conversion code that builds the same message or value class at several sites passes the same fields at each (a field copied by one writer / reader and forgotten by its sibling)')
    ctx.rule('C16.r', 'sibling constructions agree: within one module of cirq_google.api / serialization / study / devices, when a class or proto message (capitalised callee) is constructed '
             'with keyword arguments only in two or more different functions, every site passes every keyword some sibling passes (oneof messages and tabled exceptions aside) - '
             'path and idx copied, units forgotten', floor=3, style='COH')
    n = 0
    for m in sorted(repo.modules.values(), key=lambda x: x.rel):
        if not m.rel.startswith(('cirq-google/cirq_google/api/', 'cirq-google/cirq_google/serialization/', 'cirq-google/cirq_google/study/', 'cirq-google/cirq_google/devices/')) \
                or m.rel.endswith('_test.py') or '_pb2' in m.rel:
            continue
        par = m.parents()
        groups = {}
        for c in ast.walk(m.tree):
            if not isinstance(c, ast.Call):
                continue
            d = dotted(c.func)
            if not d or not d.split('.')[-1][:1].isupper() or c.args or not c.keywords or any(k.arg is None for k in c.keywords):
                continue
            fn = c
            while fn in par and not isinstance(fn, (ast.FunctionDef, ast.AsyncFunctionDef)):
                fn = par[fn]
            groups.setdefault(d, []).append((getattr(fn, 'name', '<module>'), c, frozenset(k.arg for k in c.keywords)))
        for d, sites in sorted(groups.items()):
            if len({s[0] for s in sites}) < 2:
                continue
            allk = set().union(*[s[2] for s in sites])
            ex = SIBLING_CTOR_EXEMPT.get((m.name, d))
            for fname, c, kws in sites:
                miss = sorted(allk - kws)
                n += 1
                ok = not miss or ex is not None
                ctx.ob('C16.r', f'{m.name}.{fname}:{d}({",".join(sorted(kws))})', ok, ('tabled: ' + ex) if (ex and miss) else '' if ok else
                       f'`{d}(...)` is built here without {miss}, which a sibling site of the same module passes: the field is lost on this path', m.rel, c.lineno)
    if n == 0:
        raise AnalysisError('C16.r: no sibling constructions found')


def _exhaustive_match(ctx, repo):
    """C16.s - a `match` in conversion code that is not exhaustive must not fall through silently."""
    ctx.decided.append('C16.s every match statement of the conversion code has a default arm (or is directly followed by a raise / return): an unlisted alternative is refused, not skipped')
    ctx.rule('C16.s', 'exhaustive dispatch: every `match` statement in a writer (…to_proto / serialize…) of cirq_google.api / serialization has a wildcard `case _` arm, or the statement after it in the same block raises or '
             'returns - a value of an unlisted kind (dtype, oneof alternative) is otherwise converted to nothing without an error', floor=3, style='RG')
    from ..flow import block_of
    n = 0
    for m in sorted(repo.modules.values(), key=lambda x: x.rel):
        if not m.rel.startswith(('cirq-google/cirq_google/api/', 'cirq-google/cirq_google/serialization/')) or m.rel.endswith('_test.py') or '_pb2' in m.rel:
            continue
        par = m.parents()
        for fn in [f for f in ast.walk(m.tree) if isinstance(f, (ast.FunctionDef, ast.AsyncFunctionDef))]:
            k = 0
            writer = ('to_proto' in fn.name or ('serialize' in fn.name and 'deserialize' not in fn.name))
            for st in ast.walk(fn):
                if not isinstance(st, ast.Match):
                    continue
                k += 1
                n += 1
                if not writer:
                    # readers: an unset / unknown alternative maps to the documented default (None) - counted, not constrained
                    ctx.ob('C16.s', f'{m.name}.{fn.name}:match#{k}:{ast.unparse(st.subject)[:40]}', True, 'reader: default result documented', m.rel, st.lineno)
                    continue
                wild = any(isinstance(c.pattern, ast.MatchAs) and c.pattern.pattern is None and c.guard is None for c in st.cases)
                nxt = None
                pp = par.get(st)
                for fld in ('body', 'orelse', 'finalbody'):
                    blk = getattr(pp, fld, None)
                    if isinstance(blk, list) and st in blk:
                        i = blk.index(st)
                        nxt = blk[i + 1] if i + 1 < len(blk) else None
                ok = wild or isinstance(nxt, (ast.Raise, ast.Return))
                ctx.ob('C16.s', f'{m.name}.{fn.name}:match#{k}:{ast.unparse(st.subject)[:40]}', ok, '' if ok else
                       f'`match {ast.unparse(st.subject)[:40]}` has no default arm and nothing after it: an alternative that is not listed is silently skipped', m.rel, st.lineno)
    if n == 0:
        raise AnalysisError('C16.s: no match statements in the conversion code')


def _common_unit(ctx, repo):
    """C16.t - numbers written next to a unit are magnitudes in that unit."""
    ctx.decided.append('C16.t sweep writer: where one unit is written for several unit-carrying values (unit.to_proto(<msg>.unit)), every number stored into the other fields of that message '
                       'in the same branch is the magnitude in that unit (<value>[unit]), not in the value\'s own unit')
    ctx.rule('C16.t', 'one unit for all numbers: in cirq_google.api.v2.sweeps, for every `U.to_proto(M.unit)` the stores into float / double fields of M that can run together with it (assignments and '
             '.extend(...) of generator elements) are subscripts `<expr>[U]`; `.value` (the magnitude in the value\'s own unit) or a bare unit-carrying value would be read back in the '
             'wrong unit when start and stop (or the points) are written in different units', floor=4, style='WR')
    m = repo.module('cirq-google/cirq_google/api/v2/sweeps.py')
    par = m.parents()
    n = 0
    for fn in [f for f in ast.walk(m.tree) if isinstance(f, ast.FunctionDef)]:
        for c in ast.walk(fn):
            if not (isinstance(c, ast.Call) and isinstance(c.func, ast.Attribute) and c.func.attr == 'to_proto' and len(c.args) == 1
                    and isinstance(c.args[0], ast.Attribute) and c.args[0].attr == 'unit'):
                continue
            U = ast.unparse(c.func.value)
            M = ast.unparse(c.args[0].value)
            # statements that cannot run together with the unit write: the other arm of an `if` that encloses it
            st = c
            while st in par and not isinstance(st, ast.stmt):
                st = par[st]
            excluded = set()
            cur = st
            while cur in par and cur is not fn:
                pp = par[cur]
                if isinstance(pp, ast.If):
                    other = pp.orelse if cur in pp.body else pp.body
                    for o_ in other:
                        for x in ast.walk(o_):
                            excluded.add(id(x))
                cur = pp
            for s_ in ast.walk(fn):
                if id(s_) in excluded:
                    continue
                val = tgt = None
                if isinstance(s_, ast.Assign) and len(s_.targets) == 1 and isinstance(s_.targets[0], ast.Attribute) and ast.unparse(s_.targets[0].value) == M:
                    tgt, val = s_.targets[0].attr, s_.value
                elif isinstance(s_, ast.Call) and isinstance(s_.func, ast.Attribute) and s_.func.attr in ('extend', 'append') and isinstance(s_.func.value, ast.Attribute) \
                        and ast.unparse(s_.func.value.value) == M and s_.args:
                    tgt = s_.func.value.attr
                    val = s_.args[0].elt if isinstance(s_.args[0], (ast.GeneratorExp, ast.ListComp)) else s_.args[0]
                if tgt is None or not ('point' in tgt or 'value' in tgt) or tgt.startswith('num_'):
                    continue
                n += 1

                def in_unit(e, depth=0):
                    if isinstance(e, ast.Subscript) and ast.unparse(e.slice) == U:
                        return True
                    if isinstance(e, ast.Name) and depth < 3:
                        # a named local: every definition of it (element-wise for tuple assignments) is a magnitude in the unit
                        ds = []
                        for a_ in ast.walk(fn):
                            if isinstance(a_, ast.Assign) and len(a_.targets) == 1:
                                t_ = a_.targets[0]
                                if isinstance(t_, ast.Name) and t_.id == e.id:
                                    ds.append(a_.value)
                                elif isinstance(t_, ast.Tuple) and isinstance(a_.value, ast.Tuple) and len(t_.elts) == len(a_.value.elts):
                                    for te, ve in zip(t_.elts, a_.value.elts):
                                        if isinstance(te, ast.Name) and te.id == e.id:
                                            ds.append(ve)
                        ds = [d_ for d_ in ds if id(d_) not in excluded]
                        return bool(ds) and all(in_unit(d_, depth + 1) for d_ in ds)
                    return False
                ok = in_unit(val)
                ctx.ob('C16.t', f'{m.name}.{fn.name}:{M}.{tgt}', ok, '' if ok else
                       f'`{ast.unparse(s_)[:90]}` can run together with `{ast.unparse(c)[:50]}` but is not the magnitude in that unit (`<value>[{U}]`): a value given in another unit '
                       '(stop=2*us with start=500*ns) is read back in the wrong unit', m.rel, s_.lineno)
    if n == 0:
        raise AnalysisError('C16.t: no number written next to a unit found')


def _stripped_tags(ctx, repo):
    """C16.u - a writer branch that serialises `<op>.untagged` accounts for `<op>.tags` (writes them or refuses)."""
    ctx.decided.append('C16.u circuit writer: a branch that hands `<op>.untagged` to a serializer also looks at `<op>.tags` (to write them or to refuse): tags are part of the value and of equality')
    ctx.rule('C16.u', 'no silent untagging: in CircuitSerializer._serialize_circuit every if-branch whose body passes `<x>.untagged` (possibly through further attribute / method access) to a '
             'serializer call reads `<x>.tags` in the same branch', floor=1, style='WR')
    ci = repo.cls('cirq_google.serialization.circuit_serializer.CircuitSerializer')
    fn = ci.methods.get('_serialize_circuit')
    if fn is None:
        raise AnalysisError('CircuitSerializer._serialize_circuit vanished')
    n = 0
    for i_ in ast.walk(fn):
        if not isinstance(i_, ast.If):
            continue
        body_nodes = [x for s_ in i_.body for x in ast.walk(s_)]
        vars_ = set()
        for c in body_nodes:
            if isinstance(c, ast.Call):
                for a in list(c.args) + [k.value for k in c.keywords]:
                    for x in ast.walk(a):
                        if isinstance(x, ast.Attribute) and x.attr == 'untagged' and isinstance(x.value, ast.Name):
                            vars_.add(x.value.id)
        for v in sorted(vars_):
            n += 1
            ok = any(isinstance(x, ast.Attribute) and x.attr == 'tags' and isinstance(x.value, ast.Name) and x.value.id == v for x in body_nodes)
            ctx.ob('C16.u', f'{ci.qual}._serialize_circuit:{v}.untagged', ok, '' if ok else
                   f'the branch writes `{v}.untagged` and never looks at `{v}.tags`: tags on the operation vanish on the wire and the round trip is unequal', ci.mod.rel, i_.lineno)
    if n == 0:
        raise AnalysisError('C16.u: no branch serialising an untagged operation found')


def _sweep_subclass_shadowing(ctx, repo, rid='C16.v', prefixes=('cirq-google/cirq_google/api/',), floor=2):
    """C16.v - a sweep class with a subclass of different meaning (Zip / ZipLongest) is never recognised by isinstance alone."""
    from ..core import ClassInfo
    ctx.decided.append(f'{rid} sweep code: wherever a concrete sweep class that has a concrete subclass with its own param_tuples (Zip <- ZipLongest) is recognised by isinstance, the '
                       'same function also tests for the subclass')
    ctx.rule(rid, 'no subclass taken for its base: under ' + ', '.join(prefixes) + ', every function that tests isinstance(x, C) for a sweep class C defining param_tuples, where a subclass D of C '
             'defines its own param_tuples, also tests isinstance(..., D) - D would otherwise be treated as a C (written as one, spliced like one) and enumerate other points', floor=floor, style='RG')
    sw = repo.module('cirq-core/cirq/study/sweeps.py')
    pairs = []
    classes = [c for c in repo.classes.values() if c.mod is sw]
    for c in classes:
        if 'param_tuples' not in c.methods or any('abstractmethod' in ast.unparse(dc) for dc in c.methods['param_tuples'].decorator_list):
            continue
        for d in classes:
            if d is not c and c in repo.mro(d)[1:] and 'param_tuples' in d.methods:
                pairs.append((c, d))
    if not pairs:
        raise AnalysisError(f'{rid}: no sweep class with an overriding subclass found')
    n = 0
    for m in sorted(repo.modules.values(), key=lambda x: x.rel):
        if not m.rel.startswith(tuple(prefixes)) or m.rel.endswith('_test.py') or '_pb2' in m.rel:
            continue
        for fn in [f for f in ast.walk(m.tree) if isinstance(f, ast.FunctionDef)]:
            if fn.name in ('__str__', '__repr__', '_repr_pretty_'):
                continue   # display only: no points are enumerated
            tested = {}
            for c in ast.walk(fn):
                if isinstance(c, ast.Call) and call_name(c) == 'isinstance' and len(c.args) == 2:
                    for t in (c.args[1].elts if isinstance(c.args[1], ast.Tuple) else [c.args[1]]):
                        r = repo.resolve_in_func(m, fn, dotted(t) or '')
                        if isinstance(r, ClassInfo):
                            tested.setdefault(r.qual, c)
            for base, sub in pairs:
                if base.qual in tested:
                    n += 1
                    ok = sub.qual in tested
                    ctx.ob(rid, f'{m.name}.{fn.name}:{base.name}<-{sub.name}', ok, '' if ok else
                           f'`{ast.unparse(tested[base.qual])}` is also true for a {sub.name}, whose points differ from those of a {base.name} over the same factors; the function never tests '
                           f'for {sub.name}', m.rel, tested[base.qual].lineno)
    if n == 0:
        raise AnalysisError(f'{rid}: no isinstance test on such a sweep class found under {prefixes}')


NARROW_FIELD_EXEMPT = {
    ('cirq_google.serialization.arg_func_langs', 'float_arg_to_proto'): 'FloatArg has no wider numeric field; the function is documented for float arguments (angles, exponents) only',
}


def _integers_not_narrowed(ctx, repo, rid='C16.w'):
    """An integer is written into a float32 proto field only behind a test that float32 holds it exactly."""
    from ..flow import dominating_atoms
    ctx.decided.append(f'{rid} a value that may be an integer reaches a float32 field (`float_value`) only under a float32 exactness test (or the integer case is taken by an earlier branch)')
    ctx.rule(rid, 'integers are not rounded: a store into a `float_value` field (float32 in the schema) whose dominating type tests admit integers (int / np.integer / numbers.Integral, '
             'directly or through a module constant such as FLOAT_TYPES) is dominated by a test mentioning float32, or an earlier branch has taken the integers - a bitmask or '
             'count above 2**24 otherwise comes back as a different integer (16777217 -> 16777216), which is a different classical control, not a rounding', floor=3, style='RG')
    INTLIKE = {'int', 'np.integer', 'numpy.integer', 'numbers.Integral', 'numbers.Real', 'numbers.Number'}
    n = 0
    for m in sorted(repo.modules.values(), key=lambda x: x.rel):
        if not m.rel.startswith('cirq-google/cirq_google/') or m.rel.endswith('_test.py') or '_pb2' in m.rel:
            continue
        consts = {}
        for st in m.tree.body:
            if isinstance(st, ast.Assign) and len(st.targets) == 1 and isinstance(st.targets[0], ast.Name) and isinstance(st.value, ast.Tuple):
                consts[st.targets[0].id] = {ast.unparse(e) for e in st.value.elts}
        par = None
        for fn in [f for f in ast.walk(m.tree) if isinstance(f, ast.FunctionDef)]:
            for st in ast.walk(fn):
                if not (isinstance(st, ast.Assign) and len(st.targets) == 1 and isinstance(st.targets[0], ast.Attribute) and st.targets[0].attr == 'float_value'):
                    continue
                if par is None:
                    par = m.parents()

                def types_of(call):
                    t = call.args[1]
                    els = t.elts if isinstance(t, ast.Tuple) else [t]
                    out = set()
                    for e in els:
                        s_ = ast.unparse(e)
                        out |= consts.get(s_, {s_})
                    return out
                admits, excluded, exact = False, False, False
                for a, pol in dominating_atoms(par, st, fn):
                    txt = ast.unparse(a)
                    if 'float32' in txt:
                        exact = True
                    if isinstance(a, ast.Call) and call_name(a) == 'isinstance' and len(a.args) == 2:
                        ts = types_of(a)
                        if pol and ts & INTLIKE:
                            admits = True
                        if not pol and ts & {'int', 'numbers.Integral', 'np.integer', 'numpy.integer'}:
                            excluded = True
                n += 1
                key = (m.name, fn.name)
                ok = (not admits) or excluded or exact or key in NARROW_FIELD_EXEMPT
                ctx.ob(rid, f'{m.name}.{fn.name}:float_value@{st.lineno - fn.lineno}', ok, '' if ok else
                       f'`{ast.unparse(st)}` can receive an integer (the dominating type test admits one) and nothing tests that float32 holds it exactly', m.rel, st.lineno)
    if n == 0:
        raise AnalysisError(f'{rid}: no store into a float_value field found')
