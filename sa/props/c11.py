"""C11 - JSON round-trips every value and keeps reading old documents.

Decided (structure only): registry keys resolve; writer keys / constructor / reader agree;
equality fields are written; hash fields are compared; cached hashes are stripped from
pickles; every cirq_type of the stored corpus is still resolvable.
Not decided: value-level equality after a round trip, numpy/pandas payloads, repr eval.
"""
from __future__ import annotations

import ast
import os
import re

from ..core import AnalysisError, ClassInfo, FuncInfo, call_name, dotted, func_param_defaults, is_self_attr, walk_local
from .. import coh
from .. import fields as F
from . import shared

RESOLVERS = [
    ('cirq-core/cirq/json_resolver_cache.py', 'cirq-core/cirq/protocols/json_test_data', 150),
    ('cirq-google/cirq_google/json_resolver_cache.py', 'cirq-google/cirq_google/json_test_data', 40),
    ('cirq-ionq/cirq_ionq/json_resolver_cache.py', 'cirq-ionq/cirq_ionq/json_test_data', 5),
    ('cirq-aqt/cirq_aqt/json_resolver_cache.py', 'cirq-aqt/cirq_aqt/json_test_data', 0),
    ('cirq-pasqal/cirq_pasqal/json_resolver_cache.py', 'cirq-pasqal/cirq_pasqal/json_test_data', 4),
]

# (class qual, parameter) -> why the constructor parameter need not be a JSON key
CTOR_EXEMPT = {
    ('cirq.ops.matrix_gates.MatrixGate', 'unitary_check'): 'validation switch, not stored state of the value',
    ('cirq.ops.matrix_gates.MatrixGate', 'unitary_check_rtol'): 'validation tolerance only',
    ('cirq.ops.matrix_gates.MatrixGate', 'unitary_check_atol'): 'validation tolerance only',
    ('cirq_google.workflow.qubit_placement.RandomDevicePlacer', 'topo_node_to_qubit_func'):
        'a Python callable: not representable in JSON, and the class equality deliberately ignores it',
}
# (class qual, field) -> why an equality field need not be written
EQ_EXEMPT = {}


def resolver_entries(repo, rel):
    m = repo.module(rel)
    fn = m.defs.get('_class_resolver_dictionary')
    if fn is None:
        raise AnalysisError(f'{rel}: _class_resolver_dictionary vanished')
    env = repo.local_env(fn)
    out = []
    for n in ast.walk(fn):
        if isinstance(n, ast.Return) and isinstance(n.value, ast.Dict):
            for k, v in zip(n.value.keys, n.value.values):
                if not (isinstance(k, ast.Constant) and isinstance(k.value, str)):
                    continue
                d = dotted(v)
                res = repo.resolve_in_func(m, fn, d, env) if d else ('inline', v)
                if res is None and d in ('complex', 'int', 'float', 'str', 'tuple', 'list', 'frozenset', 'set'):
                    res = ('external', d)
                out.append((k.value, v, res, k.lineno))
    return m, fn, out


def json_namespace(repo, ci):
    r = repo.find_method(ci, '_json_namespace_')
    if r is None:
        return ''
    for n in ast.walk(r[1]):
        if isinstance(n, ast.Return) and isinstance(n.value, ast.Constant):
            return n.value.value
    return None


def run(ctx):
    repo = ctx.repo
    _no_hash_keyed_tables(ctx, repo)
    _reader_builds_with_cls(ctx, repo)
    _repr_covers_equality(ctx, repo)
    _repr_keeps_order_of_equality(ctx, repo, 'C11.u')
    _json_keys_decided_independently(ctx, repo)
    shared.mapping_order_in_equality_rule(ctx, 'C11.r')
    shared.frozen_dataclass_eq_hash_rule(ctx, 'C11.s')
    shared.equality_reads_verbatim_rule(ctx, 'C11.t')
    _bytes_identity_rule(ctx, repo)
    _key_string_rule(ctx, repo)
    shared.module_state_rule(ctx, 'C11.j', ['cirq-core/cirq/protocols/', 'cirq-core/cirq/value/', 'cirq-core/cirq/study/', 'cirq-core/cirq/_compat.py'], floor=3)
    ctx.decided.append('C11.j JSON/equality machinery keeps no state between calls apart from the tabled import-time registries')
    ctx.decided += [
        'C11.a every resolver key maps to an existing definition and is the class name (with namespace)',
        'C11.b JSON keys vs constructor: keys accepted, required parameters written, state-backing parameters written',
        'C11.c _from_json_dict_ accepts the written keys and forwards its named parameters',
        'C11.d hash fields are equality fields; equality fields are written to JSON',
        'C11.e memoised hashes are stripped by __getstate__',
        'C11.f every cirq_type in the stored corpus is a resolver key',
        'C11.h value_equality pairs the cached hash with a __getstate__ that drops it; no method writes an equality field after construction',
    ]
    ctx.not_decided += ['value equality after a round trip', 'numpy/pandas/sympy payload encodings',
                        'repr evaluation', 'total ordering of qubits']

    ctx.rule('C11.a', 'resolver registry: key -> existing class/function; for classes key == [namespace.]ClassName '
             'or the class is registered under its own name as well (legacy alias)', floor=200, style='WR')
    ctx.rule('C11.b', 'constructor coverage: when the reader is the constructor, JSON keys are constructor parameters, '
             'required parameters are always written, and every parameter backing stored state is written '
             '(or feeds only fields another written key feeds)', floor=120, style='COH')
    ctx.rule('C11.c', '_from_json_dict_: written keys are accepted (named or **kwargs) and each named parameter is used', floor=30, style='WR')
    ctx.rule('C11.d', 'equality fields are written: every field compared by equality is read by the JSON writer; '
             'hash fields are a subset of equality fields', floor=100, style='COH')

    ctx.rule('C11.d3', 'lossless writer values: the value written under a JSON key is never replaced by a constant depending on another '
             'field (conditional expression / short-circuit with a constant arm)', floor=150, style='COH')
    registered = {}
    all_keys = {}
    all_entries = []
    for rel, corpus, fl in RESOLVERS:
        all_entries += resolver_entries(repo, rel)[2]
    for rel, corpus, fl in RESOLVERS:
        m, fn, entries = resolver_entries(repo, rel)
        if len(entries) < fl:
            raise AnalysisError(f'{rel}: only {len(entries)} resolver entries (floor {fl})')
        keys = set()
        for key, vnode, res, line in entries:
            keys.add(key)
            okey = f'{rel}:{key}'
            if res is None:
                ctx.ob('C11.a', okey, False, f'resolver value `{ast.unparse(vnode)}` does not resolve to a definition',
                       rel, line)
                continue
            if isinstance(res, ClassInfo):
                ns = json_namespace(repo, res)
                want = f'{ns}.{res.name}' if ns else res.name
                ok = key == want
                if not ok:
                    # legacy alias: allowed when the class is also registered under its own name
                    ok = any(k2 == want for k2, _, r2, _ in all_entries if r2 is res)
                ctx.ob('C11.a', okey, ok, '' if ok else f'key `{key}` maps to class {res.qual} whose cirq_type is `{want}` '
                       'and that name is not registered: documents written now cannot be read', rel, line)
                registered.setdefault(res.qual, (res, key, rel))
            else:
                ctx.ob('C11.a', okey, True, '', rel, line)
        all_keys[rel] = keys

    # -------------------------------------------------------------- per class
    for qual, (ci, key, rel) in sorted(registered.items()):
        _class_rules(ctx, repo, ci)

    # ------------------------------------------------------------------ C11.e
    ctx.rule('C11.e', 'a class that memoises its hash in an instance attribute strips exactly that attribute in __getstate__', floor=5, style='COH')
    _hash_pickle_rule(ctx, repo, set(registered))

    # ------------------------------------------------------------------ C11.h
    _value_equality_rules(ctx, repo)

    # ------------------------------------------------------------------ C11.i
    ctx.decided.append('C11.i value equality of every value class covers each stored constructor parameter (otherwise "reads back to an equal value" says nothing about it)')
    ctx.rule('C11.i', 'equality completeness: for every class with _value_equality_values_, each constructor parameter that backs stored state is read by the equality values '
             '(listed exceptions: tolerances, connection handles)', floor=80, style='COH')
    EQ_PARAM_EXEMPT = {
        ('cirq.ops.pauli_sum_exponential.PauliSumExponential', 'atol'): 'tolerance of the commutation check made in __init__, not part of the value',
        ('cirq_google.engine.engine.EngineContext', 'timeout'): 'connection context, compared by client and protocol version on purpose',
        ('cirq_google.engine.engine.EngineContext', 'serializer'): 'connection context',
        ('cirq_google.engine.engine.EngineContext', 'enable_streaming'): 'connection context',
        ('cirq_google.engine.engine.EngineContext', 'compress_run_context'): 'connection context',
    }
    for vc in sorted(repo.classes.values(), key=lambda c: c.qual):
        if '.testing.' in vc.qual or '.contrib.' in vc.qual:
            continue
        ve = vc.methods.get('_value_equality_values_')
        if ve is None:
            continue
        p2f_ = F.init_param_to_field(repo, vc)
        rd_ = F.self_reads(repo, vc, ve, depth=2)
        if not p2f_ or '<self>' in rd_:
            continue
        miss_ = []
        for p_, fs_ in p2f_.items():
            fs_ = {f for f in fs_ if '.' not in f}
            if not fs_ or (vc.qual, p_) in EQ_PARAM_EXEMPT:
                continue
            if fs_ & rd_ or F.norm_field(repo, vc, p_) in rd_ or any(p_ == r.lstrip('_') for r in rd_):
                continue
            miss_.append(p_)
        ctx.ob('C11.i', vc.qual + (':' + ','.join(miss_) if miss_ else ''), not miss_,
               '' if not miss_ else f'{vc.name}.__init__ stores {miss_}, but _value_equality_values_ ignores {"it" if len(miss_) == 1 else "them"}: values that differ only there '
               'compare (and hash) equal, so every round-trip check passes even when the field is lost', vc.mod.rel, ve.lineno, construct=vc.qual)

    # ------------------------------------------------------------------ C11.f
    ctx.rule('C11.f', 'corpus: every "cirq_type" string in */json_test_data/*.json{,_inward} is a key of some resolver', floor=250, style='WR')
    union = set().union(*all_keys.values())
    jm = repo.module('cirq-core/cirq/protocols/json_serialization.py')
    internal_read = set()
    internal_written = set()
    # locals that hold the document's "cirq_type" entry: bound from an expression that subscripts / gets / pops the literal key
    type_names = {'cirq_type'}
    for n in ast.walk(jm.tree):
        if isinstance(n, ast.Assign) and len(n.targets) == 1 and isinstance(n.targets[0], ast.Name) and \
                any(isinstance(c, ast.Constant) and c.value == 'cirq_type' for c in ast.walk(n.value)) and not isinstance(n.value, ast.Dict):
            type_names.add(n.targets[0].id)
    for n in ast.walk(jm.tree):
        if isinstance(n, ast.Compare) and isinstance(n.left, ast.Name) and n.left.id in type_names and \
                isinstance(n.comparators[0], ast.Constant):
            internal_read.add(n.comparators[0].value)
        if isinstance(n, ast.Assign) and any(isinstance(t, ast.Name) and t.id == 'LEGACY_CONTEXT_TYPES' for t in n.targets) \
                and isinstance(n.value, ast.Set):
            internal_read |= {e.value for e in n.value.elts if isinstance(e, ast.Constant)}
        if isinstance(n, ast.Dict):
            for k, v in zip(n.keys, n.values):
                if isinstance(k, ast.Constant) and k.value == 'cirq_type' and isinstance(v, ast.Constant):
                    internal_written.add(v.value)
    ctx.ob('C11.f', 'cirq.protocols.json_serialization:internal-types', internal_written <= (internal_read | union) and bool(internal_written),
           f'encoder emits cirq_type(s) {sorted(internal_written - internal_read - union)} that neither the object hook nor any resolver handles',
           jm.rel, 1)
    union |= internal_read
    nfiles = 0
    pat = re.compile(r'"cirq_type"\s*:\s*"([^"]+)"')
    for rel, corpus, _ in RESOLVERS:
        d = os.path.join(repo.root, corpus)
        if not os.path.isdir(d):
            continue
        for fn in sorted(os.listdir(d)):
            if not (fn.endswith('.json') or fn.endswith('.json_inward')):
                continue
            nfiles += 1
            with open(os.path.join(d, fn), encoding='utf-8') as f:
                txt = f.read()
            types = set(pat.findall(txt))
            bad = sorted(t for t in types if t not in union)
            ctx.ob('C11.f', f'{corpus}/{fn}', not bad,
                   f'cirq_type(s) {bad} no longer resolvable: this stored document cannot be read' if bad else '',
                   f'{corpus}/{fn}', 1)


def _class_rules(ctx, repo, ci: ClassInfo):
    try:
        jk = coh.json_keys(repo, ci)
    except coh.Opaque as e:
        ctx.unres('C11.b', ci.qual, str(e), ci.mod.rel, ci.node.lineno)
        return
    if jk is None:
        return
    info = coh.init_info(repo, ci)
    line = (jk['fn'].lineno if jk['fn'] is not None else ci.node.lineno)
    rel = jk['owner'].mod.rel
    reader = repo.find_method(ci, '_from_json_dict_')
    keys_all, keys_always = jk['all'], jk['always']
    if reader is None:
        if info is None:
            ctx.unres('C11.b', ci.qual, 'no constructor found', ci.mod.rel, ci.node.lineno)
            return
        owner, initfn, params, defaults, varkw = info
        vararg = initfn.args.vararg.arg if initfn is not None and initfn.args.vararg is not None else None
        extra = sorted(k for k in keys_all if k not in params) if not varkw else []
        ctx.ob('C11.b', f'{ci.qual}:keys-accepted', not extra,
               f'writer emits key(s) {extra} that the constructor does not accept' if extra else '', rel, line, construct=ci.qual)
        req = sorted(p for p in params if defaults.get(p) is None and p not in keys_always and
                     not (initfn is None and p in keys_all))
        # dataclass fields with default_factory / defaults appear as AnnAssign values (non-None); fine
        ctx.ob('C11.b', f'{ci.qual}:required-written', not req,
               f'required constructor parameter(s) {req} not written on every path' if req else '', rel, line, construct=ci.qual)
        if initfn is not None:
            p2f = F.init_param_to_field(repo, ci)
            covered = set()
            for k in keys_all:
                covered |= p2f.get(k, set())
            writer_reads = F.self_reads(repo, ci, jk['fn'], depth=2) if jk['fn'] is not None else set()
            missing = sorted(p for p in params if p2f.get(p) and p not in keys_all and not p2f[p] <= covered
                             and not p2f[p] <= writer_reads
                             and (ci.qual, p) not in CTOR_EXEMPT)
            if vararg and p2f.get(vararg) and not p2f[vararg] <= covered | writer_reads:
                missing.append('*' + vararg)
            for p in missing:
                ctx.ob('C11.b', f'{ci.qual}:unwritten:{p}', False,
                       f'constructor parameter `{p}` is stored by __init__ but never written to JSON: a value built '
                       f'with a non-default `{p}` reads back different', rel, line, construct=ci.qual)
            if not missing:
                ctx.ob('C11.b', f'{ci.qual}:state-written', True, '', rel, line, construct=ci.qual)
    else:
        rfn = reader[1]
        rparams = [a.arg for a in rfn.args.posonlyargs + rfn.args.args[1:] + rfn.args.kwonlyargs]
        rkw = rfn.args.kwarg is not None
        extra = sorted(k for k in keys_all if k not in rparams) if not rkw else []
        ctx.ob('C11.c', f'{ci.qual}:keys-accepted', not extra,
               f'writer emits key(s) {extra} that _from_json_dict_ does not accept' if extra else '',
               reader[0].mod.rel, rfn.lineno, construct=ci.qual)
        if rkw:
            kwname = rfn.args.kwarg.arg
            kw_used = any(isinstance(n, ast.Name) and n.id == kwname and isinstance(n.ctx, ast.Load) for n in ast.walk(rfn))
            dropped = sorted(k for k in keys_always if k not in rparams) if not kw_used else []
            ctx.ob('C11.c', f'{ci.qual}:kwargs-dropped', not dropped,
                   f'_from_json_dict_ swallows written key(s) {dropped} in **{kwname} and never looks at them: they are lost on read' if dropped else '',
                   reader[0].mod.rel, rfn.lineno, construct=ci.qual)
        d = func_param_defaults(rfn)
        req = sorted(p for p in rparams if d.get(p) is None and p not in keys_always)
        ctx.ob('C11.c', f'{ci.qual}:required-written', not req,
               f'_from_json_dict_ requires {req} but the writer does not always emit it' if req else '',
               reader[0].mod.rel, rfn.lineno, construct=ci.qual)
        used = {n.id for n in ast.walk(rfn) if isinstance(n, ast.Name) and isinstance(n.ctx, ast.Load)}
        unused = sorted(p for p in rparams if p not in used and p in keys_all)
        ctx.ob('C11.c', f'{ci.qual}:params-used', not unused,
               f'_from_json_dict_ ignores written key(s) {unused}' if unused else '',
               reader[0].mod.rel, rfn.lineno, construct=ci.qual)
    # ---- C11.d3 lossless values
    if jk['fn'] is not None and jk['owner'] is ci:
        for dn in [n for n in ast.walk(jk['fn']) if isinstance(n, ast.Dict)]:
            for k, v in zip(dn.keys, dn.values):
                if k is None or not isinstance(k, ast.Constant):
                    continue
                lossy = None
                for x in ast.walk(v):
                    if isinstance(x, ast.IfExp) and (isinstance(x.body, ast.Constant) or isinstance(x.orelse, ast.Constant)):
                        lossy = x
                    if isinstance(x, ast.BoolOp) and any(isinstance(y, ast.Constant) for y in x.values):
                        lossy = x
                if lossy is None:
                    reord = _reorders_sequence(repo, ci, v)
                    if reord is not None:
                        ctx.ob('C11.d3', f'{ci.qual}:{k.value}', False,
                               f'JSON value of `{k.value}` is `{ast.unparse(v)[:80]}`: {reord}', ci.mod.rel, v.lineno, construct=f'{ci.qual}:{k.value}')
                        continue
                if lossy is None:
                    half = _half_of_mapping(repo, ci, v, dn)
                    if half is not None:
                        ctx.ob('C11.d3', f'{ci.qual}:{k.value}', False,
                               f'JSON value of `{k.value}` is `{ast.unparse(v)[:80]}`: {half}, so mappings that differ in the other half serialise identically',
                               ci.mod.rel, v.lineno, construct=f'{ci.qual}:{k.value}')
                        continue
                ctx.ob('C11.d3', f'{ci.qual}:{k.value}', lossy is None,
                       '' if lossy is None else f'JSON value of `{k.value}` is `{ast.unparse(v)[:80]}`: under `{ast.unparse(lossy.test) if isinstance(lossy, ast.IfExp) else "the short-circuit"}` '
                       'a constant is written instead of the field, so distinct values serialise identically', ci.mod.rel, v.lineno, construct=f'{ci.qual}:{k.value}')
    # ---- C11.d
    eq = coh.eq_fields(repo, ci)
    if eq is not None and jk['fn'] is not None:
        eqf, how = eq
        if '<self>' in eqf:
            ctx.unres('C11.d', ci.qual, 'equality uses self as a whole', ci.mod.rel, ci.node.lineno)
        else:
            wf = F.self_reads(repo, ci, jk['fn'], depth=2)
            for k in keys_all:
                wf.add(F.norm_field(repo, ci, k))
                wf.add(k)
            varying = None
            if info and info[1] is not None:
                p2f = F.init_param_to_field(repo, ci)
                for k in keys_all:
                    wf |= p2f.get(k, set())
                varying = set().union(*p2f.values()) if p2f else set()
            if varying is not None:
                eqf = {f for f in eqf if f in varying}
            miss = sorted(f for f in eqf if f not in wf and (ci.qual, f) not in EQ_EXEMPT and f != '__class__')
            ctx.ob('C11.d', f'{ci.qual}:eq-written' + (':' + ','.join(miss) if miss else ''), not miss,
                   f'equality ({how}) compares field(s) {miss} that the JSON writer never reads: values that differ '
                   'there serialise identically' if miss else '', ci.mod.rel, ci.node.lineno, construct=ci.qual)
    h = repo.find_method(ci, '__hash__')
    e = repo.find_method(ci, '__eq__')
    if h is not None and e is not None and isinstance(h[1], ast.FunctionDef):
        hf = F.self_reads(repo, ci, h[1], depth=2)
        ef = F.self_reads(repo, ci, e[1], depth=2)
        if '<self>' not in hf and '<self>' not in ef and ef:
            extra = sorted(f for f in hf - ef if f not in ('__class__',) and not f.startswith('_hash'))
            ctx.ob('C11.d', f'{ci.qual}:hash-subset-eq', not extra,
                   f'__hash__ reads {extra} that __eq__ ignores: equal values may hash differently' if extra else '',
                   ci.mod.rel, h[1].lineno, construct=ci.qual + ':hash')


def _is_mapping_field(repo, ci, attr):
    """is self.<attr> declared as a dict / Mapping (property return annotation, or the annotation of the __init__ parameter of that name)?"""
    cands = []
    m = repo.find_method(ci, attr)
    if m is not None and m[1].returns is not None:
        cands.append(ast.unparse(m[1].returns))
    init = repo.find_method(ci, '__init__')
    if init is not None:
        for a in init[1].args.args + init[1].args.kwonlyargs:
            if a.arg in (attr, attr.lstrip('_')) and a.annotation is not None:
                cands.append(ast.unparse(a.annotation))
    return any(t.lstrip('cirq.').startswith(('dict[', 'Mapping[', 'Dict[', 'collections.abc.Mapping[', 'frozendict')) or 'Mapping[' in t.split('|')[0] or t.split('|')[0].strip().startswith('dict[')
               for t in cands)


def _reorders_sequence(repo, ci, v):
    """the written value is sorted(self.f) / set(self.f) of a field that equality compares as the sequence it is (order and multiplicity matter)"""
    if not (isinstance(v, ast.Call) and isinstance(v.func, ast.Name) and v.func.id in ('sorted', 'set', 'frozenset') and v.args and is_self_attr(v.args[0])):
        return None
    f = v.args[0].attr
    for c in repo.mro(ci):
        ve = c.methods.get('_value_equality_values_')
        if ve is None:
            continue
        for r in ast.walk(ve):
            if isinstance(r, ast.Return) and r.value is not None:
                elems = r.value.elts if isinstance(r.value, ast.Tuple) else [r.value]
                for e in elems:
                    if is_self_attr(e) and e.attr in (f, '_' + f.lstrip('_'), f.lstrip('_')):
                        return (f'{v.func.id}() changes the order of `{f}`, which equality compares element by element: the value read back is not equal to the one '
                                'written unless the sequence happened to be sorted')
        break
    return None


def _half_of_mapping(repo, ci, v, dict_node):
    """the written value keeps only the keys or only the values of a mapping-valued field"""
    whole_src = ast.unparse(dict_node)
    for x in ast.walk(v):
        if isinstance(x, ast.Call) and isinstance(x.func, ast.Attribute) and x.func.attr in ('keys', 'values') and is_self_attr(x.func.value):
            other = 'values' if x.func.attr == 'keys' else 'keys'
            if f'{ast.unparse(x.func.value)}.{other}()' not in whole_src and f'{ast.unparse(x.func.value)}.items()' not in whole_src:
                return f'only the {x.func.attr} of {ast.unparse(x.func.value)} are written'
        if isinstance(x, ast.Call) and isinstance(x.func, ast.Name) and x.func.id in ('sorted', 'list', 'tuple', 'set', 'frozenset') and len(x.args) >= 1 \
                and is_self_attr(x.args[0]) and _is_mapping_field(repo, ci, x.args[0].attr):
            return f'{x.func.id}() over the mapping {ast.unparse(x.args[0])} keeps its keys only'
    return None


def _hash_slots(ci):
    slots = set()
    for mn in ('__hash__', '_hash'):
        fn = ci.methods.get(mn)
        if fn is None:
            continue
        decs = [dotted(d) or '' for d in fn.decorator_list]
        if any(d.endswith('cached_method') for d in decs):
            slots.add(f'_method_cache_{mn}')
        if any(d.endswith('cached_property') for d in decs):
            slots.add(mn)
        if mn == '__hash__':
            for n in ast.walk(fn):
                if isinstance(n, ast.Attribute) and isinstance(n.ctx, ast.Store) and isinstance(n.value, ast.Name) \
                        and n.value.id == 'self' and 'hash' in n.attr:
                    slots.add(n.attr)
    init = ci.methods.get('__init__')
    if init is not None:
        for n in ast.walk(init):
            if isinstance(n, ast.Assign):
                for t in n.targets:
                    if isinstance(t, ast.Attribute) and isinstance(t.value, ast.Name) and t.value.id == 'self' \
                            and t.attr in ('_hash', '_cached_hash') and not (isinstance(n.value, ast.Constant) and n.value.value is None):
                        slots.add(t.attr)
    return slots


def _getstate_drops(repo, ci, slots):
    gs = repo.find_method(ci, '__getstate__')
    deleted = set()
    if gs is None:
        return None, deleted
    consts = {}
    for n in ast.walk(gs[1]):
        if isinstance(n, ast.Assign) and isinstance(n.value, ast.Constant) and isinstance(n.targets[0], ast.Name):
            consts[n.targets[0].id] = n.value.value
    rets = [n for n in ast.walk(gs[1]) if isinstance(n, ast.Return)]
    if rets and all(isinstance(r.value, ast.Dict) and not r.value.keys for r in rets):
        deleted |= slots  # returns {}: nothing of __dict__ is pickled
    for n in ast.walk(gs[1]):
        if isinstance(n, ast.Assign) and isinstance(n.targets[0], ast.Subscript) and isinstance(n.value, ast.Constant) \
                and n.value.value is None and isinstance(n.targets[0].slice, ast.Constant):
            deleted.add(n.targets[0].slice.value)
        if isinstance(n, ast.Call) and call_name(n) == 'pop' and n.args and isinstance(n.args[0], ast.Constant):
            deleted.add(n.args[0].value)
        if isinstance(n, ast.Delete):
            for t in n.targets:
                if isinstance(t, ast.Subscript) and isinstance(t.slice, ast.Constant):
                    deleted.add(t.slice.value)
                if isinstance(t, ast.Subscript) and isinstance(t.slice, ast.Name) and t.slice.id in consts:
                    deleted.add(consts[t.slice.id])
        if isinstance(n, ast.Call) and call_name(n) == '_method_cache_name' and n.args:
            a = n.args[0]
            nm = a.attr if isinstance(a, ast.Attribute) else (a.id if isinstance(a, ast.Name) else None)
            if nm:
                deleted.add(f'_method_cache_{nm}')
    return gs, deleted


def _hash_pickle_rule(ctx, repo, registered_quals=()):
    """Classes that memoise the hash: `self._hash = ...` in __init__/__hash__, or
    @cached_method/@cached_property on __hash__ / _hash -> need a __getstate__ dropping that
    slot.  Evaluated on every concrete class inheriting the memoising method."""
    for ci in sorted(repo.classes.values(), key=lambda c: c.qual):
        if '.testing.' in ci.qual or '.contrib.' in ci.qual:
            continue
        slots = set()
        for c in repo.mro(ci):
            slots |= _hash_slots(c)
        if not slots:
            continue
        if repo.subclasses(ci) and ci.qual not in registered_quals:
            continue  # abstract helper base: its concrete subclasses are evaluated
        gs, deleted = _getstate_drops(repo, ci, slots)
        for s in sorted(slots):
            ok = s in deleted
            ctx.ob('C11.e', f'{ci.qual}:{s}', ok,
                   '' if ok else f'hash memoised in `{s}` but __getstate__ ' + ('does not drop it' if gs else 'is missing') +
                   ': a pickled copy carries a stale hash into a process with different hash seeds',
                   ci.mod.rel, ci.node.lineno)


def _value_equality_rules(ctx, repo):
    ctx.rule('C11.h', 'value_equality: the decorator installs __getstate__ whenever it installs the cached __hash__, and '
             'that __getstate__ drops the cache slot of every cached method; no method other than '
             '__init__/__new__/__setstate__ stores into a field read by _value_equality_values_ of a hashable '
             'value_equality class', floor=60, style='WMW')
    m = repo.module('cirq-core/cirq/value/value_equality_attr.py')
    fn = m.defs.get('value_equality')
    gs = m.defs.get('_value_equality_getstate')
    if fn is None or gs is None:
        raise AnalysisError('value_equality / _value_equality_getstate vanished')
    cached = set()   # names wrapped with cached_method
    setattrs = {}
    for n in ast.walk(fn):
        if isinstance(n, ast.Call) and call_name(n) == 'setattr' and len(n.args) == 3 and isinstance(n.args[1], ast.Constant):
            setattrs[n.args[1].value] = n
            v = n.args[2]
            if isinstance(v, ast.Call) and call_name(v) == 'cached_method':
                cached.add(n.args[1].value)
        if isinstance(n, ast.Assign) and isinstance(n.value, ast.Call) and call_name(n.value) == 'cached_method':
            for t in n.targets:
                if isinstance(t, ast.Attribute):
                    cached.add(t.attr)
    parents = m.parents()
    from ..flow import block_of
    ok = '__hash__' in setattrs and '__getstate__' in setattrs
    if ok and '__hash__' in cached:
        b1 = block_of(parents, setattrs['__hash__'])
        b2 = block_of(parents, setattrs['__getstate__'])
        ok = b1 is not None and b2 is not None and b1[2] is b2[2]
    ctx.ob('C11.h', 'cirq.value.value_equality_attr.value_equality:hash-getstate-paired', ok,
           '' if ok else 'cached __hash__ installed without __getstate__ in the same branch', m.rel, fn.lineno)
    dropped = set()
    for n in ast.walk(gs):
        if isinstance(n, ast.Call) and call_name(n) == '_method_cache_name' and n.args and isinstance(n.args[0], ast.Attribute):
            dropped.add(n.args[0].attr)
    for c in sorted(cached):
        okc = c in dropped
        ctx.ob('C11.h', f'cirq.value.value_equality_attr._value_equality_getstate:drops:{c}', okc,
               '' if okc else f'cache slot of cached `{c}` is not removed from the pickled state', m.rel, gs.lineno)
    # who-may-write
    for ci in sorted(repo.classes.values(), key=lambda c: c.qual):
        if '.testing.' in ci.qual or '.contrib.' in ci.qual:
            continue
        decs = ci.node.decorator_list
        ve = None
        for d in decs:
            nm = dotted(d.func if isinstance(d, ast.Call) else d) or ''
            if nm.endswith('value_equality'):
                ve = d
        if ve is None:
            continue
        if isinstance(ve, ast.Call) and any(k.arg == 'unhashable' and isinstance(k.value, ast.Constant) and k.value.value for k in ve.keywords):
            continue
        vev = ci.methods.get('_value_equality_values_')
        if vev is None:
            continue
        eqf = F.self_reads(repo, ci, vev, depth=2)
        bad = []
        for mn, fn in ci.methods.items():
            if mn in ('__init__', '__new__', '__setstate__'):
                continue
            w = F.self_writes(fn)
            # lazily-filled caches (`if self._x is None: self._x = ...`) are not value fields unless read by equality
            hit = sorted(f for f in w if f in eqf)
            for f in hit:
                # allow lazy fill of a cache that equality reads through the same accessor
                node = w[f]
                from ..flow import dominating_atoms
                atoms = dominating_atoms(ci.mod.parents(), node, fn)
                lazy = any(isinstance(a, ast.Compare) and isinstance(a.ops[0], ast.Is) and pol and isinstance(a.left, ast.Attribute)
                           and a.left.attr == f for a, pol in atoms)
                if not lazy:
                    bad.append(f'{mn}->{f}')
        ctx.ob('C11.h', f'{ci.qual}:no-late-writes' + (':' + ','.join(bad) if bad else ''), not bad,
               f'method(s) store into equality field(s) after construction: {bad}; the memoised hash/values go stale' if bad else '',
               ci.mod.rel, ci.node.lineno, construct=ci.qual)


# (class qual, method): why hashing / comparing raw bytes is sound there
BYTES_IDENTITY_OK = {
    ('cirq.qis.clifford_tableau.CliffordTableau', '__hash__'): 'xs/zs/rs are validated to be bool arrays of fixed shape at construction, so equal tableaux have equal bytes',
    ('cirq.ops.clifford_gate.CliffordGate', '_value_equality_values_'): 'bytes of a CliffordTableau (bool arrays, see above)',
    ('cirq.ops.clifford_gate.SingleQubitCliffordGate', '_value_equality_values'): 'bytes of a CliffordTableau (bool arrays, see above); cached helper behind _value_equality_values_',
}


def _bytes_identity_rule(ctx, repo):
    """C11.k - hash/equality never depend on how numbers are stored (dtype, byte order, -0.0) except where the storage is pinned."""
    ctx.decided.append('C11.k __hash__ / __eq__ / _value_equality_values_ use the numbers, not their storage: .tobytes(), memoryview/.data, id() appear only in the tabled classes '
                       'whose arrays have a validated fixed dtype (equal values with different dtype must hash alike, e.g. a complex64 matrix read back as complex128 from JSON)')
    ctx.rule('C11.k', 'representation-independent identity: inside __hash__, __eq__, _value_equality_values_ and _value_equality_approximate_values_ of every class outside contrib, a call '
             'of .tobytes() / .tostring() / .view(np.uint8) / id(...) or a read of .data/.ctypes occurs only at the tabled sites (pinned dtype)', floor=3, style='WMW')
    n = 0
    seen = set()
    for m in sorted(repo.modules.values(), key=lambda x: x.rel):
        if m.rel.endswith('_test.py') or '/testing/' in m.rel or '/contrib/' in m.rel or '_pb2' in m.rel:
            continue
        for cls in [c for c in ast.walk(m.tree) if isinstance(c, ast.ClassDef)]:
            for fn in [f for f in cls.body if isinstance(f, ast.FunctionDef) and (f.name in ('__hash__', '__eq__') or f.name.startswith('_value_equality_'))]:
                sites = []
                for c in ast.walk(fn):
                    if isinstance(c, ast.Call) and isinstance(c.func, ast.Attribute) and c.func.attr in ('tobytes', 'tostring'):
                        sites.append(c)
                    elif isinstance(c, ast.Call) and isinstance(c.func, ast.Name) and c.func.id in ('id', 'memoryview'):
                        sites.append(c)
                    elif isinstance(c, ast.Attribute) and c.attr in ('ctypes',) and isinstance(c.ctx, ast.Load):
                        sites.append(c)
                if not sites:
                    continue
                qual = None
                for cand in (f'{m.name}.{cls.name}',):
                    qual = cand
                n += 1
                why = BYTES_IDENTITY_OK.get((qual, fn.name))
                seen.add((qual, fn.name))
                ctx.ob('C11.k', f'{qual}.{fn.name}:bytes-identity', why is not None, ('tabled: ' + why) if why else
                       f'{cls.name}.{fn.name} uses `{ast.unparse(sites[0])[:60]}`: the result depends on dtype / byte order / signed zeros, while equality compares the numbers - equal objects '
                       '(e.g. the same matrix in complex64 and, after a JSON round trip, complex128) get different hashes', m.rel, sites[0].lineno)
    stale = set(BYTES_IDENTITY_OK) - seen
    if stale:
        raise AnalysisError(f'C11.k: tabled sites vanished: {sorted(stale)}')


def _key_string_rule(ctx, repo):
    """C11.l - MeasurementKey: parse_serialized is the inverse of __str__ (measurement gates store the key as that string in JSON)."""
    from .. import fdx
    ctx.decided.append('C11.l MeasurementKey.parse_serialized(str(key)) rebuilds name and every path component (interpreted for path depths 0..4): gates write their key to JSON as this string')
    ctx.rule('C11.l', 'key string round trip: interpreting MeasurementKey.__str__ and then MeasurementKey.parse_serialized on model keys (name m, paths of depth 0..4, components of '
             'different lengths) yields MeasurementKey(name, path) with the same name and the same path tuple', floor=5, style='FDX')
    ci = repo.cls('cirq.value.measurement_key.MeasurementKey')
    sfn = repo.method(ci.qual, '__str__')
    pfn = repo.method(ci.qual, 'parse_serialized')
    sep = None
    for st in ci.mod.tree.body:
        if isinstance(st, ast.Assign) and isinstance(st.targets[0], ast.Name) and st.targets[0].id == 'MEASUREMENT_KEY_SEPARATOR' and isinstance(st.value, ast.Constant):
            sep = st.value.value
    if sep is None:
        raise AnalysisError('MEASUREMENT_KEY_SEPARATOR vanished')
    joins = [c for c in ast.walk(sfn) if isinstance(c, ast.Call) and isinstance(c.func, ast.Attribute) and c.func.attr == 'join']
    if len(joins) != 1:
        raise AnalysisError('MeasurementKey.__str__: the join expression vanished')

    class K:
        def __init__(self, name, path):
            self.name, self.path = name, path
    for path in [(), ('a',), ('a', 'bb'), ('0', '1', '2'), ('x', 'yy', 'z', 'w')]:
        k = K('m', path)

        def attr_hook(node, it):
            try:
                v = it.ev(node.value)
            except fdx.Unsupported:
                return NotImplemented
            if isinstance(v, K) and node.attr in ('name', 'path'):
                return getattr(v, node.attr)
            return NotImplemented

        def call_hook(call, it):
            nm = call_name(call)
            if nm in ('MeasurementKey', 'cls'):
                kw = {x.arg: it.ev(x.value) for x in call.keywords}
                pos = [it.ev(a) for a in call.args]
                return K(*(pos + [kw[p] for p in ('name', 'path')[len(pos):]]))
            return NotImplemented
        try:
            it = fdx.NumInterp({'self': k, 'MEASUREMENT_KEY_SEPARATOR': sep}, attr_hook=attr_hook, call_hook=call_hook)
            it.builtins.update({'tuple': tuple, 'list': list, 'len': len, 'str': str})
            text = it.ev(joins[0])
            it2 = fdx.NumInterp({'key_str': text, 'cls': None, 'MEASUREMENT_KEY_SEPARATOR': sep}, attr_hook=attr_hook, call_hook=call_hook)
            it2.builtins.update({'tuple': tuple, 'list': list, 'len': len, 'str': str})
            back = it2.call(pfn)
        except (fdx.Unsupported, fdx.Raised) as ex:
            raise AnalysisError(f'MeasurementKey string round trip not interpretable: {ex}')
        ok = isinstance(back, K) and back.name == 'm' and tuple(back.path) == path and isinstance(back.path, tuple)
        ctx.ob('C11.l', f'{ci.qual}.parse_serialized:depth={len(path)}', ok, '' if ok else
               f'str(MeasurementKey(name="m", path={path})) = {text!r} is parsed back as name={getattr(back, "name", None)!r}, path={getattr(back, "path", None)!r}: a measurement gate read from JSON '
               'gets a key with a different path (still == as a string, but path, repr, ordering and scope binding differ)', ci.mod.rel, pfn.lineno)


def _no_hash_keyed_tables(ctx, repo):
    """C11.m - sharing tables of the writers are keyed by the value, never by its hash."""
    ctx.decided.append('C11.m memo / constants tables of the JSON and proto writers are keyed by the object itself: a table keyed by hash(obj) identifies different values whose hashes collide '
                       '(hash(-1) == hash(-2) carries through qubit and circuit hashes)')
    ctx.rule('C11.m', 'value-keyed sharing: in cirq.protocols.json_serialization and the cirq_google serializers, no dictionary is indexed, searched (`in`, .get, .setdefault) or stored into '
             'with a key that is a hash(...) call or a local defined as one - two different sub-circuits with equal hashes would be written once and read back as copies of the first',
             floor=4, style='WR')
    n = 0
    for m in sorted(repo.modules.values(), key=lambda x: x.rel):
        if not (m.rel.endswith('cirq/protocols/json_serialization.py') or m.rel.startswith('cirq-google/cirq_google/serialization/')) or m.rel.endswith('_test.py'):
            continue
        for fn in [f for f in ast.walk(m.tree) if isinstance(f, (ast.FunctionDef, ast.AsyncFunctionDef))]:
            hashed = set()
            for a in ast.walk(fn):
                v = getattr(a, 'value', None)
                if isinstance(a, (ast.Assign, ast.NamedExpr, ast.AnnAssign)) and isinstance(v, ast.Call) and call_name(v) == 'hash':
                    for t in (a.targets if isinstance(a, ast.Assign) else [a.target]):
                        if isinstance(t, ast.Name):
                            hashed.add(t.id)

            def is_hash(e):
                return (isinstance(e, ast.Call) and call_name(e) == 'hash') or (isinstance(e, ast.Name) and e.id in hashed)
            k = 0
            for x in ast.walk(fn):
                key = tab = None
                if isinstance(x, ast.Subscript) and isinstance(x.value, (ast.Name, ast.Attribute)) and not isinstance(x.slice, (ast.Slice, ast.Tuple, ast.Constant)):
                    tab, key = x.value, x.slice
                elif isinstance(x, ast.Call) and isinstance(x.func, ast.Attribute) and x.func.attr in ('get', 'setdefault', 'pop') and x.args and isinstance(x.func.value, (ast.Name, ast.Attribute)):
                    tab, key = x.func.value, x.args[0]
                elif isinstance(x, ast.Compare) and len(x.ops) == 1 and isinstance(x.ops[0], (ast.In, ast.NotIn)) and isinstance(x.comparators[0], (ast.Name, ast.Attribute)):
                    tab, key = x.comparators[0], x.left
                if tab is None:
                    continue
                tname = ast.unparse(tab)
                if not any(w in tname.lower() for w in ('memo', 'constants', 'cache', 'table', 'seen')):
                    continue
                k += 1
                n += 1
                ok = not is_hash(key)
                ctx.ob('C11.m', f'{m.name}.{fn.name}:{tname}#{k}', ok, '' if ok else
                       f'`{ast.unparse(x)[:70]}` looks the object up by its hash: a different object with the same hash is taken for it', m.rel, x.lineno)
    if n == 0:
        raise AnalysisError('C11.m: no sharing table found in the writers')


def _reader_builds_with_cls(ctx, repo):
    """C11.n - a reader rebuilds the object with its own constructor, not through a helper of one of the parts."""
    ctx.decided.append('C11.n every _from_json_dict_ returns an object built by cls(...) / the class itself (or a tabled singleton / a local built that way): a value obtained by calling a '
                       'method of one of the decoded parts (sub_operation.with_tags(...)) may be normalised - flattened, unwrapped, of another type')
    ctx.rule('C11.n', 'readers construct: in every _from_json_dict_ no return value is a method call on one of the method\'s own parameters (the decoded parts); the object is built by '
             'cls(...), the class name, a classmethod of cls, or is a local / singleton', floor=60, style='WR')
    for ci in sorted(repo.classes.values(), key=lambda c: c.qual):
        if '.testing.' in ci.qual:
            continue
        fn = ci.methods.get('_from_json_dict_')
        if fn is None:
            continue
        params = {a.arg for a in fn.args.args[1:] + fn.args.kwonlyargs}
        inner = {id(x) for f in ast.walk(fn) if f is not fn and isinstance(f, (ast.FunctionDef, ast.Lambda)) for x in ast.walk(f)}
        bad = None
        for r in ast.walk(fn):
            if id(r) in inner or not (isinstance(r, ast.Return) and r.value is not None):
                continue
            v = r.value
            if isinstance(v, ast.Call) and isinstance(v.func, ast.Attribute):
                base = v.func.value
                while isinstance(base, (ast.Attribute, ast.Subscript, ast.Call)):
                    base = base.func if isinstance(base, ast.Call) else base.value
                if isinstance(base, ast.Name) and base.id in params:
                    bad = v
        ctx.ob('C11.n', f'{ci.qual}._from_json_dict_:constructs', bad is None, '' if bad is None else
               f'`return {ast.unparse(bad)[:70]}` hands back what a method of the decoded part `{ast.unparse(bad.func.value)[:30]}` returns instead of constructing {ci.name}: nested or empty '
               'wrappers are flattened / unwrapped, so the value read differs from the value written', ci.mod.rel, bad.lineno if bad is not None else fn.lineno)


# class -> reason the repr legitimately does not read the listed equality fields
REPR_EXEMPT = {
    'cirq.ops.common_channels.AsymmetricDepolarizingChannel': '_num_qubits is the length of the keys of the printed error_probabilities',
    'cirq.ops.common_gate_families.ParallelGateFamily': 'the listed GateFamily options cannot be set through the constructor of this subclass; they keep their defaults',
    'cirq.ops.common_gates.Rx': 'printed as rads, from which exponent is derived; global shift and dimension are fixed by the class',
    'cirq.ops.common_gates.Ry': 'printed as rads, from which exponent is derived; the global shift is fixed by the class',
    'cirq.ops.common_gates.Rz': 'printed as rads, from which exponent is derived; global shift and dimension are fixed by the class',
    'cirq.ops.control_values.SumOfProducts': 'equality is computed from the expanded conjunctions, which are printed',
    'cirq.ops.gateset.Gateset': 'printed through the public `gates` accessor of the same collection',
    'cirq.ops.parity_gates.MSGate': 'the global shift is fixed by the class',
    'cirq.ops.phased_iswap_gate.PhasedISwapPowGate': '_iswap is built from the printed exponent and global shift',
    'cirq.sim.clifford.clifford_simulator.CliffordState': 'simulator state object: its repr is the CH form',
    'cirq.sim.clifford.stabilizer_state_ch_form.StabilizerStateChForm': 'simulator state object: an informal dump, the arrays are restored through JSON only',
    'cirq.transformers.target_gatesets.cz_gateset.CZTargetGateset': 'printed through the stored sequence additional_gates (constructor form)',
    'cirq.transformers.target_gatesets.sqrt_iswap_gateset.SqrtIswapTargetGateset': 'printed through the stored sequence additional_gates (constructor form)',
    'cirq_google.ops.analog_detune_gates.AnalogDetuneCouplerOnly': 'informal description, not an expression (pinned by the package\'s own tests)',
    'cirq_google.ops.analog_detune_gates.AnalogDetuneQubit': 'informal description, not an expression (pinned by the package\'s own tests)',
    'cirq_google.ops.leakage_iswap.LeakageISWAP': 'a constant gate: the constructor takes no arguments',
    'cirq_google.ops.sycamore_gate.SycamoreGate': 'a constant gate: the constructor takes no arguments',
    'cirq_google.ops.willow_gate.WillowGate': 'a constant gate: the constructor takes no arguments',
    'cirq_google.transformers.target_gatesets.google_cz_gateset.GoogleCZTargetGateset': 'printed through the stored sequence additional_gates (constructor form)',
    'cirq_google.transformers.target_gatesets.sycamore_gateset.SycamoreTargetGateset': 'the Gateset fields are derived from the printed constructor options',
    'cirq_pasqal.pasqal_gateset.PasqalGateset': 'the Gateset fields are derived from the printed constructor options',
}


def _repr_covers_equality(ctx, repo):
    """C11.o - a hand-written __repr__ of a serializable value shows every field its equality compares."""
    from .. import fields as F
    ctx.decided.append('C11.o every JSON-serializable class with its own __repr__ and value equality reads, in __repr__, each field that _value_equality_values_ reads (or hands self to a '
                       'generic formatter); derived / fixed fields are tabled')
    ctx.rule('C11.o', 'repr shows what equality compares: for every class (outside testing / contrib / interop) that defines __repr__, has _value_equality_values_ and _json_dict_, the fields '
             'read by _value_equality_values_ are a subset of the fields read by __repr__ (helpers and properties followed), unless __repr__ passes self to a formatter or the class is '
             'tabled - eval(repr(x)) == x fails for a field that is compared but not printed', floor=80, style='COH')
    for ci in sorted(repo.classes.values(), key=lambda c: c.qual):
        if '.testing.' in ci.qual or '.contrib.' in ci.qual or '.interop.' in ci.qual:
            continue
        rp = ci.methods.get('__repr__')
        ev = repo.find_method(ci, '_value_equality_values_')
        if rp is None or ev is None or repo.find_method(ci, '_json_dict_') is None:
            continue
        rr = {F.norm_field(repo, ci, x) for x in F.self_reads(repo, ci, rp, depth=2)}
        er = {F.norm_field(repo, ci, x) for x in F.self_reads(repo, ci, ev[1], depth=2)}
        whole = any(isinstance(c, ast.Call) and any(isinstance(a, ast.Name) and a.id == 'self' for a in c.args) for c in ast.walk(rp))
        miss = sorted(er - rr)
        ex = REPR_EXEMPT.get(ci.qual)
        ok = not miss or whole or ex is not None
        ctx.ob('C11.o', f'{ci.qual}.__repr__:covers-equality', ok, ('tabled: ' + ex) if (ex and miss and not whole) else '' if ok else
               f'__repr__ never reads {miss}, which equality compares: two unequal values print the same, and eval(repr(x)) is not equal to x', ci.mod.rel, rp.lineno)


def _repr_keeps_order_of_equality(ctx, repo, rid='C11.u'):
    """A __repr__ that sorts a field prints a different value than the one equality compares in order."""
    ctx.decided.append(f'{rid} a __repr__ does not sort (or turn into a set) a field that _value_equality_values_ hands over as it is stored, unless the constructor stores it in that canonical order')
    ctx.rule(rid, 'repr does not reorder what equality compares in order: where __repr__ prints `sorted(self.F)` / `set(self.F)`, either _value_equality_values_ canonicalises F the same way '
             '(sorted / frozenset / set around it), or __init__ stores F already canonicalised - otherwise eval(repr(x)) holds the elements in another order than x and is not equal to it',
             floor=1, style='COH')
    CANON = ('sorted', 'set', 'frozenset')
    n = 0
    for ci in sorted(repo.classes.values(), key=lambda c: c.qual):
        if '.testing.' in ci.qual or '.contrib.' in ci.qual or '.interop.' in ci.qual:
            continue
        rp = ci.methods.get('__repr__')
        ev = repo.find_method(ci, '_value_equality_values_')
        if rp is None or ev is None:
            continue
        par = ci.mod.parents()
        for c in ast.walk(rp):
            if not (isinstance(c, ast.Call) and isinstance(c.func, ast.Name) and c.func.id in CANON and len(c.args) >= 1 and is_self_attr(c.args[0])):
                continue
            fld = c.args[0].attr
            # only what is printed counts (inside an f-string field or an argument of a formatting call), not a test on the way
            a_, printed = par.get(c), False
            while a_ is not None and a_ is not rp:
                if isinstance(a_, ast.FormattedValue) or (isinstance(a_, ast.Call) and (call_name(a_) or '').split('.')[-1] in ('format', 'proper_repr', 'repr', 'join')):
                    printed = True
                if isinstance(a_, (ast.Compare, ast.If)) and not printed:
                    break
                a_ = par.get(a_)
            if not printed:
                continue
            prop = repo.find_method(ci, fld)
            if prop is not None and prop[1].returns is not None and 'set' in ast.unparse(prop[1].returns).lower():
                continue    # a property that hands out a set: equality on it ignores order already

            def canon_in(fn):
                return any(isinstance(x, ast.Call) and isinstance(x.func, ast.Name) and x.func.id in CANON and any(is_self_attr(y) and y.attr == fld for a in x.args for y in ast.walk(a))
                           for x in ast.walk(fn))
            raw_in_eq = any(is_self_attr(x) and x.attr == fld for x in ast.walk(ev[1]))
            if not raw_in_eq:
                continue
            n += 1
            stored_canon = False
            for owner in repo.mro(ci):
                init = owner.methods.get('__init__')
                if init is None:
                    continue
                for st in ast.walk(init):
                    if isinstance(st, (ast.Assign, ast.AnnAssign)):
                        tg = st.targets if isinstance(st, ast.Assign) else [st.target]
                        if any(is_self_attr(t) and t.attr == fld for t in tg) and st.value is not None and \
                                any(isinstance(x, ast.Call) and isinstance(x.func, ast.Name) and x.func.id in CANON for x in ast.walk(st.value)):
                            stored_canon = True
            ok = canon_in(ev[1]) or stored_canon
            ctx.ob(rid, f'{ci.qual}.__repr__:{fld}', ok, '' if ok else
                   f'__repr__ prints {c.func.id}(self.{fld}) while equality compares self.{fld} in stored order: for elements given in another order eval(repr(x)) != x', ci.mod.rel, c.lineno)
    return n


def _json_keys_decided_independently(ctx, repo, rid='C11.q'):
    """Conditional JSON keys: what one path of _json_dict_ (or of a helper it calls) writes, every other path writes or decides not to."""
    from ..flow import PathWalker
    ctx.decided.append(f'{rid} in every _json_dict_ with branches (and in the private helpers it calls), each stored field that some path writes is, on every other path, '
                       'either written too or looked at by a test on that path - a key is never left out because an earlier, unrelated test returned first')
    ctx.rule(rid, 'independent optional keys: along every non-raising path through _json_dict_ (and through each own helper it calls), every self field that is read by a statement '
             'on some path of that function is read by a statement or by a branch test on this path as well; an early return under a test of field A that skips the code writing '
             'field B drops B from the document whenever A is set (GateFamily with both tags_to_accept and tags_to_ignore)', floor=20, style='MPT')

    def self_fields(e):
        return {x.attr for x in ast.walk(e) if isinstance(x, ast.Attribute) and isinstance(x.value, ast.Name) and x.value.id == 'self' and not isinstance(getattr(x, 'ctx', None), ast.Store)}
    n = 0
    for ci in sorted(repo.classes.values(), key=lambda c: c.qual):
        if ci.mod.rel.endswith('_test.py') or '/testing/' in ci.mod.rel:
            continue
        fn0 = ci.methods.get('_json_dict_')
        if fn0 is None:
            continue
        helpers = []
        for c in ast.walk(fn0):
            if isinstance(c, ast.Call) and isinstance(c.func, ast.Attribute) and isinstance(c.func.value, ast.Name) and c.func.value.id == 'self' and c.func.attr in ci.methods \
                    and ci.methods[c.func.attr] not in helpers:
                helpers.append(ci.methods[c.func.attr])
        for fn in [fn0] + helpers:
            if not any(isinstance(x, (ast.If, ast.Match)) for x in ast.walk(fn)):
                continue

            def transfer(node, st):
                if not isinstance(node, ast.stmt):
                    return [st]
                return [(st[0] | frozenset(self_fields(node)), st[1])]

            def branch(test, pol, st):
                return [(st[0], st[1] | frozenset(self_fields(test)))]
            pw = PathWalker(transfer, branch)
            try:
                exits = [e for e in pw.run(fn, (frozenset(), frozenset())) if e[0] != 'raise']
            except RuntimeError as e:
                ctx.unres(rid, f'{ci.qual}.{fn.name}', str(e), ci.mod.rel, fn.lineno)
                continue
            if not exits:
                continue
            allw = set().union(*[e[1][0] for e in exits])
            bad = None
            for kind, (w, seen), node in exits:
                miss = allw - w - seen
                if miss and bad is None:
                    bad = (getattr(node, 'lineno', fn.lineno), sorted(miss))
            n += 1
            ctx.ob(rid, f'{ci.qual}.{fn.name}:optional-keys', bad is None, '' if bad is None else
                   f'the path ending at line {bad[0]} neither writes nor tests {bad[1]}, which other paths write: the document loses them on this path', ci.mod.rel, fn.lineno)
    if n == 0:
        raise AnalysisError(f'{rid}: no branching _json_dict_ found')
