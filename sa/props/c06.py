"""C06 - circuit transformers preserve what the circuit computes.

Decided (as static facts): the input circuit is never mutated (alias/effect analysis with
callee summaries); recursive calls forward the options of the caller; every transformer
consults / forwards `tags_to_ignore` and `deep`; component merging unions every summary
field.  Not decided: semantic equivalence of any rewrite.
"""
from __future__ import annotations

import ast
from typing import Dict, List, Optional, Set, Tuple

from ..core import AnalysisError, ClassInfo, FuncInfo, call_name, dotted, func_params, kwarg, walk_local
from ..flow import PathWalker, dominating_atoms
from .. import fields as F
from . import shared

MUTATORS = {'append', 'insert', 'batch_replace', 'batch_remove', 'batch_insert', 'batch_insert_into', 'insert_into_range',
            'clear_operations_touching', '__setitem__', '__delitem__', '_mutated', '__iadd__', '__imul__'}
PKG_PREFIXES = ('cirq-core/cirq/transformers/', 'cirq-google/cirq_google/transformers/', 'cirq-pasqal/cirq_pasqal/',
                'cirq-ionq/cirq_ionq/', 'cirq-aqt/cirq_aqt/', 'cirq-core/cirq/experiments/z_phase_calibration.py')
# cirq/contrib holds the legacy in-place optimizers (`optimize_circuit(circuit) -> None`): mutating the argument is their contract

# (function qual, reason) for transformers that legitimately do not look at context.tags_to_ignore / deep
CONTEXT_EXEMPT = {
    'cirq.experiments.z_phase_calibration.CalibrationTransformer':
        "documented 'context (not used)': only inserts compensating Z gates around calibrated gates, never alters an existing operation",
    'cirq.transformers.insertion_sort.insertion_sort_transformer':
        'only reorders commuting operations; no operation is altered or removed (tags irrelevant); deep handled by the decorator',
    'cirq.transformers.lightcone_filter.lightcone_filter':
        'a filter: drops operations outside the backward light cone of the measurements, keeps every other operation (and sub-circuit) verbatim',
    'cirq.transformers.noise_adding.DepolarizingNoiseTransformer':
        'deliberately changes the meaning (adds noise after operations); never alters an existing operation',
    'cirq.transformers.randomized_measurements.RandomizedMeasurements':
        'appends basis-change and measurement layers; never alters an existing operation',
    'cirq_pasqal.pasqal_gateset.split_multi_op_moments':
        'regroups operations into moments; every operation (tagged or not, nested or not) is kept verbatim',
    'cirq.transformers.measurement_transformers.defer_measurements':
        'by contract unrolls every sub-circuit first (deep=True) because deferred measurements must be visible at top level; reads tags_to_ignore',
}


def _circuit_params(fn) -> List[str]:
    out = []
    a = fn.args
    for p in a.posonlyargs + a.args + a.kwonlyargs:
        ann = ast.unparse(p.annotation) if p.annotation is not None else ''
        if p.arg in ('circuit',) or 'Circuit' in ann or 'CIRCUIT_TYPE' in ann:
            if 'Callable' in ann or 'CircuitOperation' in ann and 'Circuit' not in ann.replace('CircuitOperation', ''):
                continue
            out.append(p.arg)
    return out


class Effects:
    def __init__(self, repo):
        self.repo = repo
        self.mut_summary: Dict[Tuple[int, str], Optional[ast.AST]] = {}
        self.ret_summary: Dict[Tuple[int, str], bool] = {}
        self.active: Set[Tuple[int, str]] = set()

    def resolve_callee(self, mod, fn, call) -> Optional[FuncInfo]:
        d = dotted(call.func)
        if not d:
            return None
        r = self.repo.resolve_in_func(mod, fn, d)
        if isinstance(r, FuncInfo):
            return r
        return None

    def analyse(self, mod, fn, param: str):
        """Returns (violations [(node, description)], may_return_param)."""
        key = (id(fn), param)
        viol: List[Tuple[ast.AST, str]] = []
        returns_alias = [False]
        eff = self

        def is_alias(expr, st) -> bool:
            if isinstance(expr, ast.Name):
                return expr.id in st
            if isinstance(expr, ast.IfExp):
                return is_alias(expr.body, st) or is_alias(expr.orelse, st)
            if isinstance(expr, ast.NamedExpr):
                return is_alias(expr.value, st)
            if isinstance(expr, ast.Call):
                f = expr.func
                nm = call_name(expr)
                if nm == 'cast' and len(expr.args) == 2:
                    return is_alias(expr.args[1], st)
                if isinstance(f, ast.Attribute) and f.attr == 'unfreeze' and is_alias(f.value, st):
                    c = kwarg(expr, 'copy')
                    if c is None and expr.args:
                        c = expr.args[0]
                    if c is None:
                        return False  # default copy=True
                    if isinstance(c, ast.Constant):
                        return not bool(c.value)
                    return True  # copy=<expression>: may be False
                callee = eff.resolve_callee(mod, fn, expr)
                if callee is not None:
                    ps = func_params(callee.node)
                    for i, a in enumerate(expr.args):
                        if i < len(ps) and is_alias(a, st) and eff.may_return(callee, ps[i]):
                            return True
                    for k in expr.keywords:
                        if k.arg in ps and is_alias(k.value, st) and eff.may_return(callee, k.arg):
                            return True
            return False

        def transfer(node, state):
            st = set(state)
            # mutation events anywhere in this simple statement / expression
            for n in walk_local(node, include_nested_funcs=False) if not isinstance(node, (ast.FunctionDef, ast.AsyncFunctionDef, ast.ClassDef)) else []:
                if isinstance(n, ast.Call):
                    f = n.func
                    if isinstance(f, ast.Attribute) and f.attr in MUTATORS and is_alias(f.value, st):
                        viol.append((n, f'calls `{ast.unparse(f)[:60]}(...)` on a value that may be the caller\'s circuit'))
                    callee = eff.resolve_callee(mod, fn, n)
                    if callee is not None and callee.node is not fn:
                        ps = func_params(callee.node)
                        bound = {}
                        for i, a in enumerate(n.args):
                            if i < len(ps):
                                bound[ps[i]] = a
                        for k in n.keywords:
                            if k.arg:
                                bound[k.arg] = k.value
                        for p, a in bound.items():
                            if is_alias(a, st):
                                w = eff.mutates(callee, p)
                                if w is not None:
                                    viol.append((n, f'passes a value that may be the caller\'s circuit to `{callee.name}`, which mutates its '
                                                    f'parameter `{p}` (line {w.lineno} of {callee.mod.rel.split("/")[-1]})'))
            if isinstance(node, ast.AugAssign):
                if is_alias(node.target, st) or (isinstance(node.target, ast.Subscript) and is_alias(node.target.value, st)):
                    viol.append((node, f'augmented assignment `{ast.unparse(node)[:60]}` on a value that may be the caller\'s circuit'))
            if isinstance(node, (ast.Assign, ast.Delete)):
                tgts = node.targets
                for t in tgts:
                    base = t
                    while isinstance(base, ast.Subscript):
                        base = base.value
                    if base is not t and is_alias(base, st):
                        viol.append((node, f'item assignment/deletion `{ast.unparse(t)[:60]}` on a value that may be the caller\'s circuit'))
                    if isinstance(base, ast.Attribute) and base.attr == '_moments' and is_alias(base.value, st):
                        viol.append((node, 'writes _moments of a value that may be the caller\'s circuit'))
            # alias propagation
            if isinstance(node, ast.Assign):
                a = is_alias(node.value, st)
                for t in node.targets:
                    if isinstance(t, ast.Name):
                        (st.add if a else st.discard)(t.id)
                    elif isinstance(t, ast.Tuple):
                        for e in t.elts:
                            if isinstance(e, ast.Name):
                                st.discard(e.id)
            elif isinstance(node, ast.AnnAssign) and node.value is not None and isinstance(node.target, ast.Name):
                (st.add if is_alias(node.value, st) else st.discard)(node.target.id)
            elif isinstance(node, ast.Return):
                if node.value is not None and is_alias(node.value, st):
                    returns_alias[0] = True
            for n in ast.walk(node) if not isinstance(node, (ast.FunctionDef, ast.AsyncFunctionDef, ast.ClassDef, ast.Return)) else []:
                if isinstance(n, ast.NamedExpr) and isinstance(n.target, ast.Name):
                    (st.add if is_alias(n.value, st) else st.discard)(n.target.id)
            return [frozenset(st)]

        # nested functions/lambdas that capture the parameter and mutate it
        def scan_nested():
            for n in ast.walk(fn):
                if n is not fn and isinstance(n, (ast.FunctionDef, ast.Lambda)):
                    own = {a.arg for a in n.args.args + n.args.kwonlyargs}
                    if param in own:
                        continue
                    for c in ast.walk(n):
                        if isinstance(c, ast.Call) and isinstance(c.func, ast.Attribute) and c.func.attr in MUTATORS \
                                and isinstance(c.func.value, ast.Name) and c.func.value.id == param:
                            viol.append((c, f'closure mutates the enclosing function\'s `{param}`'))

        w = PathWalker(transfer)
        try:
            w.run(fn, frozenset({param}))
        except RuntimeError:
            return None, False
        scan_nested()
        # de-duplicate by node
        seen = set()
        out = []
        for n, d in viol:
            if id(n) not in seen:
                seen.add(id(n))
                out.append((n, d))
        return out, returns_alias[0]

    def mutates(self, callee: FuncInfo, param: str) -> Optional[ast.AST]:
        key = (id(callee.node), param)
        if key in self.mut_summary:
            return self.mut_summary[key]
        if key in self.active or len(self.active) > 6:
            return None
        self.active.add(key)
        v, r = self.analyse(callee.mod, callee.node, param)
        self.active.discard(key)
        self.mut_summary[key] = v[0][0] if v else None
        self.ret_summary[key] = r
        return self.mut_summary[key]

    def may_return(self, callee: FuncInfo, param: str) -> bool:
        key = (id(callee.node), param)
        if key not in self.ret_summary:
            if key in self.active:
                return False
            self.mutates(callee, param)
        return self.ret_summary.get(key, False)


def _functions(repo):
    """(module, class|None, fn, qualname) for every function/method (nested too) in the transformer packages."""
    for m in sorted(repo.modules.values(), key=lambda m: m.rel):
        if not m.rel.startswith(PKG_PREFIXES):
            continue
        stack = [(m.tree, m.name, None)]
        while stack:
            node, qual, cls = stack.pop()
            for ch in ast.iter_child_nodes(node):
                if isinstance(ch, (ast.FunctionDef, ast.AsyncFunctionDef)):
                    yield m, cls, ch, f'{qual}.{ch.name}'
                    stack.append((ch, f'{qual}.{ch.name}', cls))
                elif isinstance(ch, ast.ClassDef):
                    stack.append((ch, f'{qual}.{ch.name}', ch))
                elif isinstance(ch, (ast.If, ast.With, ast.Try, ast.For, ast.While)):
                    stack.append((ch, qual, cls))


def _is_transformer(fn) -> Optional[ast.AST]:
    for d in fn.decorator_list:
        nm = dotted(d.func if isinstance(d, ast.Call) else d) or ''
        if nm.split('.')[-1] == 'transformer':
            return d
    return None


def transformers(repo):
    """All @transformer callables: functions, and classes (their __call__)."""
    out = []
    for m in sorted(repo.modules.values(), key=lambda m: m.rel):
        for n in ast.walk(m.tree):
            if isinstance(n, (ast.FunctionDef,)):
                d = _is_transformer(n)
                if d is not None:
                    out.append((m, n, n.name, d))
            elif isinstance(n, ast.ClassDef):
                d = _is_transformer(n)
                if d is not None:
                    call = [x for x in n.body if isinstance(x, ast.FunctionDef) and x.name == '__call__']
                    if call:
                        out.append((m, call[0], n.name, d))
    return out


def run(ctx):
    repo = ctx.repo
    _merge_conflict_relation(ctx, repo)
    _terminal_measurements_by_position(ctx, repo)
    shared.control_index_monotone_rule(ctx, 'C06.q', ['cirq-core/cirq/transformers/', 'cirq-core/cirq/circuits/'], floor=2)
    ctx.decided.append('C06.q placement bookkeeping keeps, per control key, the latest moment that reads it (running maximum)')
    shared.qudit_blind_dispatch_rule(ctx, 'C06.p', ['cirq-core/cirq/transformers/', 'cirq-google/cirq_google/transformers/'], floor=4)
    ctx.decided.append('C06.p transformers that recognise X/Z power gates by class look at their dimension before using Pauli facts')
    ctx.decided += [
        'C06.a no function of the transformer packages mutates a circuit it received as an argument (alias analysis with callee summaries)',
        'C06.b/c every @transformer consults or forwards context.tags_to_ignore and context.deep (or is tabled with a reason)',
        'C06.d primitive call sites inside transformers pass tags_to_ignore / deep derived from the context',
        'C06.e recursive calls forward every option the caller received',
        'C06.h component merging unions every summary field of the components',
    ]
    ctx.not_decided += ['semantic equivalence of any rewrite (unitary / measurement distribution)', 'commutation rules used by individual transformers']
    eff = Effects(repo)

    # ------------------------------------------------------------------ C06.a
    ctx.rule('C06.a', 'input not mutated: along every path, no mutating circuit method / item store / augmented assignment / mutating callee is '
             'applied to a value that may alias a circuit parameter (aliases: the parameter, unfreeze(copy=False), conditional copies, '
             'callees that may return their argument)', floor=90, style='EFF')
    n_unanalysable = 0
    for m, cls, fn, qual in _functions(repo):
        if fn.returns is not None and isinstance(fn.returns, ast.Constant) and fn.returns.value is None and not _is_transformer(fn):
            continue  # in-place API by signature (returns None): mutation is the contract
        for p in _circuit_params(fn):
            res = eff.analyse(m, fn, p)
            if res[0] is None:
                ctx.unres('C06.a', f'{qual}:{p}', 'path explosion', m.rel, fn.lineno)
                continue
            viol, _ = res
            key = f'{qual}:{p}'
            if viol:
                for node, desc in viol[:3]:
                    ctx.ob('C06.a', f'{key}:{call_name(node) if isinstance(node, ast.Call) else type(node).__name__}', False,
                           f'{qual.split(".")[-1]} {desc}', m.rel, node.lineno, construct=key)
            else:
                ctx.ob('C06.a', key, True, '', m.rel, fn.lineno)

    # ------------------------------------------------------------------ C06.e
    _recursion_forwarding(ctx, repo)
    # ------------------------------------------------------------------ C06.b/c/d
    _context_rules(ctx, repo)
    # ------------------------------------------------------------------ C06.h
    _component_rules(ctx, repo)
    _measurement_semantics_rule(ctx, repo)
    _conservation_rule(ctx, repo)
    _lost_update_rule(ctx, repo)
    _tracker_reset_rule(ctx, repo)
    _sorted_extremes_rule(ctx, repo)
    _placement_bookkeeping_rule(ctx, repo)
    _memo_key_rule(ctx, repo)


def _recursion_forwarding(ctx, repo):
    ctx.rule('C06.e', 'recursion forwards the options: a (directly) self-recursive call passes every keyword-only/optional parameter of '
             'the function that the caller itself received (tags_to_ignore, deep, tags_to_check, merged_circuit_op_tag, ...)', floor=8, style='COH')
    EXEMPT = {}
    for m, cls, fn, qual in _functions(repo):
        if cls is not None:
            continue
        a = fn.args
        defaults = {}
        pos = a.posonlyargs + a.args
        nd = len(a.defaults)
        for i, p in enumerate(pos):
            j = i - (len(pos) - nd)
            if j >= 0:
                defaults[p.arg] = a.defaults[j]
        for p, d in zip(a.kwonlyargs, a.kw_defaults):
            if d is not None:
                defaults[p.arg] = d
        if not defaults:
            continue
        allp = [p.arg for p in pos + a.kwonlyargs]
        for c in ast.walk(fn):
            if isinstance(c, ast.Call) and isinstance(c.func, ast.Name) and c.func.id == fn.name and c is not fn:
                # make sure the name refers to this function (module-level recursion)
                if m.defs.get(fn.name) is not fn:
                    continue
                bound = set()
                for i, arg in enumerate(c.args):
                    if i < len(pos):
                        bound.add(pos[i].arg)
                opaque = False
                for k in c.keywords:
                    if k.arg is None:
                        opaque = True
                    else:
                        bound.add(k.arg)
                missing = sorted(p for p in defaults if p not in bound and p != 'context') if not opaque else []
                key = f'{qual}:recursive-call'
                ctx.ob('C06.e', key + (':' + ','.join(missing) if missing else ''), not missing,
                       '' if not missing else f'recursive call to {fn.name} drops option(s) {missing}: below the first level the caller\'s '
                       f'{missing[0]} is replaced by the default', m.rel, c.lineno, construct=key)


def _context_rules(ctx, repo):
    ctx.rule('C06.b', 'every @transformer consults the context: `context.tags_to_ignore` reaches a test / a `tags_to_ignore=` argument, or the '
             'whole context is passed on, or the transformer is declared add_deep_support / tabled with a reason', floor=25, style='TNT')
    ctx.rule('C06.c', 'every @transformer honours `deep`: add_deep_support=True, or `context.deep` is read (test / `deep=` argument / raise), or the '
             'whole context is passed on', floor=25, style='TNT')
    ctx.rule('C06.d', 'primitive call sites: a call from a transformer (or its helpers in the same module) to a primitive taking '
             '`tags_to_ignore`/`deep` passes them, derived from the context', floor=15, style='COH')
    prim_mod = repo.module('cirq-core/cirq/transformers/transformer_primitives.py')
    prims = {}
    for name, node in prim_mod.defs.items():
        if isinstance(node, ast.FunctionDef) and not name.startswith('_'):
            ps = set(func_params(node))
            if {'tags_to_ignore', 'deep'} & ps:
                prims[name] = ps
    for m, fn, name, dec in transformers(repo):
        qual = f'{m.name}.{name}'
        src_nodes = list(ast.walk(fn))
        # helpers in the same module/class called from the transformer with context passed on
        reads_tags = False
        reads_deep = False
        passes_ctx = False
        for n in src_nodes:
            if isinstance(n, ast.Attribute) and n.attr == 'tags_to_ignore' and isinstance(n.value, ast.Name) and n.value.id == 'context':
                reads_tags = True
            if isinstance(n, ast.Attribute) and n.attr == 'deep' and isinstance(n.value, ast.Name) and n.value.id == 'context':
                reads_deep = True
            if isinstance(n, ast.Call):
                for k in n.keywords:
                    if k.arg == 'context' and 'context' in {x.id for x in ast.walk(k.value) if isinstance(x, ast.Name)}:
                        passes_ctx = True
                for a in n.args:
                    if isinstance(a, ast.Name) and a.id == 'context':
                        passes_ctx = True
        # locals derived from the context
        ctx_names = {'context'}
        for _ in range(3):
            for n in src_nodes:
                if isinstance(n, ast.Assign) and {x.id for x in ast.walk(n.value) if isinstance(x, ast.Name)} & ctx_names:
                    for t in n.targets:
                        for x in ast.walk(t):
                            if isinstance(x, ast.Name):
                                ctx_names.add(x.id)
        tests = []
        for n in src_nodes:
            if isinstance(n, (ast.If, ast.While, ast.IfExp)):
                tests.append(n.test)
            elif isinstance(n, ast.comprehension):
                tests.extend(n.ifs)
            elif isinstance(n, ast.Call) and call_name(n) in ('any', 'all', 'isdisjoint', 'intersection'):
                tests.append(n)
        tests_tags = any('tags_to_ignore' in ast.unparse(t) or (({x.id for x in ast.walk(t) if isinstance(x, ast.Name)} & (ctx_names - {'context'})) and 'tag' in ast.unparse(t))
                         for t in tests)
        deep_support = isinstance(dec, ast.Call) and any(k.arg == 'add_deep_support' and isinstance(k.value, ast.Constant) and k.value.value
                                                         for k in dec.keywords)
        has_ctx = 'context' in func_params(fn)
        if not has_ctx:
            ctx.ob('C06.b', f'{qual}:context-param', False, 'transformer has no `context` parameter', m.rel, fn.lineno)
            continue
        okb = reads_tags or passes_ctx or qual in CONTEXT_EXEMPT
        ctx.ob('C06.b', qual, okb, '' if okb else 'transformer never reads context.tags_to_ignore nor passes the context on: operations the caller '
               'asked to leave untouched are rewritten', m.rel, fn.lineno)
        okc = deep_support or reads_deep or passes_ctx or qual in CONTEXT_EXEMPT
        ctx.ob('C06.c', qual, okc, '' if okc else 'transformer neither has add_deep_support nor reads context.deep: sub-circuits are silently skipped '
               'or always rewritten', m.rel, fn.lineno)
        # primitive call sites in the transformer body
        for c in src_nodes:
            if isinstance(c, ast.Call):
                nm = call_name(c)
                if nm in prims:
                    r = repo.resolve_in_func(m, fn, dotted(c.func) or '')
                    if not (isinstance(r, FuncInfo) and r.mod is prim_mod):
                        continue
                    kws = {k.arg for k in c.keywords}
                    for opt in ('tags_to_ignore', 'deep'):
                        if opt in prims[nm]:
                            v = kwarg(c, opt)
                            ok = v is not None
                            from_ctx = ok and bool({x.id for x in ast.walk(v) if isinstance(x, ast.Name)} & ctx_names)
                            if opt == 'tags_to_ignore' and v is None and tests_tags:
                                ok, from_ctx = True, True   # the transformer / its map function tests the tags itself
                            if qual in CONTEXT_EXEMPT:
                                ok, from_ctx = True, True
                            if opt == 'deep' and deep_support and v is None:
                                ok, from_ctx = True, True   # the decorator recurses for the transformer
                            key = f'{qual}:{nm}:{opt}'
                            if (qual, nm, opt) in PRIM_EXEMPT:
                                ok, from_ctx = True, True
                            ctx.ob('C06.d', key, ok and from_ctx,
                                   '' if ok and from_ctx else (f'call to primitive {nm} does not pass `{opt}`' if not ok else
                                                               f'`{opt}={ast.unparse(v)}` passed to {nm} is not derived from the context'),
                                   m.rel, c.lineno)


PRIM_EXEMPT = {
    ('cirq_google.transformers.target_gatesets.sycamore_gateset.merge_swap_rzz_and_2q_unitaries', 'map_operations', 'deep'):
        'unrolls the circuit operations this transformer itself created (tagged) wherever they are; deep handled by add_deep_support above',
}


def _component_rules(ctx, repo):
    ctx.rule('C06.h', 'component merging: ComponentSet.merge assigns every set-valued summary field of Component (annotated frozenset[...]) '
             'on the merged root from the union of both operands', floor=3, style='COH')
    m = repo.module('cirq-core/cirq/transformers/_connected_component.py')
    comp = repo.cls('cirq.transformers._connected_component.Component')
    cs = repo.cls('cirq.transformers._connected_component.ComponentSet')
    merge = cs.methods.get('merge')
    if merge is None:
        raise AnalysisError('ComponentSet.merge vanished')
    set_fields = [st.target.id for st in comp.node.body if isinstance(st, ast.AnnAssign) and isinstance(st.target, ast.Name)
                  and 'frozenset' in ast.unparse(st.annotation)]
    if len(set_fields) < 3:
        raise AnalysisError('Component summary fields not recognised')
    for f in set_fields:
        ok = False
        for st in ast.walk(merge):
            if isinstance(st, ast.Assign) and any(isinstance(t, ast.Attribute) and t.attr == f for t in st.targets):
                srcs = {(n.value.id) for n in ast.walk(st.value) if isinstance(n, ast.Attribute) and n.attr == f and isinstance(n.value, ast.Name)}
                ok = {'x', 'y'} <= srcs
        ctx.ob('C06.h', f'ComponentSet.merge:{f}', ok,
               '' if ok else f'merged component\'s `{f}` is not the union of both operands: later conflict checks against the merged component miss them',
               m.rel, merge.lineno)


def _measurement_semantics_rule(ctx, repo):
    """C06.i - rewrites justified by 'this qubit is about to be measured in the computational basis' identify the measurement by its gate."""
    ctx.decided.append('C06.i a transformer that records qubits as measured in order to alter other operations tests for MeasurementGate itself: protocols.is_measurement() is also '
                       'true for sub-circuits that rotate before measuring and for Pauli-basis measurements')
    ctx.rule('C06.i', 'measurement semantics: wherever a transformer collects facts from operations for which is_measurement(op) holds (a set/dict updated in that branch and later '
             'used to drop or change other operations), the branch is also guarded by isinstance(<op>.gate, MeasurementGate); is_measurement alone admits CircuitOperations and '
             'PauliMeasurementGate, before which a diagonal gate does matter', floor=4, style='RG')
    from ..flow import conjuncts
    n_sites = 0
    for m in sorted(repo.modules.values(), key=lambda x: x.rel):
        if '/transformers/' not in m.rel or '/testing/' in m.rel:
            continue
        par = m.parents()
        for fn in [f for f in ast.walk(m.tree) if isinstance(f, ast.FunctionDef)]:
            for i_ in ast.walk(fn):
                if not isinstance(i_, ast.If):
                    continue
                atoms = conjuncts(i_.test, True)
                pos = [a for a, pol in atoms if pol and isinstance(a, ast.Call) and call_name(a) == 'is_measurement']
                if not pos:
                    continue
                n_sites += 1
                # facts recorded in the branch: X.update(...)/X.add(...)/X[k] = ... on a local container
                # ... facts about the *qubits* (they justify changes to other operations on those qubits); remembering the operation itself in order to move it is not one
                records = [c for st in i_.body for c in ast.walk(st) if isinstance(c, ast.Call) and isinstance(c.func, ast.Attribute) and c.func.attr in ('update', 'add')
                           and isinstance(c.func.value, ast.Name)
                           and any(isinstance(x, ast.Attribute) and x.attr == 'qubits' for a_ in c.args for x in ast.walk(a_))]
                key = f'{m.name}.{fn.name}:is_measurement@{ast.unparse(pos[0].args[0]) if pos[0].args else "?"}'
                if not records:
                    ctx.ob('C06.i', key, True, 'conservative use (the operation is kept / handled as a whole)', m.rel, i_.lineno)
                    continue
                gated = any(pol and isinstance(a, ast.Call) and call_name(a) == 'isinstance' and 'MeasurementGate' in ast.unparse(a.args[1]) for a, pol in atoms)
                ctx.ob('C06.i', key, gated, '' if gated else f'`{ast.unparse(records[0])[:60]}` records facts for every operation with is_measurement(op): a CircuitOperation whose body is '
                       'H then measure, or a Pauli-X measurement, makes the transformer drop a Z that changes the outcome', m.rel, i_.lineno)
    if n_sites == 0:
        raise AnalysisError('no is_measurement() guard left in cirq.transformers')


# ---------------------------------------------------------------------------------------------------------------- C06.j
# Functions whose per-operation rebuild loop has paths on which the operation is *not* carried into the output.
#   qual -> (number of such exits, kind, reason[, (guard function, feature that guard must test)])
# kind 'removal'      : dropping operations is the documented purpose of the transformer.
# kind 'precondition' : the dropped case cannot occur because the named guard function refuses it first; the rule checks that the guard still tests that feature.
DROP_TABLE = {
    'cirq.transformers.analytical_decompositions.two_qubit_to_cz._remove_partial_czs_or_fail':
        (1, 'removal', 'removes CZ**t with t = 0 (mod 2) within atol, which is the identity; any other partial CZ raises'),
    'cirq.transformers.diagonal_optimization.drop_diagonal_before_measurement':
        (1, 'removal', 'removes Z/CZ powers all of whose qubits are measured afterwards (its purpose); every other operation is re-appended'),
    'cirq.transformers.lightcone_filter.lightcone_filter':
        (1, 'removal', 'a filter: keeps exactly the operations inside the backward light cone of the measurements'),
    'cirq.transformers.gauge_compiling.multi_moment_cphase_gauge.CPhaseGaugeTransformerMM.gauge_on_moments':
        (1, 'precondition', 'gate-less operations never reach the loop: is_target_moment refuses a moment that contains one',
         ('cirq.transformers.gauge_compiling.multi_moment_gauge_compiling.MultiMomentGaugeTransformer.is_target_moment', 'gate-is-none')),
    'cirq.transformers.merge_single_qubit_gates.merge_single_qubit_moments_to_phxz.merge_func':
        (1, 'precondition', 'only moments accepted by can_merge_moment (every operation acts on at most one qubit) are merged',
         ('cirq.transformers.merge_single_qubit_gates.merge_single_qubit_moments_to_phxz.can_merge_moment', 'num-qubits')),
}
_OP_ATTRS = {'gate', 'qubits', 'tags', 'untagged', 'with_tags', 'without_classical_controls', 'classical_controls'}
_SINKS = {'Moment', 'from_moments', 'Circuit', 'FrozenCircuit'}


def _refuses(fn, feature) -> bool:
    """The guard function tests `feature` on its operations and answers False for it."""
    from ..flow import conjuncts
    src_tests = [n for n in ast.walk(fn) if isinstance(n, (ast.If, ast.IfExp, ast.BoolOp, ast.Compare, ast.Call))]
    if feature == 'gate-is-none':
        for i_ in ast.walk(fn):
            if isinstance(i_, ast.If) and any(isinstance(s, ast.Return) and isinstance(s.value, ast.Constant) and s.value.value is False for s in i_.body):
                for a, pol in conjuncts(i_.test, True):
                    if pol and isinstance(a, ast.Compare) and isinstance(a.left, ast.Attribute) and a.left.attr == 'gate' and isinstance(a.ops[0], ast.Is) \
                            and isinstance(a.comparators[0], ast.Constant) and a.comparators[0].value is None:
                        return True
                    if not pol and isinstance(a, ast.Attribute) and a.attr == 'gate':
                        return True
        return False
    if feature == 'num-qubits':
        # all(num_qubits(op) <= 1 and ... for op in m): a conjunct comparing num_qubits(op) / len(op.qubits) with <= 1 or < 2 inside all(...)
        for c in ast.walk(fn):
            if isinstance(c, ast.Call) and call_name(c) == 'all' and c.args and isinstance(c.args[0], ast.GeneratorExp):
                for a, pol in conjuncts(c.args[0].elt, True):
                    if pol and isinstance(a, ast.Compare) and len(a.ops) == 1 and 'qubits' in ast.unparse(a.left) and isinstance(a.comparators[0], ast.Constant):
                        k = a.comparators[0].value
                        if (isinstance(a.ops[0], ast.LtE) and k == 1) or (isinstance(a.ops[0], ast.Lt) and k == 2):
                            return True
        return False
    raise AnalysisError(f'unknown guard feature {feature}')


def _conservation_rule(ctx, repo):
    """C06.j - a loop that rebuilds a moment operation by operation carries every operation over (or raises), unless dropping is tabled."""
    from ..flow import name_deps
    ctx.decided.append('C06.j loops that rebuild a moment/circuit operation by operation re-emit (or replace) every operation on every path or raise; the only exits that drop an '
                       'operation are the tabled removals of drop_diagonal_before_measurement / lightcone_filter and two cases refused beforehand by a guard that is checked too')
    ctx.rule('C06.j', 'operation conservation: in the transformer packages, for every loop over operations whose body appends operation-derived values to a list that flows into '
             'Moment(...)/Circuit(...), every path through the body appends, raises, or is one of the tabled drop exits (removal by contract, or a case the tabled guard function '
             'refuses - the guard is re-checked); loops whose source moment is re-emitted whole are additive and exempt', floor=8, style='MPT')
    E: set = set()
    seen_loops = set()
    n = 0
    used_table = set()
    for m, cls, fn, qual in _functions(repo):
        if m.rel.endswith('_test.py') or '/testing/' in m.rel:
            continue
        empties = set()
        lists = set()
        for a in ast.walk(fn):
            if isinstance(a, (ast.Assign, ast.AnnAssign)) and a.value is not None:
                v = a.value
                if (isinstance(v, ast.List) and not v.elts) or (isinstance(v, ast.Call) and call_name(v) == 'list' and not v.args):
                    lists |= {t.id for t in (a.targets if isinstance(a, ast.Assign) else [a.target]) if isinstance(t, ast.Name)}
                if (isinstance(v, (ast.List, ast.Dict)) and not (v.elts if isinstance(v, ast.List) else v.keys)) or (isinstance(v, ast.Call) and (
                        (call_name(v) in ('list', 'dict') and not v.args) or (call_name(v) or '').split('.')[-1] == 'defaultdict')):
                    for t in (a.targets if isinstance(a, ast.Assign) else [a.target]):
                        if isinstance(t, ast.Name):
                            empties.add(t.id)
        if not empties:
            continue
        # innermost function owns the loop
        nested = {id(x) for f in ast.walk(fn) if f is not fn and isinstance(f, (ast.FunctionDef, ast.AsyncFunctionDef, ast.Lambda)) for x in ast.walk(f)}
        for loop in [l for l in ast.walk(fn) if isinstance(l, ast.For) and id(l) not in nested]:
            if id(loop) in seen_loops:
                continue
            seen_loops.add(id(loop))
            tnames = {x.id for x in ast.walk(loop.target) if isinstance(x, ast.Name)}
            d = set(tnames)
            ch = True
            while ch:
                ch = False
                for a in ast.walk(loop):
                    if isinstance(a, ast.Assign) and any(isinstance(x, ast.Name) and x.id in d for x in ast.walk(a.value)):
                        for t in a.targets:
                            for x in ast.walk(t):
                                if isinstance(x, ast.Name) and isinstance(x.ctx, ast.Store) and x.id not in d and x.id not in empties:
                                    d.add(x.id)
                                    ch = True
            # the loop variable is used as an operation
            if not any(isinstance(x, ast.Attribute) and x.attr in _OP_ATTRS and isinstance(x.value, ast.Name) and x.value.id in tnames for x in ast.walk(loop)):
                continue

            def mentions(e):
                return any(isinstance(x, ast.Name) and x.id in d for x in ast.walk(e))

            def acc_of(node):
                if isinstance(node, ast.Expr) and isinstance(node.value, ast.Call) and isinstance(node.value.func, ast.Attribute) \
                        and node.value.func.attr in ('append', 'extend', 'insert') and any(mentions(a) for a in node.value.args):
                    b = node.value.func.value
                    while isinstance(b, ast.Subscript):
                        b = b.value
                    return b.id if isinstance(b, ast.Name) else None
                if isinstance(node, ast.AugAssign) and isinstance(node.op, ast.Add) and isinstance(node.target, ast.Name) and mentions(node.value):
                    return node.target.id
                if isinstance(node, ast.Assign) and len(node.targets) == 1 and isinstance(node.targets[0], ast.Subscript) and isinstance(node.targets[0].value, ast.Name) \
                        and (mentions(node.targets[0].slice) or mentions(node.value)):
                    return node.targets[0].value.id  # D[op] = ... / D[k] = op-derived
                return None
            accs = {acc_of(s) for s in ast.walk(loop)} & empties
            if not accs:
                continue
            deps = name_deps(fn, {a: {a} for a in accs})
            sinks = set()
            for c in ast.walk(fn):
                if isinstance(c, ast.Call) and (call_name(c) or '').split('.')[-1] in _SINKS:
                    for x in ast.walk(c):
                        if isinstance(x, ast.Name) and x.id in deps:
                            sinks |= deps[x.id]
                if isinstance(c, (ast.Return, ast.Yield, ast.YieldFrom)) and c.value is not None:
                    for x in ast.walk(c.value):
                        if isinstance(x, ast.Name) and x.id in deps and x.id in lists:  # a returned list of operations; returned dicts are summaries, not circuits
                            sinks |= deps[x.id]
            accs &= sinks
            if not accs:
                continue
            # additive loops: the iterated container itself is emitted whole elsewhere in the function
            root = loop.iter
            while isinstance(root, (ast.Attribute, ast.Subscript)):
                root = root.value
            if isinstance(root, ast.Call) and root.args:
                root = root.args[0]
            additive = False
            if isinstance(root, ast.Name):
                for c in ast.walk(fn):
                    if id(c) in {id(x) for x in ast.walk(loop)}:
                        continue
                    if isinstance(c, ast.Call) and isinstance(c.func, ast.Attribute) and c.func.attr in ('append', 'extend') \
                            and any(isinstance(a_, ast.Name) and a_.id == root.id for a_ in c.args):
                        additive = True
                    if isinstance(c, ast.Return) and c.value is not None and any(isinstance(x, ast.Call) and call_name(x) in ('list', 'tuple') and x.args
                                                                                   and isinstance(x.args[0], ast.Name) and x.args[0].id == root.id for x in ast.walk(c.value)):
                        additive = True
            if additive:
                continue

            def always_emits(stmts):
                w = PathWalker(lambda node, s: [True] if (s or acc_of(node) in accs) else [s])
                o, b, c_ = w.block(stmts, {False})
                return bool(o | b | c_) and all(o | b | c_)

            class W(PathWalker):
                def stmt(self, st, states):
                    if isinstance(st, ast.For) and always_emits(st.body):
                        return {(True, s[1]) for s in states}, E, E
                    return super().stmt(st, states)
            w = W(lambda node, s: [(True, s[1])] if (s[0] or acc_of(node) in accs) else [s], lambda test, taken, s: [(s[0], (test.lineno, taken))])
            try:
                out, brk, cont = w.block(loop.body, {(False, None)})
            except RuntimeError:
                ctx.unres('C06.j', f'{qual}:for {ast.unparse(loop.target)}', 'path explosion', m.rel, loop.lineno)
                continue
            ends = out | cont | brk
            drops = sorted({s[1] for s in ends if not s[0]}, key=str)
            if not any(s[0] for s in ends):
                continue  # not a rebuild loop: no path carries the operation over
            n += 1
            key = f'{qual}:for {ast.unparse(loop.target)}'
            allowed = DROP_TABLE.get(qual)
            if allowed:
                used_table.add(qual)
            if not drops:
                ctx.ob('C06.j', key, True, 'every path appends to ' + '/'.join(sorted(accs)), m.rel, loop.lineno)
                continue
            lines = {ln: src for ln, src in ((t.lineno, ast.unparse(t)) for t in ast.walk(loop) if isinstance(t, ast.expr) and hasattr(t, 'lineno'))}
            desc = '; '.join(f'line {dl[0]} `{lines.get(dl[0], "?")[:70]}` is {dl[1]}' if dl else 'the straight-line path' for dl in drops)
            if allowed is None or len(drops) > allowed[0]:
                ctx.ob('C06.j', key, False, f'{len(drops)} exit(s) of the loop body leave the operation out of {"/".join(sorted(accs))} ({desc})'
                       + (f'; only {allowed[0]} is tabled ({allowed[2]})' if allowed else '; no removal is tabled for this function') + ': the operation vanishes from the output circuit',
                       m.rel, loop.lineno, construct=qual)
                continue
            if allowed[1] == 'precondition':
                gq, feat = allowed[3]
                gfn = None
                for m2, c2, f2, q2 in _functions(repo):
                    if q2 == gq:
                        gfn = f2
                if gfn is None:
                    raise AnalysisError(f'C06.j: guard function {gq} vanished')
                okg = _refuses(gfn, feat)
                ctx.ob('C06.j', key + ':guard', okg, f'drop exit justified by {gq.split(".")[-1]} ({allowed[2]})' if okg else
                       f'{qual.split(".")[-1]} leaves out operations ({desc}) on the assumption that {gq.split(".")[-1]} refuses them ({feat}), but that guard no longer does: '
                       'such operations are silently deleted from the circuit', m.rel, loop.lineno, construct=qual)
            else:
                ctx.ob('C06.j', key, True, f'tabled removal: {allowed[2]}', m.rel, loop.lineno)
    stale = set(DROP_TABLE) - used_table
    if stale:
        raise AnalysisError(f'C06.j: tabled drop sites not found any more: {sorted(stale)}')


def _lost_update_rule(ctx, repo):
    """C06.k - an accumulator filled by the transformer's nested helpers is consumed after the last statement that can still write to it."""
    ctx.decided.append('C06.k accumulators shared between a transformer and its nested helper functions (replacement tables, deferred-measurement maps, routed-operation lists) are read out '
                       'only after the last top-level statement that may still write them: no update is lost by being made after the table was applied')
    ctx.rule('C06.k', 'no lost update: for every local list/dict/set of a transformer-package function that its nested functions write and that the function body itself reads, the last '
             'top-level statement reading it is not earlier than the last top-level statement that may write it (directly, by calling a writing helper, or by handing one to a primitive)',
             floor=4, style='MPT')
    MUT = {'append', 'extend', 'insert', 'add', 'update', 'setdefault', 'pop', 'popitem', 'clear', 'remove', 'discard', 'sort'}

    def base(t):
        while isinstance(t, ast.Subscript):
            t = t.value
        return t.id if isinstance(t, ast.Name) else None

    def writes(node, d):
        for x in ast.walk(node):
            if isinstance(x, ast.Call) and isinstance(x.func, ast.Attribute) and x.func.attr in MUT and base(x.func.value) == d:
                return True
            if isinstance(x, (ast.Assign, ast.AugAssign, ast.Delete)):
                for t in (x.targets if not isinstance(x, ast.AugAssign) else [x.target]):
                    if isinstance(t, ast.Subscript) and base(t) == d:
                        return True
        return False
    n = 0
    for m, cls, fn, qual in _functions(repo):
        if m.rel.endswith('_test.py'):
            continue
        inner = [s for s in fn.body if isinstance(s, ast.FunctionDef)]
        if not inner:
            continue
        conts = set()
        for s in fn.body:
            if isinstance(s, (ast.Assign, ast.AnnAssign)) and s.value is not None:
                v = s.value
                if isinstance(v, (ast.Dict, ast.List, ast.Set)) or (isinstance(v, ast.Call) and (call_name(v) or '').split('.')[-1] in ('dict', 'list', 'set', 'defaultdict')):
                    for t in (s.targets if isinstance(s, ast.Assign) else [s.target]):
                        if isinstance(t, ast.Name):
                            conts.add(t.id)
        for d in sorted(conts):
            wr = {f.name for f in inner if writes(f, d)}
            if not wr:
                continue
            grew = True
            while grew:
                grew = False
                for f in inner:
                    if f.name not in wr and any(isinstance(x, ast.Name) and x.id in wr for x in ast.walk(f)):
                        wr.add(f.name)
                        grew = True
            last_w = last_r = None
            for s in fn.body:
                if isinstance(s, ast.FunctionDef):
                    continue
                if writes(s, d) or any(isinstance(x, ast.Name) and x.id in wr for x in ast.walk(s)):
                    last_w = s
                if any(isinstance(x, ast.Name) and x.id == d and isinstance(x.ctx, ast.Load) for x in ast.walk(s)):
                    last_r = s
            if last_r is None or last_w is None:
                continue  # working state of the helpers only: nothing is read out at top level
            n += 1
            ok = fn.body.index(last_w) <= fn.body.index(last_r)
            ctx.ob('C06.k', f'{qual}:{d}', ok, '' if ok else f'`{ast.unparse(last_w)[:60]}` (line {last_w.lineno}) can still write `{d}` through {sorted(wr)}, but `{d}` was read out for the last '
                   f'time at line {last_r.lineno}: whatever the later step records is never applied to the circuit', m.rel, last_w.lineno)
    if n == 0:
        raise AnalysisError('C06.k: no accumulator shared with nested helpers found')


def _tracker_reset_rule(ctx, repo):
    """C06.l - eject_z: the 'last PhasedXZ on this qubit' tracker is invalidated for the qubits of every operation the callback sees."""
    ctx.decided.append('C06.l eject_z: every path through the per-operation callback invalidates (or rewrites) the last-PhasedXZ tracker of the operation\'s qubits, so a phase dumped later '
                       'is never folded back into a PhasedXZ gate that an intervening operation separates from the end of the wire')
    ctx.rule('C06.l', 'tracker invalidation: in eject_z, along every path of map_func from entry to a return, a statement writes the tracker created as defaultdict(lambda: None) (an update / '
             'item store, or a call of a nested helper that stores into it)', floor=4, style='MPT')
    m = repo.module('cirq-core/cirq/transformers/eject_z.py')
    fn = m.defs.get('eject_z')
    if fn is None:
        raise AnalysisError('eject_z vanished')
    trackers = []
    for s in fn.body:
        if isinstance(s, (ast.Assign, ast.AnnAssign)) and s.value is not None and isinstance(s.value, ast.Call) and (call_name(s.value) or '').split('.')[-1] == 'defaultdict' \
                and s.value.args and isinstance(s.value.args[0], ast.Lambda) and isinstance(s.value.args[0].body, ast.Constant) and s.value.args[0].body.value is None:
            t = s.targets[0] if isinstance(s, ast.Assign) else s.target
            if isinstance(t, ast.Name):
                trackers.append(t.id)
    inner = {s.name: s for s in fn.body if isinstance(s, ast.FunctionDef)}
    cb = [f for f in inner.values() if len(f.args.args) == 2]  # (op, moment_index) callback handed to map_operations
    if len(trackers) != 1 or len(cb) != 1:
        raise AnalysisError(f'eject_z: tracker / callback not identified (trackers={trackers}, callbacks={[f.name for f in cb]})')
    d, cbf = trackers[0], cb[0]

    def stores(node):
        for x in ast.walk(node):
            if isinstance(x, ast.Call) and isinstance(x.func, ast.Attribute) and x.func.attr in ('update', 'clear', 'pop', 'setdefault', '__setitem__') and isinstance(x.func.value, ast.Name) \
                    and x.func.value.id == d:
                return True
            if isinstance(x, (ast.Assign, ast.Delete)):
                for t in x.targets:
                    if isinstance(t, ast.Subscript) and isinstance(t.value, ast.Name) and t.value.id == d:
                        return True
        return False
    helpers = {n_ for n_, f in inner.items() if f is not cbf and stores(f)}

    def hit(node):
        if not isinstance(node, (ast.stmt, ast.expr)):
            return False
        return stores(node) or any(isinstance(c, ast.Call) and isinstance(c.func, ast.Name) and c.func.id in helpers for c in ast.walk(node))
    w = PathWalker(lambda node, st: [True] if (st or hit(node)) else [st])
    exits = w.run(cbf, False)
    k = 0
    for kind, st, node in exits:
        if kind == 'raise':
            continue
        k += 1
        ctx.ob('C06.l', f'cirq.transformers.eject_z.eject_z.{cbf.name}:exit#{k}', bool(st), '' if st else
               f'the path leaving {cbf.name} at line {getattr(node, "lineno", cbf.lineno)} never touches `{d}`: the entry of an earlier PhasedXZ gate on these qubits stays live, and a phase '
               'dumped at the end of the circuit is folded into that gate although this operation sits in between', m.rel, getattr(node, 'lineno', cbf.lineno))


def _sorted_extremes_rule(ctx, repo):
    """C06.m - `a[-1] < b[0]` as a disjointness shortcut is only valid for sorted sequences."""
    ctx.decided.append('C06.m a transformer that compares the last element of one index list with the first of another (as "these ranges cannot overlap") builds both lists with sorted()')
    ctx.rule('C06.m', 'extremes by position: in the transformer packages, for every comparison X[-1] < Y[0] / X[-1] <= Y[0] on local lists, each value that may be bound to X and Y is a '
             'sorted(...) call or is read from a container whose every store is a sorted(...) call', floor=1, style='TNT')
    n = 0
    for m, cls, fn, qual in _functions(repo):
        if m.rel.endswith('_test.py'):
            continue
        cmps = [c for c in ast.walk(fn) if isinstance(c, ast.Compare) and len(c.ops) == 1 and isinstance(c.ops[0], (ast.Lt, ast.LtE))
                and isinstance(c.left, ast.Subscript) and isinstance(c.left.value, ast.Name) and ast.unparse(c.left.slice) == '-1'
                and isinstance(c.comparators[0], ast.Subscript) and isinstance(c.comparators[0].value, ast.Name) and ast.unparse(c.comparators[0].slice) == '0']
        if not cmps:
            continue
        binds, stores = {}, {}
        for s in ast.walk(fn):
            if isinstance(s, ast.NamedExpr):
                binds.setdefault(s.target.id, []).append(s.value)
            if isinstance(s, ast.Assign):
                for t in s.targets:
                    if isinstance(t, ast.Name):
                        binds.setdefault(t.id, []).append(s.value)
                    if isinstance(t, ast.Subscript) and isinstance(t.value, ast.Name):
                        stores.setdefault(t.value.id, []).append(s.value)

        def is_sorted_value(v, depth=0):
            if isinstance(v, ast.Call) and call_name(v) == 'sorted':
                return True
            cont = None
            if isinstance(v, ast.Subscript) and isinstance(v.value, ast.Name):
                cont = v.value.id
            if isinstance(v, ast.Call) and isinstance(v.func, ast.Attribute) and v.func.attr == 'get' and isinstance(v.func.value, ast.Name):
                cont = v.func.value.id
            if cont is not None and stores.get(cont) and depth < 3:
                return all(is_sorted_value(x, depth + 1) for x in stores[cont])
            return False
        for c in cmps:
            for side in (c.left.value.id, c.comparators[0].value.id):
                n += 1
                vals = binds.get(side, [])
                ok = bool(vals) and all(is_sorted_value(v) for v in vals)
                bad = next((v for v in vals if not is_sorted_value(v)), None)
                ctx.ob('C06.m', f'{qual}:{side}', ok, '' if ok else
                       f'`{ast.unparse(c)}` treats `{side}` as sorted, but it can be bound to `{ast.unparse(bad)[:60] if bad is not None else "?"}`: for an operation whose qubits are listed in '
                       'descending order two operations that share a qubit are classed as disjoint and swapped without a commutation check', m.rel, c.lineno)
    if n == 0:
        raise AnalysisError('C06.m: no last-vs-first comparison left in the transformer packages')


def _placement_bookkeeping_rule(ctx, repo):
    """C06.n - stratify: the time index recorded for an operation's qubits / keys is the index the operation is actually placed at."""
    ctx.decided.append('C06.n stratified_circuit: the dictionaries consulted by get_earliest_accommodating_moment_index are updated with the index at which the operation is placed, in '
                       'the same loop iteration as the placement (not with a preliminary index that a later step may still move)')
    ctx.rule('C06.n', 'recorded position == placed position: in _stratify_circuit every store into one of the dictionaries passed to get_earliest_accommodating_moment_index sits in the '
             'same for-loop as the statement <moments>[i].append(op) and stores that same i (or the maximum of i and the previous entry of the same dictionary)', floor=3, style='MPT')
    m = repo.module('cirq-core/cirq/transformers/stratify.py')
    fn = m.defs.get('_stratify_circuit')
    if fn is None:
        raise AnalysisError('_stratify_circuit vanished')
    calls = [c for c in ast.walk(fn) if isinstance(c, ast.Call) and (call_name(c) or '').split('.')[-1] == 'get_earliest_accommodating_moment_index']
    if not calls:
        raise AnalysisError('_stratify_circuit: get_earliest_accommodating_moment_index call vanished')
    dicts = [a.id for a in calls[0].args[1:] if isinstance(a, ast.Name)]
    par = m.parents()

    def loop_of(node):
        while node in par:
            node = par[node]
            if isinstance(node, ast.For):
                return node
        return None
    place = [c for c in ast.walk(fn) if isinstance(c, ast.Call) and isinstance(c.func, ast.Attribute) and c.func.attr == 'append' and isinstance(c.func.value, ast.Subscript)
             and isinstance(c.func.value.slice, ast.Name)]
    if len(place) != 1 or len(dicts) < 3:
        raise AnalysisError(f'_stratify_circuit: placement statement / bookkeeping dictionaries not identified ({len(place)}, {dicts})')
    pl = place[0]
    idx = pl.func.value.slice.id
    pl_loop = loop_of(pl)
    for d in dicts:
        stores = [s for s in ast.walk(fn) if isinstance(s, ast.Assign) and isinstance(s.targets[0], ast.Subscript) and isinstance(s.targets[0].value, ast.Name) and s.targets[0].value.id == d]
        if not stores:
            raise AnalysisError(f'_stratify_circuit: no store into {d}')
        for k, s in enumerate(stores, 1):
            lp = loop_of(s)
            outer = lp
            while outer is not None and outer is not pl_loop:
                outer = loop_of(outer)
            v_ = s.value
            same_idx = isinstance(v_, ast.Name) and v_.id == idx
            # a running maximum over the placed index and the previous entry of the same dictionary (readers of one key commute, C06.q)
            run_max = isinstance(v_, ast.Call) and call_name(v_) == 'max' and any(isinstance(a_, ast.Name) and a_.id == idx for a_ in v_.args) \
                and all((isinstance(a_, ast.Name) and a_.id == idx) or d in ast.unparse(a_) for a_ in v_.args)
            ok = outer is pl_loop and (same_idx or run_max)
            ctx.ob('C06.n', f'cirq.transformers.stratify._stratify_circuit:{d}#{k}', ok, '' if ok else
                   f'`{ast.unparse(s)}` (line {s.lineno}) is not made where the operation is placed (`{ast.unparse(pl)}`, line {pl.lineno}): the index recorded for later conflict checks '
                   'can differ from the moment the operation ends up in, so a later operation is scheduled before one it must follow', m.rel, s.lineno)


def _memo_key_rule(ctx, repo):
    """C06.o - a memo table inside a transformer is keyed by the whole of what the memoised call receives."""
    ctx.decided.append('C06.o memo tables in transformers: a value computed from an operation is cached under a key built from the operation itself (the object or its id), not from a '
                       'projection such as its gate when the memoised call is given the whole operation (whether two operations commute depends on their qubits, not only their gates)')
    ctx.rule('C06.o', 'memo key covers the arguments: in the transformer packages, for every store <cache>[key] = F(args) into a dictionary that the same function also looks up, no local '
             'variable is handed to F whole while the key only contains attributes of it', floor=3, style='COH')
    n = 0
    for m, cls, fn, qual in _functions(repo):
        if m.rel.endswith('_test.py'):
            continue
        defs = {}
        for a in ast.walk(fn):
            if isinstance(a, ast.Assign) and len(a.targets) == 1 and isinstance(a.targets[0], ast.Name):
                defs.setdefault(a.targets[0].id, []).append(a.value)
        for s in ast.walk(fn):
            if not (isinstance(s, ast.Assign) and isinstance(s.value, ast.Call)):
                continue
            subs = [t for t in s.targets if isinstance(t, ast.Subscript) and isinstance(t.value, ast.Name)]
            if not subs:
                continue
            t = subs[0]
            cont = t.value.id
            looked = any((isinstance(c, ast.Call) and isinstance(c.func, ast.Attribute) and c.func.attr == 'get' and isinstance(c.func.value, ast.Name) and c.func.value.id == cont)
                         or (isinstance(c, ast.Compare) and isinstance(c.ops[0], (ast.In, ast.NotIn)) and isinstance(c.comparators[0], ast.Name) and c.comparators[0].id == cont)
                         for c in ast.walk(fn))
            if not looked:
                continue
            key = t.slice
            kexprs = [key] + [v for x in ast.walk(key) if isinstance(x, ast.Name) for v in defs.get(x.id, [])]
            par = m.parents()

            def bare_and_projected(name):
                bare = proj = False
                for e in kexprs:
                    for x in ast.walk(e):
                        if isinstance(x, ast.Name) and x.id == name:
                            p = par.get(x)
                            if isinstance(p, ast.Attribute) and p.value is x:
                                proj = True
                            else:
                                bare = True
                return bare, proj
            n += 1
            whole = [a.id for a in list(s.value.args) + [k.value for k in s.value.keywords] if isinstance(a, ast.Name)]
            bad = [a for a in whole if bare_and_projected(a) == (False, True)]
            ctx.ob('C06.o', f'{qual}:{cont}', not bad, '' if not bad else
                   f'`{ast.unparse(s)[:80]}` is cached under `{ast.unparse(kexprs[-1])[:50]}`, which holds only attributes of {bad}: two calls that differ in the rest of {bad[0]} '
                   '(e.g. the qubits of an operation) share one cached answer', m.rel, s.lineno)
    if n == 0:
        raise AnalysisError('C06.o: no memo table found in the transformer packages')


def _merge_conflict_relation(ctx, repo, rid='C06.r'):
    """The merge primitive blocks on the same conflicts as circuit placement: qubits, measurement-vs-control keys both ways, and measurement-vs-measurement of one key."""
    ci = repo.cls('cirq.transformers.transformer_primitives._MergedCircuit')
    fn = ci.methods.get('get_mergeable_components')
    ctx.decided.append(f'{rid} _MergedCircuit.get_mergeable_components consults, for a new component, the last moment of its qubits, of measurements of its control keys, of controls on its '
                       'measurement keys and of measurements of its measurement keys')
    ctx.rule(rid, 'one conflict relation in the merge primitive: the moment a component may merge into is bounded by the index tables for (qubits <- its qubits), (measurements <- its control '
             'keys), (controls <- its measurement keys) and (measurements <- its measurement keys) - without the last pair two measurements of one key on different qubits change '
             'places when one of them merges backwards (the records of the key swap)', floor=4, style='COH')
    if fn is None:
        raise AnalysisError('_MergedCircuit.get_mergeable_components vanished')
    got = set()
    for g in ast.walk(fn):
        if isinstance(g, (ast.GeneratorExp, ast.ListComp)) and len(g.generators) == 1:
            elt, gen = g.elt, g.generators[0]
            tab = next((x.attr for x in ast.walk(elt) if isinstance(x, ast.Attribute) and x.attr.endswith('_indexes')), None)
            src = ast.unparse(gen.iter).split('.')[-1]
            if tab:
                got.add((tab, src))
    want = {('qubit_indexes', None), ('mkey_indexes', 'ckeys'), ('ckey_indexes', 'mkeys'), ('mkey_indexes', 'mkeys')}
    for tab, src in sorted(want, key=str):
        ok = any(t == tab and (src is None or s_ == src) for t, s_ in got)
        ctx.ob(rid, f'{ci.qual}.get_mergeable_components:{tab}<-{src or "qubits"}', ok, '' if ok else
               f'the bound on the merge moment never consults {tab} for the component\'s {src or "qubits"} (consulted: {sorted(got)})', ci.mod.rel, fn.lineno)


def _terminal_measurements_by_position(ctx, repo, rid='C06.s'):
    """Users of find_terminal_measurements identify the terminal measurements by (moment index, operation), never by the operation's value alone."""
    ctx.decided.append(f'{rid} every consumer of find_terminal_measurements keeps the moment index of each pair (an equal measurement earlier in the circuit is not terminal)')
    ctx.rule(rid, 'terminal measurements are positions, not values: wherever the (moment index, operation) pairs returned by find_terminal_measurements are iterated, the loop / '
             'comprehension binds the index to a name it uses (not `_`), or the pairs are kept whole - a set of the operations alone makes an earlier, equal measurement count as '
             'terminal, so defer_measurements leaves it in place and later controls on its key find nothing deferred', floor=2, style='EFF')
    n = 0
    for mod, ci, fn in repo.all_functions():
        if mod.rel.endswith('_test.py') or not mod.rel.startswith('cirq-core/cirq/'):
            continue
        par = None
        for c in ast.walk(fn):
            if not (isinstance(c, ast.Call) and call_name(c).split('.')[-1] == 'find_terminal_measurements'):
                continue
            if par is None:
                par = mod.parents()
            p = par.get(c)
            tgt = None
            scope = None
            if isinstance(p, ast.comprehension) and p.iter is c:
                tgt, scope = p.target, par.get(p)
            elif isinstance(p, ast.For) and p.iter is c:
                tgt, scope = p.target, p
            n += 1
            if tgt is None:
                ctx.ob(rid, f'{mod.name}.{fn.name}:pairs-kept-whole', True, '', mod.rel, c.lineno)
                continue
            first = tgt.elts[0] if isinstance(tgt, ast.Tuple) and tgt.elts else None
            used = isinstance(first, ast.Name) and first.id != '_' and any(isinstance(x, ast.Name) and x.id == first.id and isinstance(x.ctx, ast.Load) for x in ast.walk(scope))
            ctx.ob(rid, f'{mod.name}.{fn.name}:index-used', used, '' if used else
                   f'`{ast.unparse(scope)[:80]}` drops the moment index of every terminal measurement: what remains identifies operations by value', mod.rel, c.lineno)
    if n == 0:
        raise AnalysisError(f'{rid}: no consumer of find_terminal_measurements found')
